#!/venv/bin/python
"""tools/gen_prompts.py <round> <template dir> <out dir>: dev helper that
writes the prompts of a new seeding/refactoring round from the previous
round's prompt texts: scratch paths are renumbered and the list of changes
already taken is rebuilt from /verif/seeded (described by the first edited
line only - nothing else from /verif is shown to a sub-agent)."""
import glob, os, re, sys
rnd, tdir, odir = sys.argv[1:4]
prev = str(int(rnd) - 1)


def first_edit(patch):
    f = fn = None
    minus = plus = None
    for l in open(patch):
        if l.startswith("+++ b/"):
            f = l[6:].strip().replace("src/nanite/", "")
        elif l.startswith("@@"):
            m = re.search(r"@@ .* @@ (?:class |def )?(\w+)", l)
            if fn is None and m:
                fn = m.group(1)
        elif l.startswith("-") and not l.startswith("---") and minus is None and l[1:].strip():
            minus = l[1:].strip()
        elif l.startswith("+") and not l.startswith("+++") and plus is None and l[1:].strip():
            plus = l[1:].strip()
            if minus is None:
                return f"{f} ({fn}): added `{plus[:70]}`"
            return f"{f} ({fn}): changed `{minus[:60]}` -> `{plus[:60]}`"
    return f"{f} ({fn}): removed `{(minus or '')[:70]}`"


for t in sorted(glob.glob(f"{tdir}/C??.txt")):
    pid = os.path.basename(t)[:3]
    s = open(t).read()
    taken = [first_edit(p) for p in sorted(glob.glob(f"/verif/seeded/{pid}-*/patch.diff"))]
    lst = "; ".join(f"({i + 1}) {x}" for i, x in enumerate(taken))
    s = re.sub(r"\(1\) .*?\. Look for what is left", lst.replace("\\", "\\\\") + ". Look for what is left", s, flags=re.S)
    s = s.replace(f"wt{prev}", f"wt{rnd}").replace(f"mut{prev}", f"mut{rnd}")
    open(f"{odir}/{pid}.txt", "w").write(s)
for t in sorted(glob.glob(f"{tdir}/BB??.txt")):
    s = open(t).read().replace(f"wtb{prev}", f"wtb{rnd}").replace(f"ben{prev}", f"ben{rnd}")
    open(f"{odir}/{os.path.basename(t)}", "w").write(s)
print(len(os.listdir(odir)), "prompts")
