#!/venv/bin/python
"""Regenerate /verif/MANIFEST.json from the property modules that exist."""
import importlib
import json
import pathlib
import sys

V = pathlib.Path(__file__).resolve().parent.parent
sys.path.insert(0, str(V))
props = [json.loads(l) for l in (V / "properties.jsonl").read_text().splitlines() if l.strip()]
NA_REASON = {}
try:
    NA_REASON = json.loads((V / "tools" / "not_applicable.json").read_text())
except FileNotFoundError:
    pass
checks, na = [], []
for p in props:
    pid = p["id"]
    try:
        mod = importlib.import_module(f"nanite_sa.props.{pid.lower()}")
    except ModuleNotFoundError:
        mod = None
    if mod is None or pid in NA_REASON:
        na.append({"property_id": pid, "reason": NA_REASON.get(
            pid, "check not built yet (work in progress; see DESIGN.md section 4)")})
        continue
    rules = "; ".join(f"{rid} {title}" for rid, title, _ in mod.RULES)
    checks.append({
        "property_id": pid,
        "quick_cmd": f"/venv/bin/python -m nanite_sa {pid} --tier quick",
        "thorough_cmd": f"/venv/bin/python -m nanite_sa {pid} --tier thorough",
        "evidence_file": f"evidence/{pid}.json",
        "replay_cmd_template": f"/venv/bin/python -m nanite_sa {pid} --replay {{path}}",
        "engine": "nanite_sa",
        "level_claimed": {
            "category": "other",
            "text": ("Static analysis of necessary structural clauses of the property, decided for all inputs/histories "
                     "that drive the analysed paths; the behavioural property as a whole is NOT decided. Clauses: " + rules),
            "design_ref": f"DESIGN.md section 4 ({pid})"},
        "level_note": ("Trusted base: CPython ast parser, the engine in nanite_sa/ (CFG, dominators, dataflow, path conditions, "
                       "formula/scale abstract domains), the dependency API facts listed as assumptions in the evidence. "
                       "Not decided: " + "; ".join(mod.NOT_DECIDED)),
        "technique": getattr(mod, "TECHNIQUE", "custom AST/CFG dataflow checker (static analysis)"),
    })
m = {
    "version": 1,
    "setup_cmd": "/venv/bin/python -m nanite_sa.selfcheck",
    "hooks": {"guard": "NANITE_VERIF",
              "enable": "no source hooks are needed: every check parses /repo/src/nanite statically (guard declared, unused)",
              "baseline_off_cmd": "cd /repo && /venv/bin/python -m pytest -ra -q -p no:cacheprovider --timeout=900 --continue-on-collection-errors",
              "source_commits": [], "add_only": True},
    "engines": [{"name": "nanite_sa", "path": "nanite_sa/",
                 "serves_properties": [c["property_id"] for c in checks],
                 "kind_free_text": "repository-specific static analyser: ast loader, statement CFG with exception edges and dominators, reaching definitions / definite assignment, syntactic path conditions, literal-table evaluation, formula normal form, scale-type abstract interpretation"}],
    "checks": checks,
    "notes": "Static analysis only (no nanite code is imported or executed by any check); see DESIGN.md. Exit 2 + ANALYSIS-ERROR means the analyser could not decide (vanished anchor / unrecognised idiom), never a violation.",
    "not_applicable": na,
}
(V / "MANIFEST.json").write_text(json.dumps(m, indent=1))
print(f"claimed {len(checks)}, not applicable {len(na)}")
