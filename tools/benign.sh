#!/bin/bash
# usage: tools/benign.sh <dir with *.diff>... : apply each behaviour-preserving patch to a scratch copy, run all quick checks, list alarms
cd /verif
ALL="C01 C02 C03 C04 C05 C06 C07 C08 C09 C10 C11 C12 C13 C14 C15 C16 C17 C18 C19 C20"
for f in "$@"; do
  id=$(basename $f .diff)
  t=$(mktemp -d /tmp/bn.XXXXXX); mkdir -p $t/src; cp -r /repo/src/nanite $t/src/; cp -r /repo/docs $t/ 2>/dev/null; mkdir -p $t/tests; cp /repo/tests/*.py $t/tests/ 2>/dev/null
  if ! patch -s -p1 -d $t < $f >/dev/null 2>&1; then echo "$id: PATCH-DOES-NOT-APPLY"; rm -rf $t; continue; fi
  al=""
  for p in $ALL; do
    out=$(NANITE_REPO=$t /venv/bin/python -m nanite_sa $p --no-evidence 2>&1); rc=$?
    if [ $rc != 0 ]; then al="$al $p(rc$rc)"; echo "$out" | grep -v "^KNOWN\|^VIOLATION\|^\[C" | sed "s#$t/##g" | cut -c1-330 | sed "s/^/      $id $p: /" >> /tmp/benign_detail.log; fi
  done
  echo "$id:${al:- silent}"
  rm -rf $t
done
