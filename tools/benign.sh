#!/bin/bash
# usage: tools/benign.sh <patch.diff>... : apply each behaviour-preserving patch to a scratch copy, run all quick checks
# (one process per patch, tools/runall.py), list alarms; details go to /tmp/benign_detail.log
cd /verif
for f in "$@"; do
  id=$(basename $f .diff)
  t=$(mktemp -d /tmp/bn.XXXXXX); mkdir -p $t/src; cp -r /repo/src/nanite $t/src/; cp -r /repo/docs $t/ 2>/dev/null; mkdir -p $t/tests; cp /repo/tests/*.py $t/tests/ 2>/dev/null
  if ! patch -s -p1 -d $t < $f >/dev/null 2>&1; then echo "$id: PATCH-DOES-NOT-APPLY"; rm -rf $t; continue; fi
  NANITE_REPO=$t /venv/bin/python tools/runall.py | T=$t ID=$id /venv/bin/python -c '
import sys, json, os
al = []
t, pid_ = os.environ["T"], os.environ["ID"]
with open(os.environ.get("BLOG", "/tmp/benign_detail.log"), "a") as log:
    for l in sys.stdin:
        d = json.loads(l)
        if d["rc"] != 0:
            al.append("%s(rc%s)" % (d["pid"], d["rc"]))
            for ln in d["out"].splitlines():
                if ln.startswith(("KNOWN", "VIOLATION", "[C")):
                    continue
                log.write("      %s %s: %s\n" % (pid_, d["pid"], ln.replace(t + "/", "")[:330]))
print("%s: %s" % (pid_, " ".join(al) if al else "silent"))
'
  rm -rf $t
done
