#!/bin/bash
# usage: tools/onrev.sh <rev> <PID> [PID...]  (dev helper) run quick checks on /repo at a git revision
rev=$1; shift
d=$(mktemp -d /tmp/revcopy.XXXXXX)
git -C /repo archive "$rev" src docs | tar -x -C "$d"
for pid in "$@"; do
  NANITE_REPO="$d" /venv/bin/python -m nanite_sa "$pid" --no-evidence 2>&1 | sed "s#$d/##g" | grep -v "^      path" | cut -c1-330
done
rm -rf "$d"
