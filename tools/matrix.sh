#!/bin/bash
# usage: tools/matrix.sh [dir-with-seeded]  -> detection matrix of seeded changes vs all checks (dev helper)
cd /verif
ALL="C01 C02 C03 C04 C05 C06 C07 C08 C09 C10 C11 C12 C13 C14 C15 C16 C17 C18 C19 C20"
for d in seeded/*/; do
  id=$(basename $d); pid=${id%%-*}
  t=$(mktemp -d /tmp/mx.XXXXXX); mkdir -p $t/src; cp -r /repo/src/nanite $t/src/; cp -r /repo/docs $t/ 2>/dev/null
  if ! patch -s -p1 -d $t < $d/patch.diff >/dev/null 2>&1; then echo "$id: PATCH-DOES-NOT-APPLY"; rm -rf $t; continue; fi
  hits=""; own="MISS"
  for p in $ALL; do
    out=$(NANITE_REPO=$t /venv/bin/python -m nanite_sa $p --no-evidence 2>&1); rc=$?
    if [ $rc = 1 ]; then hits="$hits $p"; [ $p = $pid ] && own="HIT"; fi
    if [ $rc = 2 ]; then hits="$hits $p(err)"; [ $p = $pid ] && own="ERR"; fi
  done
  echo "$id: own=$own others:$hits"
  rm -rf $t
done
