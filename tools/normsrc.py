#!/venv/bin/python
"""usage: tools/normsrc.py <patch|-> <relpath> <func-substring> : print the normalised source of matching functions
(as the checks see them: private sibling modules spliced in, all passes applied) - debug aid"""
import sys, os, ast, subprocess, tempfile, shutil
sys.path.insert(0, "/verif")
patch, rel, pat = sys.argv[1:4]
t = tempfile.mkdtemp(prefix="ns.")
try:
    shutil.copytree("/repo/src", t + "/src")
    os.makedirs(t + "/tests", exist_ok=True)
    for f in os.listdir("/repo/tests"):
        if f.endswith(".py"): shutil.copy("/repo/tests/" + f, t + "/tests/")
    if patch != "-":
        subprocess.run(["patch", "-s", "-p1", "-d", t], stdin=open(patch), check=True)
    os.environ["NANITE_REPO"] = t
    from nanite_sa.loader import Repo
    repo = Repo()
    for m in repo.modules.values():
        if m.relpath != rel:
            continue
        for n in ast.walk(m.tree):
            if isinstance(n, (ast.FunctionDef, ast.ClassDef)) and pat in n.name:
                doc = ast.get_docstring(n)
                if doc and isinstance(n.body[0], ast.Expr):
                    n.body = n.body[1:] or [ast.Pass()]
                print(ast.unparse(n)); print("-" * 40)
finally:
    shutil.rmtree(t)
