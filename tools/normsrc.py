#!/venv/bin/python
"""usage: tools/normsrc.py <patch|-> <relpath> <func-substring> : print the normalised source of matching functions (debug aid)"""
import sys, os, ast, subprocess, tempfile, shutil
sys.path.insert(0, "/verif")
from nanite_sa.normalize import normalize_module
patch, rel, pat = sys.argv[1:4]
t = tempfile.mkdtemp(prefix="ns.")
try:
    shutil.copytree("/repo/src", t + "/src")
    os.makedirs(t + "/tests", exist_ok=True)
    for f in os.listdir("/repo/tests"):
        if f.endswith(".py"): shutil.copy("/repo/tests/" + f, t + "/tests/")
    if patch != "-":
        subprocess.run(["patch", "-s", "-p1", "-d", t], stdin=open(patch), check=True)
    tree = ast.parse(open(os.path.join(t, rel)).read())
    tree = normalize_module(tree)
    for n in ast.walk(tree):
        if isinstance(n, (ast.FunctionDef, ast.ClassDef)) and pat in n.name:
            print(ast.unparse(n)); print("-" * 40)
finally:
    shutil.rmtree(t)
