#!/venv/bin/python
"""tools/rebase_subst.py <patch> [<file> <old-text> <new-text>]...
Dev helper: re-base a corpus patch after a repair in /repo (HEAD): apply the
patch to the tree of HEAD~1, then re-do the repair by replacing <old-text>
with <new-text> (exactly one occurrence) in <file>, and write the patch back
as a diff against HEAD."""
import os, re, shutil, subprocess, sys, tempfile
patch = sys.argv[1]
subs = sys.argv[2:]
old = tempfile.mkdtemp(prefix="rb_old."); work = tempfile.mkdtemp(prefix="rb_work.")
subprocess.run(f"git -C /repo archive HEAD src docs tests | tar -x -C {old}", shell=True, check=True)
subprocess.run(f"git -C /repo archive HEAD~1 src docs tests | tar -x -C {work}", shell=True, check=True)
for d in (old, work):
    shutil.rmtree(f"{d}/tests/data", ignore_errors=True)
subprocess.run(["patch", "-s", "-p1", "-d", work], stdin=open(patch), check=True)
for i in range(0, len(subs), 3):
    rel, a, b = subs[i:i + 3]
    a = a.encode().decode("unicode_escape"); b = b.encode().decode("unicode_escape")
    p = os.path.join(work, rel)
    s = open(p).read()
    assert s.count(a) == 1, f"{a!r}: {s.count(a)} occurrences"
    open(p, "w").write(s.replace(a, b))
for root, _, fs in os.walk(work):
    for f in fs:
        if f.endswith((".orig", ".rej")):
            os.remove(os.path.join(root, f))
r = subprocess.run(f"diff -ruN {old} {work}", shell=True, capture_output=True, text=True).stdout
r = r.replace(old + "/", "a/").replace(work + "/", "b/")
r = re.sub(r"^diff -ruN a/(\S+) b/\S+$", r"diff --git a/\1 b/\1", r, flags=re.M)
r = re.sub(r"^(--- a/\S+)\t.*$", r"\1", r, flags=re.M)
r = re.sub(r"^(\+\+\+ b/\S+)\t.*$", r"\1", r, flags=re.M)
open(patch, "w").write(r)
shutil.rmtree(old); shutil.rmtree(work)
print("rebased", patch)
