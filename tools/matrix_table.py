#!/venv/bin/python
"""tools/matrix_table.py -> seeded/MATRIX.md : for every seeded change the
rules of its own property that report it and the other properties whose
checks also report it (dev helper; applies each patch to a scratch copy of
/repo/src outside /repo and /verif, removes it afterwards)."""
import concurrent.futures as cf
import json
import os
import re
import shutil
import subprocess
import tempfile

ALL = [f"C{i:02d}" for i in range(1, 21)]
ROOT = "/verif/seeded"


def one(seed):
    pid = seed.split("-")[0]
    t = tempfile.mkdtemp(prefix="mxt.", dir="/tmp")
    try:
        os.makedirs(f"{t}/src")
        shutil.copytree("/repo/src/nanite", f"{t}/src/nanite")
        if os.path.isdir("/repo/docs"):
            shutil.copytree("/repo/docs", f"{t}/docs")
        r = subprocess.run(["patch", "-s", "-p1", "-d", t],
                           stdin=open(f"{ROOT}/{seed}/patch.diff"),
                           capture_output=True)
        if r.returncode:
            return seed, None, None, None
        own, others, errs = [], [], []
        env = dict(os.environ, NANITE_REPO=t)
        o = subprocess.run(["/venv/bin/python", "/verif/tools/runall.py"],
                           cwd="/verif", env=env, capture_output=True,
                           text=True)
        for line in o.stdout.splitlines():
            d = json.loads(line)
            p = d["pid"]
            if d["rc"] == 1:
                if p == pid:
                    own = d["rules"]
                else:
                    others.append(p)
            elif d["rc"] == 2:
                errs.append(p)
        return seed, own, others, errs
    finally:
        shutil.rmtree(t, ignore_errors=True)


def touched(seed):
    """files and enclosing definitions the patch edits"""
    out = []
    cur = None
    for l in open(f"{ROOT}/{seed}/patch.diff"):
        if l.startswith("+++ b/"):
            cur = l[6:].strip().replace("src/nanite/", "")
        m = re.match(r"@@ .* @@\s*(?:def|class)\s+(\w+)", l)
        if m and cur:
            item = f"{cur}:{m.group(1)}"
            if item not in out:
                out.append(item)
        elif l.startswith("@@") and cur and not any(
                o.startswith(cur) for o in out):
            out.append(cur)
    return ", ".join(f"`{o}`" for o in out)


def main():
    seeds = sorted(d for d in os.listdir(ROOT)
                   if os.path.isdir(f"{ROOT}/{d}"))
    with cf.ThreadPoolExecutor(14) as ex:
        rows = list(ex.map(one, seeds))
    out = ["| seeded change | edited site | reported by (own property) | "
           "also reported by | cannot decide |", "|---|---|---|---|---|"]
    for seed, own, others, errs in rows:
        what = touched(seed)
        if own is None:
            out.append(f"| {seed} | {what} | PATCH DOES NOT APPLY | | |")
            continue
        out.append(f"| {seed} | {what} | "
                   f"{', '.join(own) if own else '**MISS**'} | "
                   f"{' '.join(others)} | {' '.join(errs)} |")
    open(f"{ROOT}/MATRIX.md", "w").write("\n".join(out) + "\n")
    print("\n".join(out))


if __name__ == "__main__":
    main()
