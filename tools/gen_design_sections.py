#!/venv/bin/python
"""tools/gen_design_sections.py: rewrites DESIGN.md 8.5 (copy of
seeded/MATRIX.md) and 8.7 (rule list from nanite_sa/props/cXX.py)."""
import importlib, re, sys
sys.path.insert(0, "/verif")
p = "/verif/DESIGN.md"
s = open(p).read()
h5 = s.index("### 8.5 ")
h6 = s.index("### 8.6 ")
head5 = s[h5:s.index("\n", h5) + 1]
s = s[:h5] + head5 + "\n" + open("/verif/seeded/MATRIX.md").read().rstrip() + "\n\n" + s[h6:]
h7 = s.index("### 8.7 ")
head7 = s[h7:s.index("\n", h7) + 1]
out = [head7, "",
       "Every property additionally runs the two shared rules over the files it is "
       "anchored in (and what they call): `<ID>-RM` memoisation depends on its "
       "arguments only (`memo.py`), `<ID>-RN` optional (None-default) parameters "
       "are never dereferenced unguarded (`nonedefault.py`), `<ID>-RE` broad "
       "exception handlers re-raise on every path (`swallow.py`).", ""]
for i in range(1, 21):
    pid = f"C{i:02d}"
    m = importlib.import_module(f"nanite_sa.props.{pid.lower()}")
    out.append(f"**{pid}**")
    out.append("")
    for rid, title, _ in m.RULES:
        out.append(f"- `{rid}`: {title}")
    nd = getattr(m, "NOT_DECIDED", [])
    if nd:
        out.append("- not decided: " + "; ".join(nd))
    out.append("")
s = s[:h7] + "\n".join(out)
open(p, "w").write(s)
print("ok")
