#!/venv/bin/python
"""tools/combo.py : robustness of detection under refactoring.  For every
seeded change S and every behaviour-preserving patch B that touches one of
the files S touches, apply B then S to a scratch copy (skip when they do not
compose) and run the check of S's own property: it must still report a
violation (exit 1).  Dev helper; scratch copies live under /tmp and are
removed."""
import concurrent.futures as cf
import glob
import os
import re
import shutil
import subprocess
import sys
import tempfile


def files_of(patch):
    return set(re.findall(r"^\+\+\+ b/(\S+)", open(patch).read(), re.M))


def one(job):
    seed, ben = job
    pid = os.path.basename(seed).split("-")[0]
    t = tempfile.mkdtemp(prefix="cmb.", dir="/tmp")
    try:
        os.makedirs(f"{t}/src")
        shutil.copytree("/repo/src/nanite", f"{t}/src/nanite")
        if os.path.isdir("/repo/docs"):
            shutil.copytree("/repo/docs", f"{t}/docs")
        for p in (ben, f"{seed}/patch.diff"):
            r = subprocess.run(["patch", "-s", "-p1", "--no-backup-if-mismatch",
                                "-F", "0", "-d", t], stdin=open(p),
                               capture_output=True)
            if r.returncode:
                return (seed, ben, "skip")
        env = dict(os.environ, NANITE_REPO=t)
        o = subprocess.run(["/venv/bin/python", "-m", "nanite_sa", pid,
                            "--no-evidence"], cwd="/verif", env=env,
                           capture_output=True, text=True)
        return (seed, ben, {0: "MISS", 1: "hit", 2: "undecided"}.get(
            o.returncode, "?"))
    finally:
        shutil.rmtree(t, ignore_errors=True)


def main():
    seeds = sorted(d for d in glob.glob("/verif/seeded/C*-*")
                   if os.path.isdir(d))
    bens = sorted(glob.glob("/verif/benign/C*.diff"))
    bfiles = {b: files_of(b) for b in bens}
    jobs = []
    for s in seeds:
        sf = files_of(f"{s}/patch.diff")
        for b in bens:
            if sf & bfiles[b]:
                jobs.append((s, b))
    with cf.ThreadPoolExecutor(12) as ex:
        res = list(ex.map(one, jobs))
    cnt = {}
    for s, b, r in res:
        cnt[r] = cnt.get(r, 0) + 1
        if r in ("MISS", "undecided", "?"):
            print(r, os.path.basename(s), os.path.basename(b))
    print(cnt)


if __name__ == "__main__":
    main()
