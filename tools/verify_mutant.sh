#!/bin/bash
# usage: tools/verify_mutant.sh <PID> <A|B|name> [patch] [demo]
# Confirms a seeded change against /repo HEAD in a scratch worktree:
#   patch applies; full test suite passes with it; demo FAILS with it; demo PASSES without it.
pid=$1; tag=$2
patchf=${3:-/tmp/mut/$pid/patch_$tag.diff}
demo=${4:-/tmp/mut/$pid/demo_$tag.py}
wt=$(mktemp -d /tmp/vm.XXXXXX); rmdir "$wt"
git -C /repo worktree add -q --detach "$wt" HEAD || exit 9
cp /repo/src/nanite/_version.py "$wt/src/nanite/_version.py"
res="$pid $tag:"
run_demo() { (cd "$wt" && NANITE_SRC_ROOT="$wt" PYTHONPATH="$wt/src" timeout 900 /venv/bin/python "$demo" >/tmp/vm_demo_$pid$tag.log 2>&1; echo $?); }
clean=$(run_demo); res="$res demo_clean=$clean"
if git -C "$wt" apply "$patchf" 2>/dev/null; then
  res="$res applies=yes"
  t=$(cd "$wt" && PYTHONPATH="$wt/src" /venv/bin/python -m pytest -q -p no:cacheprovider --timeout=900 -n 6 tests 2>&1 | tail -1)
  res="$res tests=[$t]"
  mut=$(run_demo); res="$res demo_mut=$mut"
else
  res="$res applies=NO"
fi
git -C /repo worktree remove --force "$wt"
echo "$res"
