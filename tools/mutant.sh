#!/bin/bash
# usage: tools/mutant.sh <patch.diff> <PID> [PID...]   (dev helper, not a registered check)
# applies the patch to a scratch copy of /repo/src (+docs) and runs the quick checks on it
set -u
patchf=$(readlink -f "$1"); shift
d=$(mktemp -d /tmp/mutcopy.XXXXXX)
mkdir -p "$d/src" && cp -r /repo/src/nanite "$d/src/" && cp -r /repo/docs "$d/" 2>/dev/null
if ! patch -s -p1 -d "$d" < "$patchf" >/dev/null 2>&1; then echo "PATCH-DOES-NOT-APPLY $patchf"; rm -rf "$d"; exit 3; fi
rc=0
for pid in "$@"; do
  NANITE_REPO="$d" /venv/bin/python -m nanite_sa "$pid" --no-evidence 2>&1 | sed "s#$d/##g" | grep -v "^      path" | cut -c1-400
  r=${PIPESTATUS[0]}; [ "$r" != 0 ] && rc=$r
done
rm -rf "$d"
exit $rc
