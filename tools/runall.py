#!/venv/bin/python
"""tools/runall.py [PID ...]: dev helper - all (or the given) quick checks in
ONE process on the tree named by $NANITE_REPO: the package is parsed and
normalised once, each property then runs exactly as `python -m nanite_sa
<PID> --no-evidence` would.  Prints one JSON line per property:
{"pid", "rc", "rules" (reporting rule ids), "out" (the check's output)}.
The registered checks never use this; it only makes the corpus runs cheap."""
import contextlib
import io
import json
import re
import sys
sys.path.insert(0, "/verif")
import nanite_sa.__main__ as M          # noqa: E402

ALL = [f"C{i:02d}" for i in range(1, 21)]
pids = [a.upper() for a in sys.argv[1:]] or ALL
_repo = None
_err = None


def shared_repo():
    global _repo, _err
    if _err is not None:
        raise _err
    if _repo is None:
        try:
            _repo = _Repo()
        except Exception as e:      # re-raised for every property
            _err = e
            raise
    return _repo


_Repo = M.Repo
M.Repo = shared_repo
for pid in pids:
    buf = io.StringIO()
    with contextlib.redirect_stdout(buf), contextlib.redirect_stderr(buf):
        try:
            rc = M.main([pid, "--no-evidence"])
        except SystemExit as e:
            rc = e.code
    out = buf.getvalue()
    rules = sorted(set(re.findall(r"^(C\d\d-R\w+) ", out, re.M)))
    print(json.dumps({"pid": pid, "rc": rc, "rules": rules, "out": out}))
