#!/bin/bash
# usage: tools/rebase_auto.sh <patch> : re-base a corpus patch onto /repo HEAD after the last repair:
# patch applied to HEAD~1, then the repair (diff HEAD~1..HEAD) re-applied with fuzz; result written back as diff against HEAD.
# Rejected hunks are listed (then re-base by hand with tools/rebase_patch.py).
p=$(readlink -f $1)
old=$(mktemp -d /tmp/rbo.XXXXXX); work=$(mktemp -d /tmp/rbw.XXXXXX)
git -C /repo archive HEAD src docs tests | tar -x -C $old; rm -rf $old/tests/data
git -C /repo archive HEAD~1 src docs tests | tar -x -C $work; rm -rf $work/tests/data
patch -s -p1 -d $work < $p || { echo "patch does not apply to HEAD~1: $1"; rm -rf $old $work; exit 1; }
if ! git -C /repo diff HEAD~1 HEAD -- src | patch -s -p1 -F3 -d $work > /tmp/rebase_auto.out 2>&1; then echo "REJECTS for $1:"; cat /tmp/rebase_auto.out; find $work -name "*.rej" -exec cat {} \; ; rm -rf $old $work; exit 2; fi
find $work -name "*.orig" -delete
(cd /tmp && diff -ruN $old $work) | sed "s#$old/#a/#g; s#$work/#b/#g" | sed -E 's#^diff -ruN a/(\S+) b/\S+$#diff --git a/\1 b/\1#; s#^(--- a/\S+)\t.*$#\1#; s#^(\+\+\+ b/\S+)\t.*$#\1#' > $p
rm -rf $old $work; echo "rebased $1"
