"""F30 (C17/C09): feat_con_idt_maxima_75perc raised ValueError ("attempt to
get argmin of an empty sequence") when the indentation part between 25 % and
100 % of the maximum indentation is a single sample (idmax - idmin == 1):
compute_features / rate_quality raised instead of yielding NaN.

Run by hand: /venv/bin/python findings/repro_F30_feature_empty_slice.py [src-root]
(Hand-run reproduction; no registered check executes this.)
"""
import sys
import warnings

sys.path.insert(0, sys.argv[1] if len(sys.argv) > 1 else "/repo/src")
import numpy as np  # noqa: E402
from nanite.rate.features import IndentationFeatures  # noqa: E402

warnings.simplefilter("ignore")


class Curve(dict):
    """minimal stand-in for a fitted curve: approach segment only"""
    def __init__(self, n_in_contact):
        n = 1000
        x = np.linspace(5e-6, -2e-6, n)
        cp = x[-1 - n_in_contact] - 1e-12
        y = np.where(x < cp, (cp - x)**1.5, 0.) * 1e3
        super().__init__({"tip position": x, "force": y, "fit": y.copy(),
                          "segment": np.zeros(n, dtype=int)})

        class P:
            value = cp
        self.fit_properties = {"success": True, "x_axis": "tip position",
                               "y_axis": "force",
                               "params_fitted": {"contact_point": P}}


bad = 0
for k in (1, 2, 3, 4, 5, 8, 50):
    feats = IndentationFeatures(Curve(k))
    try:
        v = feats.feat_con_idt_maxima_75perc()
        print(f"{k:3d} samples in contact -> {v}")
    except Exception as e:  # noqa: BLE001
        bad += 1
        print(f"{k:3d} samples in contact -> RAISES {type(e).__name__}: {e}")
sys.exit(1 if bad else 0)
