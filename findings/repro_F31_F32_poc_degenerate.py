"""F31/F32 (C08): compute_poc raises for documented degenerate inputs instead
of falling back to the middle of the data.

F31: a flat approach part followed by a single step (after clipping at the
     force maximum the data are constant): the three fit-based estimators
     divide by the zero force range, the NaN reaches lmfit.minimize, which
     raises ValueError.
F32: a curve without baseline (force = sqrt(index)): fit_line_polynomial
     starts from the index estimate x0 = 0 and computes the initial slope
     y[x0]/x0 = 0/0.

Run by hand: PYTHONPATH=/repo/src /venv/bin/python findings/repro_F31_F32_poc_degenerate.py
exit 0 = defects absent, 1 = present."""
import sys
import warnings
import numpy as np
from nanite import poc

warnings.simplefilter("ignore")
cases = {"flat part + one step (F31)": np.r_[np.zeros(500), 1.0],
         "no baseline, sqrt (F32)": np.sqrt(np.arange(1000.))}
bad = 0
for name, force in cases.items():
    for meth in [m.identifier for m in poc.POC_METHODS]:
        try:
            cp = poc.compute_poc(force, meth)
        except Exception as e:  # noqa
            print(f"{name}: {meth} raises {type(e).__name__}: {str(e)[:50]}")
            bad += 1
            continue
        if not (0 <= cp < force.size):
            print(f"{name}: {meth} returns {cp}")
            bad += 1
print("defective cases:", bad)
sys.exit(1 if bad else 0)
