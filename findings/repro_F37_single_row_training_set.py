"""F37 (C15): a training-set directory with a single sample cannot be
loaded with the default `remove_nan=True`: np.loadtxt returns a 0-d
response for a one-line train_response.txt and `response[valid]` raises
IndexError (the sample matrix is read with ndmin=2, the response is not).

Run by hand: PYTHONPATH=/repo/src /venv/bin/python findings/repro_F37_single_row_training_set.py
exit 0 = defect absent, 1 = defect present."""
import pathlib
import sys
import tempfile
import numpy as np
from nanite.rate.rater import IndentationRater

names = IndentationRater.get_feature_names(which_type=["continuous"])
with tempfile.TemporaryDirectory() as td:
    td = pathlib.Path(td)
    for k, fn in enumerate(names):
        np.savetxt(td / f"train_{fn}.txt", np.array([0.1 * (k + 1)]))
    np.savetxt(td / "train_response.txt", np.array([7.0]))
    try:
        X, y = IndentationRater.load_training_set(path=td)
    except IndexError as e:
        print("single-sample training set cannot be loaded:", e)
        sys.exit(1)
    print("samples", X.shape, "response", np.shape(y))
    sys.exit(0 if X.shape == (1, len(names)) and np.shape(y) == (1,)
             and y[0] == 7.0 else 1)
