"""rate_quality must never raise: (a) preprocessed but not fitted,
(b) a setting edited after a fit (results dropped). Prints DEFECT / ok."""
import pathlib, warnings
warnings.simplefilter("ignore")
import nanite
data = pathlib.Path(nanite.__file__).resolve().parents[2] / "tests" / "data"
def load():
    return nanite.IndentationGroup(data / "fmt-jpk-fd_spot3-0192.jpk-force")[0]
idnt = load()
idnt.apply_preprocessing(["compute_tip_position", "correct_force_offset", "correct_tip_offset"])
try:
    print("F4a ok", idnt.rate_quality())
except KeyError as e:
    print("F4a DEFECT rate_quality raised KeyError", e)
idnt.fit_model(model_key="hertz_para", weight_cp=False)
idnt.fit_properties["weight_cp"] = 2e-6   # results dropped, settings kept
try:
    print("F4b ok", idnt.rate_quality())
except KeyError as e:
    print("F4b DEFECT rate_quality raised KeyError", e)
