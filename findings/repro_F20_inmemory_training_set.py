"""Known finding (not repaired): rate_quality with an in-memory training set
(X, y). (a) The cache keeps the tuple by reference: editing X in place and
rating again returns the stale value. (b) Passing a different (X, y) tuple
makes the cache test compare arrays with `!=` and raises ValueError."""
import pathlib, warnings
warnings.simplefilter("ignore")
import numpy as np
import nanite
from nanite.rate import IndentationRater
data = pathlib.Path(nanite.__file__).resolve().parents[2] / "tests" / "data"
idnt = nanite.IndentationGroup(data / "fmt-jpk-fd_spot3-0192.jpk-force")[0]
idnt.apply_preprocessing(["compute_tip_position", "correct_force_offset", "correct_tip_offset"])
idnt.fit_model(model_key="hertz_para", weight_cp=False)
X, y = IndentationRater.load_training_set()
r1 = idnt.rate_quality(training_set=(X, y))
X2, y2 = X.copy(), y.copy()
y[:] = 10 - y            # in-place edit of the previously passed response
r2 = idnt.rate_quality(training_set=(X, y))
print("F20a", "DEFECT (stale rating after in-place edit)" if r1 == r2 else "ok", r1, r2)
try:
    r3 = idnt.rate_quality(training_set=(X2, y2))
    print("F20b ok", r3)
except ValueError as e:
    print("F20b DEFECT rate_quality raised ValueError:", str(e)[:60])
