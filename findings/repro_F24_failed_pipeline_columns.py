"""F24 (C06/C03): a pipeline that failed part-way left half-preprocessed
columns behind; after a fit the empty default pipeline was remembered as
applied and apply_preprocessing([], {}) was skipped.

Run by hand: /venv/bin/python findings/repro_F24_failed_pipeline_columns.py [src-root]
Before the repair (815cf96^) the last line prints `True | in fresh: False`,
after it `False | in fresh: False`.  (Hand-run reproduction; no registered
check executes this.)
"""
import sys, pathlib, numpy as np
sys.path.insert(0, sys.argv[1] if len(sys.argv) > 1 else "/repo/src")
import nanite
p = pathlib.Path("/repo/tests/data/fmt-jpk-fd_spot3-0192.jpk-force")
def load():
    return nanite.IndentationGroup(p)[0]
a = load()
raw_tip = np.array(a["height (measured)"]).copy()
try:
    a.apply_preprocessing(["compute_tip_position", "bogus"])
except KeyError as e:
    print("rejected:", e)
print("after rejected request: 'tip position' in a:", "tip position" in a)
try:
    a.fit_model(model_key="hertz_para")
except Exception as e:
    print("fit raised", type(e).__name__, e)
print("fit_properties preprocessing:", a.fit_properties.get("preprocessing"))
a.apply_preprocessing([], {})
b = load()
b.apply_preprocessing([], {})
cols_a = sorted(a.columns) if hasattr(a, "columns") else None
print("'tip position' in a:", "tip position" in a, "| in fresh:", "tip position" in b)
