"""F29 (C14): preproc.apply(apret, identifiers) with the documented default
`options=None` raises AttributeError for every valid, non-empty list
('NoneType' object has no attribute 'get'): a list whose required steps
precede their dependants is not accepted.

Run by hand: PYTHONPATH=/repo/src /venv/bin/python findings/repro_F29_apply_default_options.py
exit 0 = defect absent, 1 = defect present."""
import pathlib
import sys
import nanite
from nanite import preproc

root = pathlib.Path(nanite.__file__).resolve().parents[2]
jpk = next((root / "tests" / "data").glob("fmt-jpk-fd_spot3-0192.jpk-force"))
idnt = nanite.IndentationGroup(jpk)[0]
try:
    preproc.apply(idnt, ["compute_tip_position", "correct_force_offset"])
except AttributeError as e:
    print("valid list rejected:", repr(e))
    sys.exit(1)
print("accepted; columns:", "tip position" in idnt)
sys.exit(0)
