"""F23 (C14): autosort made a single insertion pass.

Moving a precursor in front of a step can place it in front of its own
precursors that were processed earlier in the same pass; the final
check_order then raised ValueError for admissible selections.

Run by hand:  /venv/bin/python findings/repro_F23_autosort_single_pass.py [src-root]
Before the repair (fdf40a7^): 174 of the 1424 admissible selections fail.
After: 0.  (Hand-run reproduction; no registered check executes this.)
"""
import itertools
import sys

sys.path.insert(0, sys.argv[1] if len(sys.argv) > 1 else "/repo/src")
from nanite import preproc  # noqa: E402

ids = [p.identifier for p in preproc.PREPROCESSORS]


def admissible(sel):
    return all(set(preproc.get_func(s).steps_required or []) <= set(sel)
               for s in sel)


n = adm = 0
fails = []
for r in range(len(ids) + 1):
    for sel in itertools.permutations(ids, r):
        n += 1
        sel = list(sel)
        if not admissible(sel):
            continue
        adm += 1
        try:
            out = preproc.autosort(sel)
            assert sorted(out) == sorted(sel), "not a permutation"
            preproc.check_order(out)
            assert preproc.autosort(out) == out, "not idempotent"
            try:
                preproc.check_order(sel)
                valid = True
            except ValueError:
                valid = False
            if valid:
                assert out == sel, "valid order changed"
        except Exception as e:  # noqa: BLE001
            fails.append((sel, repr(e)[:70]))
print("selections", n, "admissible", adm, "failing", len(fails))
for f in fails[:3]:
    print(" ", f)
sys.exit(1 if fails else 0)
