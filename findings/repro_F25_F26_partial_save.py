"""F25/F26 (C16): a save that fails part-way can make the whole rating
container unreadable.

F25: failure between `data.create_dataset(<hash>)` and `meas.attrs["path"] = ...`
     -> the next save of a curve of the same file completes normally, but
     load_hdf5 raises KeyError('path') for the entire container.
F26: failure between two `out.create_dataset(...)` calls of a new analysis
     group -> a later save of the same curve reuses the incomplete group,
     writes the 'user rate' marker, and load_hdf5 raises KeyError for the
     entire container.

Run by hand: /venv/bin/python findings/repro_F25_F26_partial_save.py [src-root]
(Hand-run reproduction; no registered check executes this.)
"""
import pathlib, sys, tempfile, shutil
sys.path.insert(0, sys.argv[1] if len(sys.argv) > 1 else "/repo/src")
import h5py
import nanite
from nanite.rate import io as rio

data = pathlib.Path("/repo/tests/data")
f1 = data / "fmt-jpk-fd_spot3-0192.jpk-force"
f2 = data / "fmt-jpk-fd_map2x2_extracted.jpk-force-map"


def fitted(path, enum=0):
    grp = nanite.IndentationGroup(path)
    idnt = grp[enum]
    idnt.apply_preprocessing(["compute_tip_position", "correct_force_offset",
                              "correct_tip_offset"])
    idnt.fit_model(model_key="hertz_para", params_initial=None,
                   x_axis="tip position", y_axis="force", weight_cp=False)
    return idnt


class Boom(Exception):
    pass


def failing(kind, nth):
    """context: the nth call of AttributeManager.__setitem__ /
    Group.create_dataset raises"""
    import contextlib

    @contextlib.contextmanager
    def cm():
        cnt = [0]
        if kind == "attr":
            orig = h5py.AttributeManager.__setitem__

            def wrap(self, k, v):
                cnt[0] += 1
                if cnt[0] == nth:
                    raise Boom(f"injected at attr #{nth} ({k})")
                return orig(self, k, v)
            h5py.AttributeManager.__setitem__ = wrap
            try:
                yield
            finally:
                h5py.AttributeManager.__setitem__ = orig
        else:
            orig = h5py.Group.create_dataset

            def wrap(self, *a, **k):
                cnt[0] += 1
                if cnt[0] == nth:
                    raise Boom(f"injected at dataset #{nth} ({a[0]})")
                return orig(self, *a, **k)
            h5py.Group.create_dataset = wrap
            try:
                yield
            finally:
                h5py.Group.create_dataset = orig
    return cm()


bad = 0
tdir = pathlib.Path(tempfile.mkdtemp(prefix="f25_"))
try:
    a, b = fitted(f1), fitted(f2, 0)
    # --- F25
    h5 = tdir / "f25.h5"
    rio.save_hdf5(h5, a, 5, "me", "first")               # a complete entry
    try:
        with failing("attr", 1):                           # meas.attrs["path"]
            rio.save_hdf5(h5, b, 3, "me", "second")
    except Boom as e:
        print("F25: save failed part-way:", e)
    rio.save_hdf5(h5, b, 3, "me", "second again")         # normal retry
    try:
        n = len(rio.load_hdf5(h5))
        print("F25: container readable,", n, "ratings")
    except Exception as e:
        bad += 1
        print("F25: container UNREADABLE:", type(e).__name__, e)
    # --- F26
    h5 = tdir / "f26.h5"
    rio.save_hdf5(h5, a, 5, "me", "first")
    try:
        with failing("dataset", 3):      # raw data, 'fit', then 'fit range'
            rio.save_hdf5(h5, b, 3, "me", "second")
    except Boom as e:
        print("F26: save failed part-way:", e)
    try:
        rio.save_hdf5(h5, b, 3, "me", "second again")
        print("F26: retry accepted")
    except Exception as e:
        print("F26: retry raised", type(e).__name__, e)
    try:
        n = len(rio.load_hdf5(h5))
        print("F26: container readable,", n, "ratings")
    except Exception as e:
        bad += 1
        print("F26: container UNREADABLE:", type(e).__name__, e)
finally:
    shutil.rmtree(tdir, ignore_errors=True)
sys.exit(1 if bad else 0)
