"""F33 (C05): with the plateau search on, a requested `range_x` whose upper
bound equals the stored (default) one is dropped by the don't-care branch of
FitProperties.__setitem__ (early `return` before the value is stored).  The
request is lost: switching the plateau search off afterwards fits the whole
segment instead of the requested interval.

Run by hand: PYTHONPATH=/repo/src /venv/bin/python findings/repro_F33_dropped_range_request.py
exit 0 = defect absent, 1 = defect present."""
import pathlib
import sys
import numpy as np
import nanite

root = pathlib.Path(nanite.__file__).resolve().parents[2]
jpk = next((root / "tests" / "data").glob("fmt-jpk-fd_spot3-0192.jpk-force"))
steps = ["compute_tip_position", "correct_force_offset", "correct_tip_offset"]


def load():
    c = nanite.IndentationGroup(jpk)[0]
    c.apply_preprocessing(steps)
    return c


req = [-1e-6, 0]
a = load()
a.fit_model(model_key="hertz_para", x_axis="tip position", y_axis="force",
            segment="approach", range_type="absolute",
            optimal_fit_edelta=True, range_x=req)
a.fit_model(optimal_fit_edelta=False)
b = load()
b.fit_model(model_key="hertz_para", x_axis="tip position", y_axis="force",
            segment="approach", range_type="absolute",
            optimal_fit_edelta=False, range_x=req)
na, nb = int(np.sum(a["fit range"])), int(np.sum(b["fit range"]))
print("stored range_x after the two calls:", a.fit_properties["range_x"], "requested:", req)
print("points fitted:", na, "expected:", nb)
sys.exit(0 if (list(a.fit_properties["range_x"]) == req and na == nb) else 1)
