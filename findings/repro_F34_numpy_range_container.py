"""F34 (C16): a curve fitted with a `range_x` made of numpy scalars (what
`tip.min()` or `np.float64(...)` give) is written into a rating container as
the text "(np.float64(-1e-06), 0)" (numpy >= 2 scalar repr); load_hdf5 parses
that attribute with float() and raises ValueError - the container, including
every rating stored in it before, can no longer be loaded.

Run by hand: PYTHONPATH=/repo/src /venv/bin/python findings/repro_F34_numpy_range_container.py
exit 0 = defect absent, 1 = defect present."""
import pathlib
import sys
import tempfile
import numpy as np
import nanite
from nanite.rate import io as rio

root = pathlib.Path(nanite.__file__).resolve().parents[2]
jpk = next((root / "tests" / "data").glob("fmt-jpk-fd_spot3-0192.jpk-force"))
steps = ["compute_tip_position", "correct_force_offset", "correct_tip_offset"]

c = nanite.IndentationGroup(jpk)[0]
c.apply_preprocessing(steps)
req = (np.float64(-1e-6), 0)
c.fit_model(model_key="hertz_para", x_axis="tip position", y_axis="force",
            segment="approach", range_type="absolute", range_x=req)
with tempfile.TemporaryDirectory() as td:
    h5 = pathlib.Path(td) / "ratings.h5"
    rio.save_hdf5(h5, c, user_rate=5, user_name="u", user_comment="")
    try:
        back = rio.load_hdf5(h5)
    except ValueError as e:
        print("container unreadable:", e)
        sys.exit(1)
    got = tuple(back[0]["fit properties"]["range_x"])
    print("range_x stored:", req, "loaded:", got)
    sys.exit(0 if got == (float(req[0]), float(req[1])) else 1)
