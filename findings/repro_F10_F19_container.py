"""Rating container defects. F10: a save that fails part-way (fault injected
at the 3rd create_dataset of the second curve) must not make the ratings
already stored unreadable. F19: storing a *different* fit for an already
stored curve must be refused. Prints DEFECT / ok."""
import pathlib, tempfile, warnings
warnings.simplefilter("ignore")
import h5py, numpy as np
import nanite
from nanite.rate import io as rio
data = pathlib.Path(nanite.__file__).resolve().parents[2] / "tests" / "data"
def fitted(name, **kw):
    idnt = nanite.IndentationGroup(data / name)[0]
    idnt.apply_preprocessing(["compute_tip_position", "correct_force_offset", "correct_tip_offset"])
    idnt.fit_model(model_key="hertz_para", weight_cp=False, **kw)
    return idnt
tmp = pathlib.Path(tempfile.mkdtemp())
h5p = tmp / "c.h5"
a = fitted("fmt-jpk-fd_spot3-0192.jpk-force")
rio.save_hdf5(h5p, a, user_rate=7, user_name="u", user_comment="first")
b = fitted("fmt-jpk-fd_map2x2_extracted.jpk-force-map")
orig = h5py.Group.create_dataset
count = {"n": 0}
def faulty(self, name, *args, **kw):
    if self.name.startswith("/analysis"):
        count["n"] += 1
        if count["n"] == 3:
            raise OSError("disk full (injected)")
    return orig(self, name, *args, **kw)
h5py.Group.create_dataset = faulty
try:
    rio.save_hdf5(h5p, b, user_rate=3, user_name="u", user_comment="second")
except OSError:
    pass
h5py.Group.create_dataset = orig
try:
    r = rio.load_hdf5(h5p, meta_only=True)
    ok = [x["comment"] for x in r] == ["first"]
    print("F10", "ok" if ok else "DEFECT", [x["comment"] for x in r])
except Exception as e:
    print("F10 DEFECT load_hdf5 raised", type(e).__name__, e)
try:
    print("F10b", rio.hdf5_rated(h5p, b))
except Exception as e:
    print("F10b DEFECT hdf5_rated raised", type(e).__name__, e)
# F19
h5q = tmp / "d.h5"
rio.save_hdf5(h5q, a, user_rate=7, user_name="u", user_comment="first")
a.fit_model(range_x=(-3e-7, 1e-6))   # a different fit of the same curve
try:
    rio.save_hdf5(h5q, a, user_rate=2, user_name="u", user_comment="other fit")
    print("F19 DEFECT: a different fit was accepted for an already stored curve")
except ValueError:
    print("F19 ok (refused)")
