"""F35, F36 (C09): two curve states / configurations for which rate_quality
raises instead of returning a number.

F35: a feature selection without continuous features
     (names=['feat_bin_size']) - IndentationRater.load_training_set calls
     np.concatenate on an empty list ("need at least one array").
F36: a successful fit on an abscissa that does not decrease during approach
     (fit_model(x_axis='time')) - IndentationFeatures.datax_apr asserts
     x[0] > x[-1]; the AssertionError escapes from rate_quality.

Run by hand: PYTHONPATH=/repo/src /venv/bin/python findings/repro_F35_F36_rate_quality_raises.py
exit 0 = both absent, 1 = at least one present."""
import pathlib
import sys
import warnings
import nanite

warnings.simplefilter("ignore")
root = pathlib.Path(nanite.__file__).resolve().parents[2]
jpk = next((root / "tests" / "data").glob("fmt-jpk-fd_spot3-0192.jpk-force"))
steps = ["compute_tip_position", "correct_force_offset", "correct_tip_offset"]


def load():
    c = nanite.IndentationGroup(jpk)[0]
    c.apply_preprocessing(steps)
    return c


bad = 0
c = load()
c.fit_model(model_key="hertz_para")
try:
    print("F35 binary-only selection ->", c.rate_quality(names=["feat_bin_size"]))
except Exception as e:
    bad += 1
    print("F35 present: rate_quality(names=['feat_bin_size']) raises",
          type(e).__name__, e)
c = load()
c.fit_model(model_key="hertz_para", x_axis="time")
print("fit on the time axis successful:", c.fit_properties["success"])
try:
    print("F36 time axis ->", c.rate_quality())
except AssertionError as e:
    bad += 1
    print("F36 present: rate_quality() after fit_model(x_axis='time') raises "
          "AssertionError:", e)
sys.exit(1 if bad else 0)
