"""QMap 'fit: rating' must show the rating of the *current* fit or NaN; after
a refit with other settings it showed the rating of the previous fit."""
import pathlib, warnings
warnings.simplefilter("ignore")
import numpy as np
import nanite
data = pathlib.Path(nanite.__file__).resolve().parents[2] / "tests" / "data"
qm = nanite.QMap(data / "fmt-jpk-fd_map2x2_extracted.jpk-force-map")
for idnt in qm.group:
    idnt.apply_preprocessing(["compute_tip_position", "correct_force_offset", "correct_tip_offset"])
    idnt.fit_model(model_key="hertz_para", weight_cp=False)
    idnt.rate_quality()
before = qm.get_qmap("fit: rating", qmap_only=True).copy()
idnt = qm.group[0]
idnt.fit_model(range_x=(-2e-7, 1e-6))       # refit, not rated again
after = qm.get_qmap("fit: rating", qmap_only=True)
fresh = idnt.rate_quality()
changed = np.nansum(np.abs(np.nan_to_num(after) - np.nan_to_num(before))) > 0 or np.isnan(after).sum() > np.isnan(before).sum()
print("F15", "ok" if changed else f"DEFECT map still shows the old rating (current fit would rate {fresh:.3f})")
