"""With the plateau search on, the documented don't-care is the *lower* bound
of the range; the fit uses max(range_x) as upper bound. FitProperties and the
hash, however, treat range_x[1] as 'the upper bound'. For an inverted request
(upper bound first) a changed upper bound is therefore (a) ignored by the
fitter's settings copy and (b) not reflected in the hash."""
import pathlib, warnings
warnings.simplefilter("ignore")
import nanite
data = pathlib.Path(nanite.__file__).resolve().parents[2] / "tests" / "data"
def fitted(rx):
    idnt = nanite.IndentationGroup(data / "fmt-jpk-fd_spot3-0192.jpk-force")[0]
    idnt.apply_preprocessing(["compute_tip_position", "correct_force_offset", "correct_tip_offset"])
    idnt.fit_model(model_key="hertz_para", weight_cp=False, optimal_fit_edelta=True,
                   optimal_fit_num_samples=10, range_x=rx)
    return idnt
a = fitted((2e-7, 0))     # inverted: effective interval [.., 2e-7]
b = fitted((1e-7, 0))     # inverted: effective interval [.., 1e-7]
c = fitted((0, 2e-7))     # same effective interval as a, not inverted
ha, hb, hc = (x.fit_properties["hash"] for x in (a, b, c))
print("F22a", "DEFECT: different effective upper bounds, same hash" if ha == hb else "ok")
xa, xc = a.fit_properties["xmax"], c.fit_properties["xmax"]
print("F22b", "DEFECT: inverted request not honoured" if abs(xa - xc) > 1e-12 else "ok", xa, xc)
