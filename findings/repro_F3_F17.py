"""F3: compute_poc must fall back to the middle of the data for degenerate
force arrays instead of raising. F17: compute_features returns the features
in the order of the sorted names requested."""
import pathlib, warnings
warnings.simplefilter("ignore")
import numpy as np
import nanite
from nanite import poc
from nanite.rate.features import IndentationFeatures
bad = []
for name, arr in [("decreasing", np.linspace(1, 0, 100)), ("constant", np.ones(100)),
                  ("max first", np.r_[5.0, np.zeros(50)])]:
    for m in poc.POC_METHODS:
        try:
            cp = poc.compute_poc(arr.copy(), method=m.identifier)
            if not (0 <= cp < arr.size) or cp != int(cp):
                bad.append((name, m.identifier, cp))
        except Exception as e:
            bad.append((name, m.identifier, type(e).__name__))
print("F3", "DEFECT" if bad else "ok", bad)
data = pathlib.Path(nanite.__file__).resolve().parents[2] / "tests" / "data"
idnt = nanite.IndentationGroup(data / "fmt-jpk-fd_spot3-0192.jpk-force")[0]
idnt.apply_preprocessing(["compute_tip_position", "correct_force_offset", "correct_tip_offset"])
idnt.fit_model(model_key="hertz_para", weight_cp=False)
req = ["feat_con_idt_sum", "feat_con_apr_sum"]
_, names = IndentationFeatures.compute_features(idnt, names=req, ret_names=True)
print("F17", "DEFECT (caller order kept)" if list(names) != sorted(req) else "ok", names)
