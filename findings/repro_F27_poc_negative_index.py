"""F27 (C08): fit-based contact point estimators return int(x0) of an
unbounded fit parameter; for a curve without a baseline compute_poc
returned a negative index (e.g. -20 for fit_constant_polynomial, -1 for
fit_line_polynomial) instead of the documented centre fallback.

Run by hand: /venv/bin/python findings/repro_F27_poc_negative_index.py [src-root]
(Hand-run reproduction; no registered check executes this.)
"""
import sys
import warnings

sys.path.insert(0, sys.argv[1] if len(sys.argv) > 1 else "/repo/src")
import numpy as np  # noqa: E402
from nanite import poc  # noqa: E402

warnings.simplefilter("ignore")
force = np.linspace(0, 1e-9, 200)**1.5        # no baseline at all
bad = 0
for m in poc.POC_METHODS:
    r = poc.compute_poc(force, m.identifier)
    ok = isinstance(r, (int, np.integer)) and 0 <= r < force.size
    bad += not ok
    print(f"{m.identifier:28s} -> {r} {'' if ok else 'OUT OF RANGE'}")
sys.exit(1 if bad else 0)
