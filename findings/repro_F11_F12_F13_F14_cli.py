"""CLI profile defects, driven with scripted input(). Prints DEFECT / ok."""
import builtins, json, os, pathlib, sys, tempfile, warnings
warnings.simplefilter("ignore")
tmp = tempfile.mkdtemp()
os.environ["XDG_CONFIG_HOME"] = tmp
os.environ["HOME"] = tmp
import nanite
from nanite.cli import profile as prof, rating
data = pathlib.Path(nanite.__file__).resolve().parents[2] / "tests" / "data"
jpk = data / "fmt-jpk-fd_spot3-0192.jpk-force"

def run_setup(script):
    """script: dict prompt-substring -> answer (default: empty = keep)"""
    def fake_input(prompt=""):
        for k, v in script.items():
            if k in prompt:
                return v
        return ""
    old, oldargv = builtins.input, sys.argv
    builtins.input, sys.argv = fake_input, ["nanite-setup-profile"]
    try:
        prof.setup_profile()
    finally:
        builtins.input, sys.argv = old, oldargv
    return prof.Profile()

def fresh():
    p = pathlib.Path(prof.PROFILE_PATH)
    if p.exists():
        p.unlink()

# F11: every accepted range type must be accepted by the batch fit
fresh()
import re, inspect
src = inspect.getsource(prof.setup_profile)
m = re.search(r'rt not in \[(.*?)\]', src)
accepted = [s.strip().strip('"\'') for s in m.group(1).split(",")]
bad = []
for rt in accepted:
    fresh()
    pf = run_setup({"(currently 'absolute')": rt})
    rating.fit_data.cache_clear()
    try:
        rating.fit_data(jpk, profile_path=pf.path)
    except BaseException as e:
        bad.append((rt, type(e).__name__))
print("F11", "DEFECT" if bad else "ok", bad)

# F12: answering only the right interval bound must store it
fresh()
pf = run_setup({"right [": "2.5"})
print("F12", "DEFECT" if abs(pf["range_x"][1] - 2.5e-6) > 1e-12 else "ok", pf["range_x"])

# F13: a preprocessing selection accepted by setup must be accepted by the fit
fresh()
pf = run_setup({"Define preprocessing": "", "(currently '1,2,": "4,1"})  # tip offset before tip position
steps = pf["preprocessing"]
rating.fit_data.cache_clear()
try:
    rating.fit_data(jpk, profile_path=pf.path)
    print("F13 ok", steps)
except BaseException as e:
    print("F13 DEFECT", steps, type(e).__name__, str(e)[:60])

# F14: batch statistics for every selectable model
fresh()
pf = prof.Profile()
pf["model_key"] = "power_layer_clifford_2009"
out = pathlib.Path(tmp) / "out"; out.mkdir()
d = pathlib.Path(tmp) / "d"; d.mkdir()
import shutil; shutil.copy(jpk, d / jpk.name)
try:
    rating.fit_data.cache_clear()
    rating.fit_perform(d, out, profile_path=pf.path)
    print("F14 ok")
except KeyError as e:
    print("F14 DEFECT KeyError", e)
