"""obj2bytes joined list items without delimiter: range_x=[1.0, 23.0] and
[1.02, 3.0] encode to the same bytes, so two different settings share one
fit hash. Prints DEFECT / ok."""
from nanite.fit import obj2bytes
a, b = obj2bytes([1.0, 23.0]), obj2bytes([1.02, 3.0])
print("F9", "DEFECT" if a == b else "ok", a, b)
c, d = obj2bytes(["ab", "c"]), obj2bytes(["a", "bc"])
print("F9b", "DEFECT" if c == d else "ok", c, d)
