"""rate_quality caches (hash, regressor, training_set, names, lda, rating) and
keeps the caller's `names` list by reference: after an in-place edit of that
list the cache test compares the list with itself and returns the rating of
the old feature selection. Prints DEFECT / ok."""
import pathlib, warnings
warnings.simplefilter("ignore")
import nanite
data = pathlib.Path(nanite.__file__).resolve().parents[2] / "tests" / "data"
idnt = nanite.IndentationGroup(data / "fmt-jpk-fd_spot3-0192.jpk-force")[0]
idnt.apply_preprocessing(["compute_tip_position", "correct_force_offset", "correct_tip_offset"])
idnt.fit_model(model_key="hertz_para", weight_cp=False)
names = ["feat_con_apr_sum", "feat_con_idt_sum"]
r1 = idnt.rate_quality(names=names)
names.append("feat_con_bln_slope"); names.append("feat_con_idt_monotony"); names.remove("feat_con_apr_sum")
r2 = idnt.rate_quality(names=names)
fresh = nanite.IndentationGroup(data / "fmt-jpk-fd_spot3-0192.jpk-force")[0]
fresh.apply_preprocessing(["compute_tip_position", "correct_force_offset", "correct_tip_offset"])
fresh.fit_model(model_key="hertz_para", weight_cp=False)
r3 = fresh.rate_quality(names=list(names))
print("F6c", "DEFECT" if r2 != r3 else "ok", r1, r2, r3)
