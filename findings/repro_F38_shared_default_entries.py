"""F38 (C10, C03): the settings of a fitter shared the mutable entries of the
module-level FP_DEFAULT table (`FitProperties(**FP_DEFAULT)`): after a fit
without an explicit range, `idnt.fit_properties["range_x"]` was
`FP_DEFAULT["range_x"]` itself, and an in-place edit of it changed the default
range of every later fit in the process (E of a freshly loaded curve went from
15344.6 to 17382.8).

Run by hand: PYTHONPATH=/repo/src /venv/bin/python findings/repro_F38_shared_default_entries.py
exit 0 = defect absent, 1 = defect present."""
import sys, pathlib, numpy as np
import nanite
from nanite import IndentationGroup
from nanite import fit as nfit
p = pathlib.Path("/repo/tests/data/fmt-jpk-fd_spot3-0192.jpk-force")
def fresh():
    idnt = IndentationGroup(p)[0]
    idnt.apply_preprocessing(["compute_tip_position", "correct_force_offset", "correct_tip_offset"])
    return idnt
a = fresh(); a.fit_model(model_key="hertz_para")
E0 = a.fit_properties["params_fitted"]["E"].value
print("shared with module default:", a.fit_properties["range_x"] is nfit.FP_DEFAULT["range_x"])
rx = a.fit_properties["range_x"]; rx[0] = -5e-7
h = a.fit_properties["hash"]; a.fit_model(range_x=rx)
print("refit noticed:", a.fit_properties["hash"] != h)
b = fresh(); b.fit_model(model_key="hertz_para")
E1 = b.fit_properties["params_fitted"]["E"].value
print("E fresh curve before/after:", E0, E1, "FP_DEFAULT range_x:", nfit.FP_DEFAULT["range_x"])
sys.exit(1 if (E0 != E1) else 0)
