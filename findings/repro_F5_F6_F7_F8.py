"""Reproduction of defects F5-F8 against the real nanite code (run by hand
with /venv/bin/python; NOT part of any registered check).  Prints one line
per defect: 'DEFECT' if the tree misbehaves, 'ok' if repaired."""
import copy, pathlib, sys, warnings
warnings.simplefilter("ignore")
import numpy as np
import nanite
from nanite import model

data = pathlib.Path(nanite.__file__).resolve().parents[2] / "tests" / "data"
jpk = data / "fmt-jpk-fd_spot3-0192.jpk-force"

def load():
    return nanite.IndentationGroup(jpk)[0]

# F5: a rejected request, repeated, must be rejected again
idnt = load()
bad = ["correct_tip_offset"]  # lacks required compute_tip_position
outcomes = []
for _ in range(2):
    try:
        idnt.apply_preprocessing(bad)
        outcomes.append("accepted")
    except ValueError:
        outcomes.append("rejected")
print("F5", "DEFECT" if outcomes != ["rejected", "rejected"] else "ok", outcomes, idnt.preprocessing)

# F6a: in-place edit of a previously passed options dict must be noticed
idnt = load()
steps = ["compute_tip_position", "correct_tip_offset"]
opts = {"correct_tip_offset": {"method": "deviation_from_baseline"}}
idnt.apply_preprocessing(steps, options=opts)
t1 = idnt["tip position"].copy()
opts["correct_tip_offset"]["method"] = "fit_constant_line"
idnt.apply_preprocessing(steps, options=opts)
t2 = idnt["tip position"].copy()
ref = load(); ref.apply_preprocessing(steps, options=copy.deepcopy(opts))
print("F6a", "DEFECT" if not np.array_equal(t2, ref["tip position"]) else "ok")

# F6b: get parameters, edit in place, fit again -> must refit
idnt = load()
idnt.apply_preprocessing(["compute_tip_position", "correct_force_offset", "correct_tip_offset"])
idnt.fit_model(model_key="hertz_para", weight_cp=False)
e1 = idnt.fit_properties["params_fitted"]["E"].value
p = idnt.get_initial_fit_parameters()
p["R"].value = p["R"].value * 4
idnt.fit_model(params_initial=p)
e2 = idnt.fit_properties["params_fitted"]["E"].value
print("F6b", "DEFECT" if e1 == e2 else "ok", e1, e2)

# F7: caller's Parameters must not be modified by a fit with gcf_k != 1
idnt = load()
idnt.apply_preprocessing(["compute_tip_position", "correct_force_offset"])
p = model.model_hertz_paraboloidal.get_parameter_defaults()
p["contact_point"].set(1.8e-5)
before = p["contact_point"].value
idnt.fit_model(model_key="hertz_para", params_initial=p, gcf_k=0.5, weight_cp=False)
print("F7", "DEFECT" if p["contact_point"].value != before else "ok", before, p["contact_point"].value)

# F8: params_initial passed to the first fit_model of a curve must be used
idnt = load()
idnt.apply_preprocessing(["compute_tip_position", "correct_force_offset", "correct_tip_offset"])
p = model.model_hertz_paraboloidal.get_parameter_defaults()
p["R"].value = 37e-6
idnt.fit_model(params_initial=p, weight_cp=False)
print("F8", "DEFECT" if idnt.fit_properties["params_initial"]["R"].value != 37e-6 else "ok",
      idnt.fit_properties["params_initial"]["R"].value)

# F7b: stored initial contact point must stay in measured units (no k^n compounding)
idnt = load()
idnt.apply_preprocessing(["compute_tip_position", "correct_force_offset"])
p = model.model_hertz_paraboloidal.get_parameter_defaults()
p["contact_point"].set(1.8e-5)
idnt.fit_model(model_key="hertz_para", params_initial=p, gcf_k=0.5, weight_cp=False,
               range_type="relative cp", range_x=(-2e-6, 1e-6))
cps = idnt.fit_properties["params_initial"]["contact_point"].value
print("F7b", "DEFECT" if abs(cps - 1.8e-5) > 1e-12 else "ok", cps)
