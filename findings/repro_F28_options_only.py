"""F28 (C03/C06): fit_model(preprocessing_options=...) without the
`preprocessing` keyword stores the new options in fit_properties but does not
re-run the pipeline: the columns (and the fit) are those of the old options,
and a later apply_preprocessing with the stored settings is skipped.

Run by hand: PYTHONPATH=/repo/src /venv/bin/python findings/repro_F28_options_only.py
exit 0 = defect absent, 1 = defect present."""
import pathlib
import sys
import numpy as np
import nanite

root = pathlib.Path(nanite.__file__).resolve().parents[2]
jpk = next((root / "tests" / "data").glob("fmt-jpk-fd_spot3-0192.jpk-force"))
steps = ["compute_tip_position", "correct_force_offset", "correct_tip_offset"]
O1 = {"correct_tip_offset": {"method": "deviation_from_baseline"}}
O2 = {"correct_tip_offset": {"method": "fit_constant_line"}}


def load():
    return nanite.IndentationGroup(jpk)[0]


a = load()
a.fit_model(preprocessing=steps, preprocessing_options=O1, model_key="hertz_para",
            x_axis="tip position", y_axis="force", segment="approach")
# change only the options
a.fit_model(preprocessing_options=O2)
stored = (a.fit_properties["preprocessing"], a.fit_properties["preprocessing_options"])

b = load()
b.fit_model(preprocessing=stored[0], preprocessing_options=stored[1], model_key="hertz_para",
            x_axis="tip position", y_axis="force", segment="approach",
            params_initial=a.fit_properties["params_initial"])

same_cols = np.array_equal(a["tip position"], b["tip position"])
same_E = a.fit_properties["params_fitted"]["E"].value == b.fit_properties["params_fitted"]["E"].value
print("stored settings:", stored)
print("columns equal to a fresh curve with the stored settings:", same_cols)
print("E:", a.fit_properties["params_fitted"]["E"].value, b.fit_properties["params_fitted"]["E"].value)
sys.exit(0 if (same_cols and same_E) else 1)
