"""Second set of canonicalising passes (see normalize.py for the contract:
every pass preserves behaviour, so a rule that reads the canonical form
decides the same property; a shape no pass recognises is left alone and the
rule reports it as not understood).

* closure forms: a function that returns `functools.partial(F, ...)` with F a
  module-level function of this module, or an instance of a private class
  that only stores its constructor arguments and defines `__call__`, returns
  the equivalent nested function instead;
* nested anchors: the one nested function a decorator factory returns gets
  the name the rules know it by;
* local helpers: a nested single-expression function that is only ever
  called directly is substituted at its call sites;
* comprehension over a literal list -> list display; `getattr(x, "lit")` ->
  `x.lit`; `enumerate(<literal>)` -> literal pairs; a name bound once to a
  literal list and only iterated is replaced by the list;
* `for k, v in D.items()` where v is never re-bound -> `for k in D` with
  `D[k]`;
* `s.removeprefix("lit")` -> `s[len("lit"):]` under a startswith test is left
  to the rules; here only `operator.attrgetter("a")` -> `lambda o: o.a` and
  `operator.itemgetter(k)` -> `lambda o: o[k]`.
"""
from __future__ import annotations

import ast
import copy

from .astutil import norm, target_names


def clone(n):
    return copy.deepcopy(n)


def _from_here(fn, st):
    """ids of the nodes of fn that come at or after statement st in source
    order (structural, independent of line numbers, which inlined code
    carries over from elsewhere)"""
    out, on = set(), [False]

    def go(n):
        if n is st:
            on[0] = True
        if on[0]:
            out.add(id(n))
        for c in ast.iter_child_nodes(n):
            go(c)
    go(fn)
    return out


def _doc(st):
    return isinstance(st, ast.Expr) and isinstance(
        st.value, ast.Constant) and isinstance(st.value.value, str)


def _walk_own(fn):
    """nodes of fn's body, not entering nested defs/classes/lambdas"""
    stack = [s for s in fn.body if not isinstance(s, (
        ast.FunctionDef, ast.AsyncFunctionDef, ast.ClassDef))]
    while stack:
        n = stack.pop()
        yield n
        for c in ast.iter_child_nodes(n):
            if isinstance(c, (ast.FunctionDef, ast.AsyncFunctionDef,
                              ast.ClassDef, ast.Lambda)):
                continue
            stack.append(c)


# ---------------------------------------------------------------------------
# closure forms

def _bind_params(fdef, args, kwargs, skip_first=False):
    """{param: expr} for the arguments a call binds, or None"""
    a = fdef.args
    if a.vararg or a.kwarg or a.posonlyargs:
        return None
    params = [p.arg for p in a.args]
    if skip_first:
        params = params[1:]
    bound = {}
    if len(args) > len(params) or any(isinstance(x, ast.Starred)
                                      for x in args):
        return None
    for p, v in zip(params, args):
        bound[p] = v
    konly = [p.arg for p in a.kwonlyargs]
    for k in kwargs:
        if k.arg is None or k.arg in bound or (
                k.arg not in params and k.arg not in konly):
            return None
        bound[k.arg] = k.value
    return bound


def _simple_capture(e):
    """an expression whose value cannot change between the time the closure
    is built and the time it is called: a name or constant"""
    return isinstance(e, (ast.Name, ast.Constant))


class _SubstNames(ast.NodeTransformer):
    def __init__(self, mapping):
        self.m = mapping

    def visit_Name(self, node):
        if node.id in self.m and isinstance(node.ctx, ast.Load):
            return ast.copy_location(clone(self.m[node.id]), node)
        return node

    def visit_Lambda(self, node):
        shadow = {a.arg for a in node.args.args}
        inner = {k: v for k, v in self.m.items() if k not in shadow}
        node.body = _SubstNames(inner).visit(node.body)
        return node


def _partial_closure(call, funcs, taken, keep_pure=False):
    """functools.partial(F, ...) -> (pre-statements, nested def) or None"""
    if norm(call.func) not in ("functools.partial", "partial") or \
            not call.args or not isinstance(call.args[0], ast.Name):
        return None
    f = funcs.get(call.args[0].id)
    if f is None or f.decorator_list:
        return None
    bound = _bind_params(f, call.args[1:], call.keywords)
    if bound is None:
        return None
    pre = []
    for k, v in list(bound.items()):
        if keep_pure and _pure_arg(v):
            continue
        if not _simple_capture(v):
            name = f"{k}__held"
            while name in taken:
                name += "_"
            taken.add(name)
            pre.append(ast.Assign(
                targets=[ast.Name(id=name, ctx=ast.Store())], value=v))
            bound[k] = ast.Name(id=name, ctx=ast.Load())
    stores = {n.id for n in ast.walk(f) if isinstance(n, ast.Name)
              and isinstance(n.ctx, (ast.Store, ast.Del))}
    if stores & set(bound):
        return None
    a = f.args
    rest = [p for p in a.args if p.arg not in bound]
    ndef = len(a.defaults)
    defaults = {p.arg: d for p, d in zip(a.args[len(a.args) - ndef:],
                                         a.defaults)}
    new_args = ast.arguments(
        posonlyargs=[], args=[clone(p) for p in rest], vararg=None,
        kwonlyargs=[clone(p) for p in a.kwonlyargs if p.arg not in bound],
        kw_defaults=[clone(d) for p, d in zip(a.kwonlyargs, a.kw_defaults)
                     if p.arg not in bound],
        kwarg=None,
        defaults=[clone(defaults[p.arg]) for p in rest
                  if p.arg in defaults])
    if any(p.arg in defaults for p in rest) and not all(
            p.arg in defaults for p in rest[[p.arg in defaults
                                             for p in rest].index(True):]):
        return None
    # the nested function forwards to F (positional parameters stay
    # positional, the rest by keyword)
    pos = []
    kws = []
    seen_bound_kw = False
    for p in a.args:
        if p.arg in bound:
            v = clone(bound[p.arg])
        else:
            v = ast.Name(id=p.arg, ctx=ast.Load())
        if seen_bound_kw or (p.arg in bound and p.arg in {
                k.arg for k in call.keywords}):
            seen_bound_kw = True
            kws.append(ast.keyword(arg=p.arg, value=v))
        else:
            pos.append(v)
    for p in a.kwonlyargs:
        v = clone(bound[p.arg]) if p.arg in bound else ast.Name(
            id=p.arg, ctx=ast.Load())
        kws.append(ast.keyword(arg=p.arg, value=v))
    if set(bound) & {p.arg for p in rest}:
        return None
    fwd = ast.Return(value=ast.Call(
        func=ast.Name(id=f.name, ctx=ast.Load()), args=pos, keywords=kws))
    return pre, ast.FunctionDef(
        name=f.name.lstrip("_") + "__bound", args=new_args,
        body=[fwd], decorator_list=[], returns=None,
        type_comment=None, type_params=[])


def _callable_class(cls):
    """(init, call, {attr: expr over init params}) for a private class that
    only stores constructor arguments and defines __call__"""
    if not cls.name.startswith("_") or cls.decorator_list or cls.keywords \
            or any(norm(b) != "object" for b in cls.bases):
        return None
    meths = {}
    for st in cls.body:
        if _doc(st) or isinstance(st, ast.Pass):
            continue
        if isinstance(st, ast.FunctionDef) and not st.decorator_list:
            meths[st.name] = st
        elif isinstance(st, ast.Assign) and norm(st.targets[0]) == \
                "__slots__":
            continue
        else:
            return None
    if set(meths) != {"__init__", "__call__"}:
        return None
    init, call = meths["__init__"], meths["__call__"]
    if not init.args.args or not call.args.args:
        return None
    s0 = init.args.args[0].arg
    attrs = {}
    for st in init.body:
        if _doc(st):
            continue
        if isinstance(st, ast.Assign) and len(st.targets) == 1 and \
                isinstance(st.targets[0], ast.Attribute) and isinstance(
                    st.targets[0].value, ast.Name) and \
                st.targets[0].value.id == s0 and \
                st.targets[0].attr not in attrs and not any(
                    isinstance(n, ast.Name) and n.id == s0
                    for n in ast.walk(st.value)):
            attrs[st.targets[0].attr] = st.value
        else:
            return None
    s1 = call.args.args[0].arg
    for n in ast.walk(call):
        if isinstance(n, ast.Name) and n.id == s1:
            pass
        if isinstance(n, ast.Attribute) and isinstance(n.value, ast.Name) \
                and n.value.id == s1:
            if n.attr not in attrs or not isinstance(n.ctx, ast.Load):
                return None
    # `self` used other than through a stored attribute?
    attr_bases = {id(n.value) for n in ast.walk(call)
                  if isinstance(n, ast.Attribute)}
    for n in ast.walk(call):
        if isinstance(n, ast.Name) and n.id == s1 and \
                id(n) not in attr_bases and not isinstance(n.ctx, ast.Param):
            return None
    return init, call, attrs


def _class_closure(call, classes, taken):
    """-> (pre-statements, nested def) or None.  The constructor's
    expressions are evaluated once, in order, into fresh locals of the
    factory (that is when `__init__` evaluates them); `__call__` becomes the
    nested function reading those locals."""
    if not isinstance(call.func, ast.Name) or call.func.id not in classes:
        return None
    init, cdef, attrs = classes[call.func.id]
    bound = _bind_params(init, call.args, call.keywords, skip_first=True)
    if bound is None or not all(_simple_capture(v) for v in bound.values()):
        return None
    a = init.args
    ndef = len(a.defaults)
    for p, d in zip(a.args[len(a.args) - ndef:], a.defaults):
        if p.arg not in bound:
            if not isinstance(d, ast.Constant):
                return None
            bound[p.arg] = d
    if {p.arg for p in a.args[1:]} - set(bound):
        return None
    s1 = cdef.args.args[0].arg
    pre = []
    amap = {}
    sub = _SubstNames(bound)
    for attr, e in attrs.items():
        v = sub.visit(clone(e))
        if _simple_capture(v) and not (isinstance(v, ast.Name) and (
                v.id in {p.arg for p in cdef.args.args})):
            amap[attr] = v
            continue
        name = f"{attr}__held"
        while name in taken:
            name += "_"
        taken.add(name)
        pre.append(ast.Assign(targets=[ast.Name(id=name, ctx=ast.Store())],
                              value=v))
        amap[attr] = ast.Name(id=name, ctx=ast.Load())
    params = {p.arg for p in cdef.args.args[1:]}
    stores = {n.id for n in ast.walk(cdef) if isinstance(n, ast.Name)
              and isinstance(n.ctx, (ast.Store, ast.Del))}
    captured = {v.id for v in amap.values() if isinstance(v, ast.Name)}
    if captured & (params | stores):
        return None

    class S(ast.NodeTransformer):
        def visit_Attribute(self, node):
            if isinstance(node.value, ast.Name) and node.value.id == s1 \
                    and node.attr in amap:
                return ast.copy_location(clone(amap[node.attr]), node)
            self.generic_visit(node)
            return node
    new_args = clone(cdef.args)
    new_args.args = new_args.args[1:]
    body = [S().visit(clone(s)) for s in cdef.body if not _doc(s)]
    return pre, ast.FunctionDef(
        name=call.func.id.strip("_") + "__call", args=new_args,
        body=body or [ast.Pass()], decorator_list=[], returns=None,
        type_comment=None, type_params=[])


# the nested function a factory returns, by the name the rules use
_NESTED_ANCHORS = {"preprocessing_step": "attribute_setter",
                   "poc": "attribute_setter"}


def closure_forms(tree):
    funcs = {st.name: st for st in tree.body
             if isinstance(st, ast.FunctionDef)}
    classes = {}
    for st in tree.body:
        if isinstance(st, ast.ClassDef):
            cc = _callable_class(st)
            if cc:
                classes[st.name] = cc
    used_classes = set()
    outers = list(funcs.values()) + [
        m for c in tree.body if isinstance(c, ast.ClassDef)
        for m in c.body if isinstance(m, ast.FunctionDef)]
    for outer in outers:
        rets = [n for n in _walk_own(outer) if isinstance(n, ast.Return)
                and isinstance(n.value, ast.Call)]
        oparams = {a.arg for a in outer.args.args + outer.args.kwonlyargs}
        ostores = {n.id for n in _walk_own(outer) if isinstance(n, ast.Name)
                   and isinstance(n.ctx, ast.Store)}
        for r in rets:
            taken = {n.id for n in ast.walk(outer)
                     if isinstance(n, ast.Name)} | oparams
            pre = []
            new = None
            got = _partial_closure(r.value, funcs, taken)
            if got is not None:
                pre, new = got
            if new is None and classes:
                got = _class_closure(r.value, classes, taken)
                if got is not None:
                    pre, new = got
                    used_classes.add(r.value.func.id)
            if new is None:
                continue
            base = new.name
            i = 1
            while new.name in taken:
                i += 1
                new.name = f"{base}{i}"
            new._from_closure_form = True
            ast.copy_location(new, r)
            ast.fix_missing_locations(new)
            # place the def right before the return statement
            for par in [outer] + list(_walk_own(outer)):
                for fld in ("body", "orelse", "finalbody"):
                    blk = getattr(par, fld, None)
                    if isinstance(blk, list) and r in blk:
                        i = blk.index(r)
                        for st in pre:
                            ast.copy_location(st, r)
                            ast.fix_missing_locations(st)
                        blk[i:i] = pre + [new]
            r.value = ast.copy_location(ast.Name(id=new.name,
                                                 ctx=ast.Load()), r)
        del ostores
    # functools.partial(F, ...) elsewhere in an expression -> lambda.  (The
    # lambda reads the captured names when it is called, partial when it is
    # built: rules that judge late binding see the more suspicious form.)
    from .normalize import _replace_node
    for outer in outers:
        for c in [n for n in ast.walk(outer) if isinstance(n, ast.Call)]:
            if norm(c.func) not in ("functools.partial", "partial"):
                continue
            got = _partial_closure(c, funcs, set(), keep_pure=True)
            if got is None or got[0]:
                continue
            d = got[1]
            lam = ast.Lambda(args=d.args, body=d.body[0].value)
            ast.copy_location(lam, c)
            ast.fix_missing_locations(lam)
            _replace_node(outer, c, lam)
    # a converted class nobody refers to any more is dropped
    for cname in used_classes:
        if not any(isinstance(n, ast.Name) and n.id == cname
                   for n in ast.walk(tree)) and not any(
                isinstance(n, ast.Attribute) and n.attr == cname
                for n in ast.walk(tree)):
            tree.body = [st for st in tree.body if not (
                isinstance(st, ast.ClassDef) and st.name == cname)]
    # nested anchors
    for name, canon in _NESTED_ANCHORS.items():
        outer = funcs.get(name)
        if outer is None:
            continue
        nested = {st.name: st for st in outer.body
                  if isinstance(st, ast.FunctionDef)}
        if canon in nested:
            continue
        rets = [n for n in _walk_own(outer) if isinstance(n, ast.Return)]
        if len(rets) == 1 and isinstance(rets[0].value, ast.Name) and \
                rets[0].value.id in nested:
            old = rets[0].value.id
            if sum(1 for n in ast.walk(outer) if isinstance(n, ast.Name)
                   and n.id == old) == 1:
                nested[old]._renamed_from = old
                nested[old].name = canon
                rets[0].value.id = canon


# ---------------------------------------------------------------------------
# local helper functions called directly

def _single_return(fn):
    body = [s for s in fn.body if not _doc(s)]
    if len(body) == 1 and isinstance(body[0], ast.Return) and \
            body[0].value is not None:
        return body[0].value
    return None


def _pure_arg(e, depth=0):
    """evaluating `e` has no side effect (so it may be moved/duplicated)"""
    if depth > 6:
        return False
    if isinstance(e, (ast.Name, ast.Constant)):
        return True
    if isinstance(e, ast.Attribute):
        return _pure_arg(e.value, depth + 1)
    if isinstance(e, ast.Subscript):
        return _pure_arg(e.value, depth + 1) and _pure_arg(e.slice,
                                                           depth + 1)
    if isinstance(e, ast.Slice):
        return all(x is None or _pure_arg(x, depth + 1)
                   for x in (e.lower, e.upper, e.step))
    if isinstance(e, (ast.BinOp,)):
        return _pure_arg(e.left, depth + 1) and _pure_arg(e.right, depth + 1)
    if isinstance(e, ast.UnaryOp):
        return _pure_arg(e.operand, depth + 1)
    if isinstance(e, (ast.Tuple, ast.List)):
        return all(_pure_arg(x, depth + 1) for x in e.elts)
    if isinstance(e, ast.ListComp):
        return True
    if isinstance(e, ast.Call):
        # reductions and queries
        if isinstance(e.func, ast.Attribute) and e.func.attr in (
                "min", "max", "sum", "mean", "index", "get", "copy",
                "array", "abs", "asarray", "values", "keys", "items"):
            return _pure_arg(e.func.value, depth + 1) and all(
                _pure_arg(a, depth + 1) for a in e.args) and not e.keywords
        if isinstance(e.func, ast.Name) and e.func.id in (
                "len", "set", "list", "tuple", "float", "int", "str", "abs",
                "min", "max", "sorted"):
            return all(_pure_arg(a, depth + 1) for a in e.args)
    return False


def inline_local_defs(fn):
    """nested `def h(a, b): return <expr>` called directly (and only so) ->
    `<expr>` with the arguments substituted.  The free names of <expr> must
    be bound at most once in the enclosing function (so that their value at
    the call is the one the closure sees - it is, either way - and so that
    substitution does not move a read across a re-binding)."""
    nested = {}
    holder = {}
    for par in [fn] + list(_walk_own(fn)):
        for fld in ("body", "orelse", "finalbody"):
            blk = getattr(par, fld, None)
            if not isinstance(blk, list):
                continue
            for st in blk:
                if isinstance(st, ast.FunctionDef) and not st.decorator_list \
                        and not getattr(st, "_from_closure_form", False):
                    if st.name in nested:
                        nested[st.name] = None
                    else:
                        nested[st.name] = st
                        holder[st.name] = (par, fld)
    changed = False
    # local procedures: a nested def that only consists of expression
    # statements (calls on its parameters), called as a statement with
    # plain names -> its statements at the call
    for name, d in list(nested.items()):
        if d is None:
            continue
        a = d.args
        body = [b for b in d.body if not (isinstance(b, ast.Expr)
                                          and isinstance(b.value,
                                                         ast.Constant))]
        if not body or a.vararg or a.kwarg or a.posonlyargs or \
                a.kwonlyargs or a.defaults or not all(
                    isinstance(b, ast.Expr) and isinstance(b.value, ast.Call)
                    for b in body) or any(isinstance(n, (
                        ast.Lambda, ast.NamedExpr, ast.Yield, ast.Await))
                        for b in body for n in ast.walk(b)):
            continue
        params = [p.arg for p in a.args]
        uses = [n for n in ast.walk(fn) if isinstance(n, ast.Name)
                and n.id == name]
        sites = []
        for par in [fn] + list(_walk_own(fn)):
            for fld in ("body", "orelse", "finalbody"):
                blk = getattr(par, fld, None)
                if isinstance(blk, list):
                    for st in blk:
                        if isinstance(st, ast.Expr) and isinstance(
                                st.value, ast.Call) and isinstance(
                                st.value.func, ast.Name) and \
                                st.value.func.id == name:
                            sites.append((blk, st))
        if not sites or len(uses) != len(sites):
            continue
        free = {n.id for b in body for n in ast.walk(b)
                if isinstance(n, ast.Name) and n.id not in params}
        nst = {}
        for n in ast.walk(fn):
            if isinstance(n, ast.Name) and isinstance(
                    n.ctx, (ast.Store, ast.Del)):
                nst[n.id] = nst.get(n.id, 0) + 1
        if any(nst.get(f, 0) > 1 for f in free):
            continue
        ok = all(not st.value.keywords and len(st.value.args) == len(params)
                 and all(isinstance(x, (ast.Name, ast.Constant))
                         for x in st.value.args) for _, st in sites)
        if not ok:
            continue
        for blk, st in sites:
            m = dict(zip(params, st.value.args))
            new = [_SubstNames(m).visit(clone(b)) for b in body]
            for x in new:
                ast.copy_location(x, st)
                ast.fix_missing_locations(x)
            i = [k for k, x in enumerate(blk) if x is st][0]
            blk[i:i + 1] = new
        par, fld = holder[name]
        setattr(par, fld, [s_ for s_ in getattr(par, fld) if s_ is not d]
                or [ast.Pass()])
        nested[name] = None
        changed = True
    for name, d in nested.items():
        if d is None:
            continue
        expr = _single_return(d)
        a = d.args
        if expr is None or a.vararg or a.kwarg or a.posonlyargs:
            continue
        uses = [n for n in ast.walk(fn) if isinstance(n, ast.Name)
                and n.id == name]
        calls = [n for n in ast.walk(fn) if isinstance(n, ast.Call)
                 and isinstance(n.func, ast.Name) and n.func.id == name]
        if not calls or len(uses) != len(calls) or any(
                not isinstance(u.ctx, ast.Load) for u in uses):
            continue
        # recursion / calls from inside another nested def or lambda
        inner_nodes = set()
        for other in ast.walk(fn):
            if other is not fn and isinstance(other, (
                    ast.FunctionDef, ast.Lambda)):
                inner_nodes |= {id(x) for x in ast.walk(other)}
        if any(id(c) in inner_nodes for c in calls):
            continue
        params = [p.arg for p in a.args] + [p.arg for p in a.kwonlyargs]
        free = {n.id for n in ast.walk(expr) if isinstance(n, ast.Name)
                and n.id not in params}
        # comprehension variables inside expr are local to it
        compvars = {t for c in ast.walk(expr)
                    if isinstance(c, ast.comprehension)
                    for t in target_names(c.target)}
        free -= compvars
        nstores = {}
        for n in ast.walk(fn):
            if isinstance(n, ast.Name) and isinstance(
                    n.ctx, (ast.Store, ast.Del)) and id(n) not in {
                        id(x) for x in ast.walk(d)}:
                nstores[n.id] = nstores.get(n.id, 0) + 1
        if any(nstores.get(f, 0) > 1 for f in free):
            continue
        ok = True
        plans = []
        for c in calls:
            bound = _bind_params(d, c.args, c.keywords)
            if bound is None:
                ok = False
                break
            ndef = len(a.defaults)
            for p, dv in zip(a.args[len(a.args) - ndef:], a.defaults):
                bound.setdefault(p.arg, dv)
            for p, dv in zip(a.kwonlyargs, a.kw_defaults):
                if dv is not None:
                    bound.setdefault(p.arg, dv)
            if set(bound) != set(params):
                ok = False
                break
            counts = {p: sum(1 for n in ast.walk(expr)
                             if isinstance(n, ast.Name) and n.id == p)
                      for p in params}
            for p, v in bound.items():
                if not _pure_arg(v):
                    ok = False
                # the argument's own names must not be comprehension-bound
                if {n.id for n in ast.walk(v) if isinstance(n, ast.Name)} \
                        & compvars:
                    ok = False
            if not ok:
                break
            plans.append((c, bound))
        if not ok:
            continue
        from .normalize import _replace_node
        for c, bound in plans:
            new = _SubstNames(bound).visit(clone(expr))
            ast.copy_location(new, c)
            ast.fix_missing_locations(new)
            _replace_node(fn, c, new)
        par, fld = holder[name]
        setattr(par, fld, [s for s in getattr(par, fld) if s is not d]
                or [ast.Pass()])
        changed = True
    return changed


# ---------------------------------------------------------------------------
# small expression idioms

_NP_METHODS = {"argmax", "argmin", "min", "max", "mean", "std", "sum",
               "any", "all", "cumsum", "ptp", "var", "nonzero"}


def _closed_number(e):
    """value of an arithmetic expression over numeric literals, else None"""
    for n in ast.walk(e):
        if isinstance(n, ast.Constant):
            if isinstance(n.value, bool) or not isinstance(
                    n.value, (int, float)):
                return None
        elif not isinstance(n, (ast.BinOp, ast.UnaryOp, ast.Add, ast.Sub,
                                ast.Mult, ast.Div, ast.USub, ast.UAdd,
                                ast.Pow, ast.Load)):
            return None
    try:
        return eval(compile(ast.fix_missing_locations(
            ast.Expression(body=copy.deepcopy(e))), "<const>", "eval"),
            {"__builtins__": {}})
    except Exception:
        return None


def _closed_truth(t):
    """truth of a comparison/negation over numeric literals, else None"""
    if isinstance(t, ast.UnaryOp) and isinstance(t.op, ast.Not):
        v = _closed_truth(t.operand)
        return None if v is None else not v
    if isinstance(t, ast.Compare) and len(t.ops) == 1 and isinstance(
            t.ops[0], (ast.Lt, ast.LtE, ast.Gt, ast.GtE, ast.Eq, ast.NotEq)):
        a, b = _closed_number(t.left), _closed_number(t.comparators[0])
        if a is None and b is None and isinstance(
                t.ops[0], (ast.Eq, ast.NotEq)) and all(
                isinstance(x, ast.Constant) and isinstance(x.value, str)
                for x in (t.left, t.comparators[0])):
            a, b = t.left.value, t.comparators[0].value
        if a is None or b is None:
            return None
        op = t.ops[0]
        return {ast.Lt: a < b, ast.LtE: a <= b, ast.Gt: a > b,
                ast.GtE: a >= b, ast.Eq: a == b,
                ast.NotEq: a != b}[type(op)]
    return None


class Idioms3(ast.NodeTransformer):
    MAX = 12

    def visit_BoolOp(self, node):
        self.generic_visit(node)
        # `k == "lit" and ... D[k] ... k in D ...` -> the literal in the
        # operands that follow the equality (they are only evaluated when
        # it holds)
        if isinstance(node.op, ast.And):
            known = {}
            vals = []
            for v in node.values:
                if known:
                    v = _SubstNames(known).visit(clone(v))
                vals.append(v)
                if isinstance(v, ast.Compare) and len(v.ops) == 1 and \
                        isinstance(v.ops[0], ast.Eq) and isinstance(
                        v.left, ast.Name) and isinstance(
                        v.comparators[0], ast.Constant) and isinstance(
                        v.comparators[0].value, str):
                    known[v.left.id] = v.comparators[0]
            if known:
                node.values = vals
                ast.fix_missing_locations(node)
        return node

    def visit_Call(self, node):
        self.generic_visit(node)
        fn = norm(node.func)
        # d.update([(k1, v1), (k2, v2)]) -> d.update({k1: v1, k2: v2})
        if isinstance(node.func, ast.Attribute) and node.func.attr in (
                "update", "restore") and len(node.args) == 1 and \
                not node.keywords and isinstance(
                    node.args[0], (ast.List, ast.Tuple)) and \
                node.args[0].elts and all(
                    isinstance(e, (ast.Tuple, ast.List)) and len(e.elts) == 2
                    and isinstance(e.elts[0], ast.Constant)
                    for e in node.args[0].elts):
            node.args[0] = ast.copy_location(ast.Dict(
                keys=[e.elts[0] for e in node.args[0].elts],
                values=[e.elts[1] for e in node.args[0].elts]),
                node.args[0])
            return node
        # operator.mul(a, b) -> a * b, operator.lt(a, b) -> a < b, ...
        _OPS = {"mul": ast.Mult, "truediv": ast.Div, "add": ast.Add,
                "sub": ast.Sub, "floordiv": ast.FloorDiv, "pow": ast.Pow,
                "mod": ast.Mod, "and_": ast.BitAnd, "or_": ast.BitOr}
        _CMP = {"lt": ast.Lt, "le": ast.LtE, "gt": ast.Gt, "ge": ast.GtE,
                "eq": ast.Eq, "ne": ast.NotEq}
        if fn.startswith("operator.") and len(node.args) == 2 and \
                not node.keywords:
            op_ = fn.split(".", 1)[1]
            if op_ in _OPS:
                return ast.copy_location(ast.BinOp(
                    left=node.args[0], op=_OPS[op_](), right=node.args[1]),
                    node)
            if op_ in _CMP:
                return ast.copy_location(ast.Compare(
                    left=node.args[0], ops=[_CMP[op_]()],
                    comparators=[node.args[1]]), node)
        # (lambda a, b: E)(x, y) -> E[a := x, b := y]
        if isinstance(node.func, ast.Lambda) and not node.keywords:
            la = node.func.args
            if not (la.vararg or la.kwarg or la.kwonlyargs or la.posonlyargs
                    or la.defaults) and len(la.args) == len(node.args) and \
                    not any(isinstance(a, ast.Starred) for a in node.args):
                names = [a.arg for a in la.args]
                uses = {n_: sum(1 for x in ast.walk(node.func.body)
                                if isinstance(x, ast.Name) and x.id == n_)
                        for n_ in names}

                def simple_(e):
                    if isinstance(e, (ast.Name, ast.Constant)):
                        return True
                    if isinstance(e, ast.Attribute):
                        return simple_(e.value)
                    if isinstance(e, ast.Subscript):
                        return simple_(e.value) and isinstance(
                            e.slice, (ast.Name, ast.Constant))
                    return False
                inner_l = any(isinstance(x, ast.Lambda)
                              for x in ast.walk(node.func.body))
                if not inner_l and all(simple_(a) or uses[n_] <= 1
                                       for n_, a in zip(names, node.args)):
                    new = _SubstNames(dict(zip(names, node.args))).visit(
                        clone(node.func.body))
                    return self.visit(ast.fix_missing_locations(
                        ast.copy_location(new, node)))
        # s.endswith(("a", "b")) -> s.endswith("a") or s.endswith("b")
        if isinstance(node.func, ast.Attribute) and node.func.attr in (
                "startswith", "endswith") and len(node.args) == 1 and \
                not node.keywords and isinstance(
                    node.args[0], ast.Tuple) and 1 <= len(
                    node.args[0].elts) <= self.MAX and isinstance(
                    node.func.value, (ast.Name, ast.Attribute)):
            alts = [ast.Call(func=clone(node.func), args=[e], keywords=[])
                    for e in node.args[0].elts]
            new = alts[0] if len(alts) == 1 else ast.BoolOp(op=ast.Or(),
                                                            values=alts)
            return ast.fix_missing_locations(ast.copy_location(new, node))
        # any(C(i) for i in range(<small literal>)) -> C(0) or C(1) or ...
        if fn in ("any", "all") and len(node.args) == 1 and \
                not node.keywords and isinstance(
                    node.args[0], (ast.GeneratorExp, ast.ListComp)) and len(
                    node.args[0].generators) == 1:
            g = node.args[0].generators[0]
            if not g.ifs and isinstance(g.target, ast.Name) and isinstance(
                    g.iter, ast.Call) and norm(g.iter.func) == "range" and \
                    len(g.iter.args) == 1 and isinstance(
                        g.iter.args[0], ast.Constant) and isinstance(
                        g.iter.args[0].value, int) and \
                    1 <= g.iter.args[0].value <= self.MAX:
                vals = [self.visit(_SubstNames({g.target.id: ast.Constant(
                    value=k)}).visit(clone(node.args[0].elt)))
                    for k in range(g.iter.args[0].value)]
                if len(vals) == 1:
                    return ast.copy_location(vals[0], node)
                return ast.copy_location(ast.BoolOp(
                    op=ast.Or() if fn == "any" else ast.And(),
                    values=vals), node)
        # any(C(a, b) for a, b in [(x, 1), (y, 2)]) -> C(x, 1) or C(y, 2)
        # (elements that are plain names/literals/attribute reads)
        if fn in ("any", "all") and len(node.args) == 1 and \
                not node.keywords and isinstance(
                    node.args[0], (ast.GeneratorExp, ast.ListComp)) and len(
                    node.args[0].generators) == 1:
            g = node.args[0].generators[0]
            it = g.iter

            def plain(e):
                return isinstance(e, (ast.Name, ast.Constant)) or (
                    isinstance(e, ast.Attribute) and plain(e.value))
            if not g.ifs and not g.is_async and isinstance(
                    it, (ast.List, ast.Tuple)) and 1 <= len(
                    it.elts) <= self.MAX:
                maps = []
                for e in it.elts:
                    if isinstance(g.target, ast.Name) and plain(e):
                        maps.append({g.target.id: e})
                    elif isinstance(g.target, ast.Tuple) and isinstance(
                            e, ast.Tuple) and len(e.elts) == len(
                            g.target.elts) and all(
                            isinstance(t, ast.Name)
                            for t in g.target.elts) and all(
                            plain(x) for x in e.elts):
                        maps.append({t.id: x for t, x in zip(
                            g.target.elts, e.elts)})
                    else:
                        maps = None
                        break
                if maps:
                    vals = [self.visit(_SubstNames(m).visit(clone(
                        node.args[0].elt))) for m in maps]
                    if len(vals) == 1:
                        return ast.copy_location(vals[0], node)
                    return ast.fix_missing_locations(ast.copy_location(
                        ast.BoolOp(op=ast.Or() if fn == "any" else ast.And(),
                                   values=vals), node))
        # itertools.starmap(operator.ne, PAIRS) -> (a != b for a, b in PAIRS)
        if fn in ("itertools.starmap", "starmap") and len(
                node.args) == 2 and not node.keywords and isinstance(
                node.args[0], ast.Attribute) and isinstance(
                node.args[0].value, ast.Name) and \
                node.args[0].value.id == "operator":
            ops2 = {"ne": ast.NotEq, "eq": ast.Eq, "lt": ast.Lt,
                    "le": ast.LtE, "gt": ast.Gt, "ge": ast.GtE,
                    "is_": ast.Is, "is_not": ast.IsNot}
            bin2 = {"add": ast.Add, "sub": ast.Sub, "mul": ast.Mult,
                    "truediv": ast.Div}
            a_, b_ = (ast.Name(id="_sm_a", ctx=ast.Load()),
                      ast.Name(id="_sm_b", ctx=ast.Load()))
            nm = node.args[0].attr
            elt = None
            if nm in ops2:
                elt = ast.Compare(left=a_, ops=[ops2[nm]()],
                                  comparators=[b_])
            elif nm in bin2:
                elt = ast.BinOp(left=a_, op=bin2[nm](), right=b_)
            if elt is not None:
                gen = ast.GeneratorExp(elt=elt, generators=[
                    ast.comprehension(target=ast.Tuple(elts=[
                        ast.Name(id="_sm_a", ctx=ast.Store()),
                        ast.Name(id="_sm_b", ctx=ast.Store())],
                        ctx=ast.Store()), iter=node.args[1], ifs=[],
                        is_async=0)])
                return ast.fix_missing_locations(ast.copy_location(gen,
                                                                   node))
        # operator.attrgetter("a") -> lambda x: x.a ;
        # operator.itemgetter(k) -> lambda x: x[k]
        if fn in ("operator.attrgetter", "attrgetter") and len(
                node.args) == 1 and not node.keywords and isinstance(
                node.args[0], ast.Constant) and isinstance(
                node.args[0].value, str) and all(
                p_.isidentifier() for p_ in node.args[0].value.split(".")):
            body = ast.Name(id="x", ctx=ast.Load())
            for p_ in node.args[0].value.split("."):
                body = ast.Attribute(value=body, attr=p_, ctx=ast.Load())
            return ast.fix_missing_locations(ast.copy_location(ast.Lambda(
                args=ast.arguments(posonlyargs=[], args=[ast.arg(arg="x")],
                                   kwonlyargs=[], kw_defaults=[],
                                   defaults=[]), body=body), node))
        if fn in ("operator.itemgetter", "itemgetter") and len(
                node.args) == 1 and not node.keywords and isinstance(
                node.args[0], ast.Constant):
            return ast.fix_missing_locations(ast.copy_location(ast.Lambda(
                args=ast.arguments(posonlyargs=[], args=[ast.arg(arg="x")],
                                   kwonlyargs=[], kw_defaults=[],
                                   defaults=[]),
                body=ast.Subscript(value=ast.Name(id="x", ctx=ast.Load()),
                                   slice=node.args[0], ctx=ast.Load())),
                node))
        # abs(<literal arithmetic>) -> the non-negative form
        if fn == "abs" and len(node.args) == 1 and not node.keywords:
            v = _closed_number(node.args[0])
            if v is not None:
                a = node.args[0]
                if v >= 0:
                    return a
                if isinstance(a, ast.UnaryOp) and isinstance(a.op, ast.USub):
                    return a.operand
                if isinstance(a, ast.BinOp) and isinstance(
                        a.left, ast.UnaryOp) and isinstance(
                        a.left.op, ast.USub) and isinstance(
                        a.op, (ast.Div, ast.Mult)):
                    return ast.copy_location(ast.BinOp(
                        left=a.left.operand, op=a.op, right=a.right), a)
                return ast.copy_location(ast.UnaryOp(op=ast.USub(),
                                                     operand=a), a)
        # sep.join(<generator>) -> sep.join([<list comprehension>]) (join
        # consumes its argument completely)
        if isinstance(node.func, ast.Attribute) and node.func.attr == "join" \
                and len(node.args) == 1 and not node.keywords and isinstance(
                    node.args[0], ast.GeneratorExp) and not (
                    isinstance(node.func.value, ast.Name)
                    and node.func.value.id in ("os", "posixpath", "ntpath")) \
                and norm(node.func.value) not in ("os.path",):
            g = node.args[0]
            node.args = [ast.copy_location(ast.ListComp(
                elt=g.elt, generators=g.generators), g)]
        # f(**{"a": x, "b": y}) -> f(a=x, b=y)
        if any(k.arg is None and isinstance(k.value, ast.Dict)
               for k in node.keywords):
            kws = []
            for k in node.keywords:
                if k.arg is None and isinstance(k.value, ast.Dict) and all(
                        kk is not None and isinstance(kk, ast.Constant)
                        and isinstance(kk.value, str)
                        and kk.value.isidentifier()
                        for kk in k.value.keys):
                    kws.extend(ast.keyword(arg=kk.value, value=vv)
                               for kk, vv in zip(k.value.keys,
                                                 k.value.values))
                else:
                    kws.append(k)
            node.keywords = kws
        # numpy method form -> function form: x.argmax() -> np.argmax(x)
        if isinstance(node.func, ast.Attribute) and \
                node.func.attr in _NP_METHODS and not (
                    isinstance(node.func.value, ast.Name)
                    and node.func.value.id in ("np", "numpy", "math", "self",
                                               "cls", "builtins")) and \
                not any(isinstance(a, ast.Starred) for a in node.args):
            return ast.copy_location(ast.Call(
                func=ast.Attribute(value=ast.Name(id="np", ctx=ast.Load()),
                                   attr=node.func.attr, ctx=ast.Load()),
                args=[node.func.value] + node.args,
                keywords=node.keywords), node)
        # mask algebra: np.logical_not(a) -> ~a, np.logical_and(a, b) ->
        # a & b, np.logical_or(a, b) -> a | b
        if fn in ("np.logical_not", "numpy.logical_not") and len(
                node.args) == 1 and not node.keywords:
            return ast.copy_location(ast.UnaryOp(op=ast.Invert(),
                                                 operand=node.args[0]), node)
        if fn in ("np.logical_and", "numpy.logical_and", "np.logical_or",
                  "numpy.logical_or") and len(node.args) == 2 and \
                not node.keywords:
            op = ast.BitAnd() if fn.endswith("and") else ast.BitOr()
            return ast.copy_location(ast.BinOp(left=node.args[0], op=op,
                                               right=node.args[1]), node)
        # np.transpose(x) -> x.T
        if fn in ("np.transpose", "numpy.transpose") and len(
                node.args) == 1 and not node.keywords:
            return ast.copy_location(ast.Attribute(
                value=node.args[0], attr="T", ctx=ast.Load()), node)
        # np.array(x, copy=True) -> np.copy(x); np.absolute -> np.abs
        if fn in ("np.array", "numpy.array") and len(node.args) == 1 and \
                len(node.keywords) == 1 and node.keywords[0].arg == "copy" \
                and isinstance(node.keywords[0].value, ast.Constant) and \
                node.keywords[0].value.value is True:
            return ast.copy_location(ast.Call(
                func=ast.Attribute(value=ast.Name(id="np", ctx=ast.Load()),
                                   attr="copy", ctx=ast.Load()),
                args=node.args, keywords=[]), node)
        if fn in ("np.absolute", "numpy.absolute"):
            node.func = ast.copy_location(ast.Attribute(
                value=ast.Name(id="np", ctx=ast.Load()), attr="abs",
                ctx=ast.Load()), node.func)
            return node
        # getattr(x, "name") -> x.name
        if fn == "getattr" and len(node.args) == 2 and not node.keywords \
                and isinstance(node.args[1], ast.Constant) and isinstance(
                    node.args[1].value, str) and \
                node.args[1].value.isidentifier():
            return ast.copy_location(ast.Attribute(
                value=node.args[0], attr=node.args[1].value,
                ctx=ast.Load()), node)
        # operator.attrgetter("a"[, "b"]) -> lambda o: o.a | (o.a, o.b)
        if fn in ("operator.attrgetter", "attrgetter",
                  "operator.itemgetter", "itemgetter") and node.args and \
                not node.keywords and all(isinstance(
                    a, ast.Constant) for a in node.args):
            attr = fn.endswith("attrgetter")
            if attr and not all(isinstance(a.value, str)
                                and a.value.isidentifier()
                                for a in node.args):
                return node
            parts = []
            for a in node.args:
                o = ast.Name(id="_o", ctx=ast.Load())
                parts.append(ast.Attribute(value=o, attr=a.value,
                                           ctx=ast.Load()) if attr else
                             ast.Subscript(value=o, slice=a, ctx=ast.Load()))
            body = parts[0] if len(parts) == 1 else ast.Tuple(
                elts=parts, ctx=ast.Load())
            return ast.copy_location(ast.Lambda(
                args=ast.arguments(posonlyargs=[], args=[ast.arg(
                    arg="_o")], vararg=None, kwonlyargs=[], kw_defaults=[],
                    kwarg=None, defaults=[]), body=body), node)
        # C.__contains__(x) -> x in C
        if isinstance(node.func, ast.Attribute) and \
                node.func.attr == "__contains__" and len(node.args) == 1 \
                and not node.keywords:
            return ast.copy_location(ast.Compare(
                left=node.args[0], ops=[ast.In()],
                comparators=[node.func.value]), node)
        # filter(P, IT) / itertools.filterfalse(P, IT) -> list comprehension
        if fn in ("filter", "itertools.filterfalse", "filterfalse") and \
                len(node.args) == 2 and not node.keywords and not (
                    isinstance(node.args[0], ast.Constant)):
            pred = node.args[0]
            var = ast.Name(id="_x", ctx=ast.Load())
            if isinstance(pred, ast.Attribute) and \
                    pred.attr == "__contains__":
                test = ast.Compare(left=var, ops=[ast.In()],
                                   comparators=[pred.value])
            elif isinstance(pred, ast.Lambda) and len(
                    pred.args.args) == 1:
                test = _SubstNames({pred.args.args[0].arg: var}).visit(
                    clone(pred.body))
            else:
                test = ast.Call(func=pred, args=[var], keywords=[])
            if fn != "filter":
                test = ast.UnaryOp(op=ast.Not(), operand=test)
            new = ast.ListComp(
                elt=ast.Name(id="_x", ctx=ast.Load()),
                generators=[ast.comprehension(
                    target=ast.Name(id="_x", ctx=ast.Store()),
                    iter=node.args[1], ifs=[test], is_async=0)])
            return ast.copy_location(new, node)
        # list(<list comprehension>) -> the comprehension
        if fn == "list" and len(node.args) == 1 and not node.keywords and \
                isinstance(node.args[0], ast.ListComp):
            return node.args[0]
        # sorted(<display of string constants>) -> the sorted list
        if fn == "sorted" and len(node.args) == 1 and not node.keywords \
                and isinstance(node.args[0], (ast.Tuple, ast.List)) and \
                node.args[0].elts and all(
                    isinstance(e, ast.Constant) and isinstance(e.value, str)
                    for e in node.args[0].elts):
            return ast.copy_location(ast.List(
                elts=sorted(node.args[0].elts, key=lambda c: c.value),
                ctx=ast.Load()), node)
        # list((a, b)) / tuple([a, b]) / list([a, b]) -> display
        if fn in ("list", "tuple") and len(node.args) == 1 and \
                not node.keywords and isinstance(
                    node.args[0], (ast.Tuple, ast.List)) and not any(
                    isinstance(e, ast.Starred) for e in node.args[0].elts):
            cls = ast.List if fn == "list" else ast.Tuple
            return ast.copy_location(cls(elts=node.args[0].elts,
                                         ctx=ast.Load()), node)
        # zip([a, b], [c, d]) -> [(a, c), (b, d)]
        if fn == "zip" and len(node.args) >= 2 and not node.keywords and all(
                isinstance(a, (ast.List, ast.Tuple)) for a in node.args) \
                and len({len(a.elts) for a in node.args}) == 1 and \
                1 <= len(node.args[0].elts) <= self.MAX and not any(
                    isinstance(e, ast.Starred) for a in node.args
                    for e in a.elts):
            return ast.copy_location(ast.List(elts=[
                ast.Tuple(elts=[a.elts[i] for a in node.args],
                          ctx=ast.Load())
                for i in range(len(node.args[0].elts))], ctx=ast.Load()),
                node)
        # enumerate(<literal list>[, start=k]) -> [(k, a), (k+1, b), ...]
        if fn == "enumerate" and node.args and isinstance(
                node.args[0], (ast.List, ast.Tuple)) and \
                len(node.args[0].elts) <= self.MAX and not any(
                    isinstance(e, ast.Starred) for e in node.args[0].elts):
            start = 0
            extra = node.args[1:] + [k.value for k in node.keywords
                                     if k.arg == "start"]
            if len(extra) > 1 or len(node.keywords) > 1 or any(
                    k.arg != "start" for k in node.keywords):
                return node
            if extra:
                if isinstance(extra[0], ast.Constant) and isinstance(
                        extra[0].value, int):
                    start = extra[0].value
                else:
                    return node
            return ast.copy_location(ast.List(elts=[
                ast.Tuple(elts=[ast.Constant(value=start + i), e],
                          ctx=ast.Load())
                for i, e in enumerate(node.args[0].elts)], ctx=ast.Load()),
                node)
        return node

    @staticmethod
    def _keyset_test(e):
        """`d.keys() & {"a", "b"}` in a boolean context ->
        `"a" in d or "b" in d`"""
        # not {"a", "b"}.isdisjoint(d) / {"a","b"}.intersection(d)
        neg_ = False
        e0 = e
        if isinstance(e, ast.UnaryOp) and isinstance(e.op, ast.Not):
            neg_, e0 = True, e.operand
        if isinstance(e0, ast.Call) and isinstance(
                e0.func, ast.Attribute) and e0.func.attr in (
                "isdisjoint", "intersection") and isinstance(
                e0.func.value, ast.Set) and e0.func.value.elts and all(
                isinstance(x, ast.Constant) for x in e0.func.value.elts) \
                and len(e0.args) == 1 and isinstance(
                    e0.args[0], (ast.Name, ast.Attribute, ast.Call)):
            d = e0.args[0]
            if isinstance(d, ast.Call) and isinstance(
                    d.func, ast.Attribute) and d.func.attr == "keys" and \
                    not d.args:
                d = d.func.value
            if isinstance(d, (ast.Name, ast.Attribute)):
                tests = [ast.Compare(left=x, ops=[ast.In()],
                                     comparators=[clone(d)])
                         for x in sorted(e0.func.value.elts,
                                         key=lambda c: str(c.value))]
                any_ = tests[0] if len(tests) == 1 else ast.BoolOp(
                    op=ast.Or(), values=tests)
                disj = e0.func.attr == "isdisjoint"
                want_any = (disj and neg_) or (not disj and not neg_)
                new = any_ if want_any else ast.UnaryOp(op=ast.Not(),
                                                        operand=any_)
                return ast.fix_missing_locations(ast.copy_location(new, e))
        # d.keys().isdisjoint(("a", "b")) / set(d).isdisjoint([...])
        if isinstance(e0, ast.Call) and isinstance(
                e0.func, ast.Attribute) and e0.func.attr == "isdisjoint" \
                and len(e0.args) == 1 and isinstance(
                    e0.args[0], (ast.Tuple, ast.List, ast.Set)) and \
                e0.args[0].elts and all(isinstance(x, ast.Constant)
                                        for x in e0.args[0].elts):
            k = e0.func.value
            d = None
            if isinstance(k, ast.Call) and isinstance(
                    k.func, ast.Attribute) and k.func.attr == "keys" and \
                    not k.args:
                d = k.func.value
            elif isinstance(k, ast.Call) and norm(k.func) in (
                    "set", "frozenset") and len(k.args) == 1:
                d = k.args[0]
            if isinstance(d, (ast.Name, ast.Attribute)):
                tests = [ast.Compare(left=x, ops=[ast.In()],
                                     comparators=[clone(d)])
                         for x in sorted(e0.args[0].elts,
                                         key=lambda c: str(c.value))]
                any_ = tests[0] if len(tests) == 1 else ast.BoolOp(
                    op=ast.Or(), values=tests)
                new = any_ if neg_ else ast.UnaryOp(op=ast.Not(),
                                                    operand=any_)
                return ast.fix_missing_locations(ast.copy_location(new, e))
        if not (isinstance(e, ast.BinOp) and isinstance(e.op, ast.BitAnd)):
            return e
        for keys, lits in ((e.left, e.right), (e.right, e.left)):
            if isinstance(lits, ast.Set) and all(isinstance(
                    x, ast.Constant) for x in lits.elts) and lits.elts:
                d = None
                if isinstance(keys, ast.Call) and isinstance(
                        keys.func, ast.Attribute) and \
                        keys.func.attr == "keys" and not keys.args:
                    d = keys.func.value
                elif isinstance(keys, ast.Call) and norm(
                        keys.func) == "set" and len(keys.args) == 1:
                    d = keys.args[0]
                if d is not None and isinstance(d, (ast.Name,
                                                    ast.Attribute)):
                    tests = [ast.Compare(left=x, ops=[ast.In()],
                                         comparators=[clone(d)])
                             for x in sorted(lits.elts,
                                             key=lambda c: str(c.value))]
                    new = tests[0] if len(tests) == 1 else ast.BoolOp(
                        op=ast.Or(), values=tests)
                    return ast.copy_location(new, e)
        return e

    def visit_If(self, node):
        self.generic_visit(node)
        # a test over literals (left behind by an unrolled table loop)
        v = _closed_truth(node.test)
        if v is not None:
            return (node.body if v else node.orelse) or [
                ast.copy_location(ast.Pass(), node)]
        node.test = self._keyset_test(node.test)
        ast.fix_missing_locations(node)
        return node

    def visit_For(self, node):
        self.generic_visit(node)
        # for _ in itertools.repeat(x, N) (loop variable unused) -> range(N)
        it = node.iter
        if isinstance(it, ast.Call) and norm(it.func) in (
                "itertools.repeat", "repeat") and len(it.args) == 2 and \
                not it.keywords and isinstance(node.target, ast.Name) and \
                not any(isinstance(n, ast.Name) and n.id == node.target.id
                        for b in node.body + node.orelse
                        for n in ast.walk(b)):
            node.iter = ast.copy_location(ast.Call(
                func=ast.Name(id="range", ctx=ast.Load()),
                args=[it.args[1]], keywords=[]), it)
            ast.fix_missing_locations(node)
        # for x in (v for v in IT if c) -> for x in IT: if not c: continue
        if isinstance(it, (ast.GeneratorExp, ast.ListComp)) and len(
                it.generators) == 1 and not it.generators[0].is_async and \
                isinstance(it.generators[0].target, ast.Name) and \
                isinstance(it.elt, ast.Name) and it.elt.id == \
                it.generators[0].target.id and isinstance(
                    node.target, ast.Name) and it.generators[0].ifs:
            g = it.generators[0]
            v, t = g.target.id, node.target.id
            if v == t or not any(isinstance(n, ast.Name) and n.id == t
                                 for c in g.ifs for n in ast.walk(c)):
                conds = [_rename(clone(c), v, t) for c in g.ifs]
                test = conds[0] if len(conds) == 1 else ast.BoolOp(
                    op=ast.And(), values=conds)
                skip = ast.If(test=ast.UnaryOp(op=ast.Not(), operand=test),
                              body=[ast.Continue()], orelse=[])
                node.iter = g.iter
                node.body = [skip] + node.body
                ast.copy_location(skip, node)
                ast.fix_missing_locations(node)
        return node

    def visit_While(self, node):
        self.generic_visit(node)
        node.test = self._keyset_test(node.test)
        ast.fix_missing_locations(node)
        return node

    def visit_Subscript(self, node):
        self.generic_visit(node)
        # x[slice(a, b, c)] -> x[a:b:c]
        sl = node.slice
        if isinstance(sl, ast.Call) and isinstance(sl.func, ast.Name) and \
                sl.func.id == "slice" and not sl.keywords and 1 <= len(
                    sl.args) <= 3:
            def part(a):
                return None if (isinstance(a, ast.Constant)
                                and a.value is None) else a
            args = list(sl.args)
            if len(args) == 1:
                lo, hi, stp = None, part(args[0]), None
            else:
                lo, hi = part(args[0]), part(args[1])
                stp = part(args[2]) if len(args) == 3 else None
            node.slice = ast.copy_location(ast.Slice(lower=lo, upper=hi,
                                                     step=stp), sl)
        return node

    def visit_Expr(self, node):
        self.generic_visit(node)
        c = node.value
        # D.update((k, v) for k in IT) -> for k in IT: D[k] = v
        if isinstance(c, ast.Call) and isinstance(c.func, ast.Attribute) \
                and c.func.attr == "update" and len(c.args) == 1 and \
                not c.keywords and isinstance(
                    c.args[0], (ast.GeneratorExp, ast.ListComp)) and len(
                    c.args[0].generators) == 1 and isinstance(
                    c.args[0].elt, ast.Tuple) and len(
                    c.args[0].elt.elts) == 2 and isinstance(
                    c.func.value, ast.Name):
            g = c.args[0].generators[0]
            body = [ast.Assign(targets=[ast.Subscript(
                value=c.func.value, slice=c.args[0].elt.elts[0],
                ctx=ast.Store())], value=c.args[0].elt.elts[1])]
            if g.ifs:
                body = [ast.If(test=g.ifs[0] if len(g.ifs) == 1 else
                               ast.BoolOp(op=ast.And(), values=list(g.ifs)),
                               body=body, orelse=[])]
            loop = ast.For(target=g.target, iter=g.iter, body=body,
                           orelse=[], type_comment=None)
            for n_ in ast.walk(loop.target):
                if isinstance(n_, ast.Name):
                    n_.ctx = ast.Store()
            ast.copy_location(loop, node)
            ast.fix_missing_locations(loop)
            return loop
        # L.extend(f(v) for v in IT) -> for v in IT: L.append(f(v))
        if isinstance(c, ast.Call) and isinstance(c.func, ast.Attribute) \
                and c.func.attr == "extend" and len(c.args) == 1 and \
                not c.keywords and isinstance(
                    c.args[0], (ast.ListComp, ast.GeneratorExp)):
            loop = self._comp_to_append_loop(c.func.value, c.args[0], node)
            if loop is not None:
                return loop
        # np.minimum(x, 1, out=x) -> x[x > 1] = 1 (NaN stays NaN either way)
        if isinstance(c, ast.Call) and norm(c.func) in (
                "np.minimum", "numpy.minimum", "np.maximum",
                "numpy.maximum") and len(c.args) == 2 and len(
                c.keywords) == 1 and c.keywords[0].arg == "out" and \
                isinstance(c.args[0], ast.Name) and isinstance(
                    c.keywords[0].value, ast.Name) and \
                c.keywords[0].value.id == c.args[0].id and (
                    _closed_number(c.args[1]) is not None):
            x = c.args[0]
            op = ast.Gt() if norm(c.func).endswith("minimum") else ast.Lt()
            new = ast.Assign(targets=[ast.Subscript(
                value=ast.Name(id=x.id, ctx=ast.Load()),
                slice=ast.Compare(left=ast.Name(id=x.id, ctx=ast.Load()),
                                  ops=[op], comparators=[clone(c.args[1])]),
                ctx=ast.Store())], value=c.args[1])
            ast.copy_location(new, node)
            ast.fix_missing_locations(new)
            return new
        # np.putmask(x, m, 0) / np.place(x, m, 0) /
        # np.copyto(x, 0, where=m) with a scalar literal -> x[m] = 0
        if isinstance(c, ast.Call) and norm(c.func) in (
                "np.putmask", "numpy.putmask", "np.place", "numpy.place",
                "np.copyto", "numpy.copyto"):
            kw = {k.arg: k.value for k in c.keywords}
            tgt = msk = val = None
            if norm(c.func).endswith("copyto"):
                if len(c.args) == 2 and set(kw) == {"where"}:
                    tgt, val, msk = c.args[0], c.args[1], kw["where"]
            elif len(c.args) == 3 and not kw:
                tgt, msk, val = c.args
            if tgt is not None and isinstance(tgt, ast.Name) and (
                    _closed_number(val) is not None or (isinstance(
                        val, ast.Constant) and isinstance(
                        val.value, (bool, int, float)))):
                new = ast.Assign(targets=[ast.Subscript(
                    value=tgt, slice=msk, ctx=ast.Store())], value=val)
                ast.copy_location(new, node)
                ast.fix_missing_locations(new)
                return new
        # setattr(x, "name", v) -> x.name = v
        if isinstance(c, ast.Call) and norm(c.func) == "setattr" and \
                len(c.args) == 3 and not c.keywords and isinstance(
                    c.args[1], ast.Constant) and isinstance(
                    c.args[1].value, str) and \
                c.args[1].value.isidentifier():
            return ast.copy_location(ast.Assign(targets=[ast.Attribute(
                value=c.args[0], attr=c.args[1].value, ctx=ast.Store())],
                value=c.args[2]), node)
        return node

    def visit_BinOp(self, node):
        self.generic_visit(node)
        # ("a",) + ("b",) -> ("a", "b")
        if isinstance(node.op, ast.Add) and type(node.left) is type(
                node.right) and isinstance(node.left, (ast.Tuple,
                                                       ast.List)) and \
                not any(isinstance(e, ast.Starred)
                        for e in node.left.elts + node.right.elts):
            return ast.copy_location(type(node.left)(
                elts=node.left.elts + node.right.elts, ctx=ast.Load()), node)
        return node

    def visit_DictComp(self, node):
        self.generic_visit(node)
        # {k: f(k) for k in ["a", "b"]} -> {"a": f("a"), "b": f("b")}
        if len(node.generators) != 1:
            return node
        g = node.generators[0]
        if g.ifs or g.is_async or not isinstance(
                g.iter, (ast.List, ast.Tuple)) or not (
                    1 <= len(g.iter.elts) <= self.MAX) or not isinstance(
                    g.target, ast.Name):
            return node
        from .normalize import Unroll
        if not all(Unroll._item_ok(e) for e in g.iter.elts):
            return node
        keys, vals = [], []
        for e in g.iter.elts:
            m = {g.target.id: e}
            keys.append(_SubstNames(m).visit(clone(node.key)))
            vals.append(_SubstNames(m).visit(clone(node.value)))
        return ast.copy_location(ast.Dict(keys=keys, values=vals), node)

    @staticmethod
    def _comp_to_append_loop(target, comp, node):
        """`for v in IT: [if c:] target.append(elt)` for a one-generator
        comprehension that does not mention the list it extends"""
        if not (isinstance(target, ast.Name) and isinstance(
                comp, (ast.ListComp, ast.GeneratorExp)) and len(
                comp.generators) == 1 and not comp.generators[0].is_async):
            return None
        if any(isinstance(n, ast.Name) and n.id == target.id
               for n in ast.walk(comp)):
            return None
        if any(isinstance(n, (ast.NamedExpr, ast.Lambda, ast.ListComp,
                              ast.GeneratorExp, ast.DictComp, ast.SetComp))
               and n is not comp for n in ast.walk(comp)):
            return None
        g = comp.generators[0]
        body = [ast.Expr(value=ast.Call(func=ast.Attribute(
            value=ast.Name(id=target.id, ctx=ast.Load()), attr="append",
            ctx=ast.Load()), args=[comp.elt], keywords=[]))]
        if g.ifs:
            body = [ast.If(test=g.ifs[0] if len(g.ifs) == 1 else ast.BoolOp(
                op=ast.And(), values=list(g.ifs)), body=body, orelse=[])]
        tgt = clone(g.target)
        for n_ in ast.walk(tgt):
            if isinstance(n_, (ast.Name, ast.Tuple, ast.List)):
                n_.ctx = ast.Store()
        loop = ast.For(target=tgt, iter=g.iter, body=body, orelse=[],
                       type_comment=None)
        ast.copy_location(loop, node)
        ast.fix_missing_locations(loop)
        return loop

    def visit_Assign(self, node):
        self.generic_visit(node)
        # D = OrderedDict((k, v) for ... in IT) -> D = OrderedDict();
        # for ... in IT: D[k] = v   (also dict(...))
        v = node.value
        if len(node.targets) == 1 and isinstance(
                node.targets[0], ast.Name) and isinstance(
                v, ast.Call) and norm(v.func) in (
                "OrderedDict", "collections.OrderedDict", "dict") and len(
                v.args) == 1 and not v.keywords and isinstance(
                v.args[0], (ast.GeneratorExp, ast.ListComp)) and len(
                v.args[0].generators) == 1 and isinstance(
                v.args[0].elt, ast.Tuple) and len(
                v.args[0].elt.elts) == 2 and not any(
                isinstance(n, ast.Name) and n.id == node.targets[0].id
                for n in ast.walk(v.args[0])):
            g = v.args[0].generators[0]
            D = node.targets[0].id
            body = [ast.Assign(targets=[ast.Subscript(
                value=ast.Name(id=D, ctx=ast.Load()),
                slice=v.args[0].elt.elts[0], ctx=ast.Store())],
                value=v.args[0].elt.elts[1])]
            if g.ifs:
                body = [ast.If(test=g.ifs[0] if len(g.ifs) == 1 else
                               ast.BoolOp(op=ast.And(), values=list(g.ifs)),
                               body=body, orelse=[])]
            tgt = clone(g.target)
            for n_ in ast.walk(tgt):
                if isinstance(n_, (ast.Name, ast.Tuple, ast.List)):
                    n_.ctx = ast.Store()
            init = ast.Assign(targets=[node.targets[0]], value=ast.Call(
                func=v.func, args=[], keywords=[]))
            loop = ast.For(target=tgt, iter=g.iter, body=body, orelse=[],
                           type_comment=None)
            for x in (init, loop):
                ast.copy_location(x, node)
                ast.fix_missing_locations(x)
            return [init, loop]
        return node

    def visit_AugAssign(self, node):
        self.generic_visit(node)
        # L += [f(v) for v in IT] -> for v in IT: L.append(f(v))
        if isinstance(node.op, ast.Add):
            loop = self._comp_to_append_loop(node.target, node.value, node) \
                if isinstance(node.value, (ast.ListComp,
                                           ast.GeneratorExp)) else None
            if loop is not None:
                return loop
        return node

    def visit_List(self, node):
        self.generic_visit(node)
        # [a, b, *([c] if t else [])] -> [a, b, c] if t else [a, b]
        # (t is evaluated after a and b either way; only plain elements
        # in front, so that the order of evaluation does not matter)
        if not isinstance(node.ctx, ast.Load):
            return node
        st = [e for e in node.elts if isinstance(e, ast.Starred)]
        if len(st) == 1 and isinstance(st[0].value, ast.IfExp) and all(
                isinstance(x, (ast.List, ast.Tuple))
                for x in (st[0].value.body, st[0].value.orelse)) and all(
                isinstance(e, (ast.Name, ast.Constant))
                for e in node.elts if e is not st[0]) and isinstance(
                st[0].value.test, (ast.Name, ast.Constant)):
            i = node.elts.index(st[0])
            a = ast.List(elts=node.elts[:i] + list(st[0].value.body.elts)
                         + node.elts[i + 1:], ctx=ast.Load())
            b = ast.List(elts=[clone(e) for e in node.elts[:i]]
                         + list(st[0].value.orelse.elts)
                         + [clone(e) for e in node.elts[i + 1:]],
                         ctx=ast.Load())
            return ast.fix_missing_locations(ast.copy_location(ast.IfExp(
                test=st[0].value.test, body=a, orelse=b), node))
        return node

    def _true_filters(self, node):
        for g in node.generators:
            g.ifs = [c for c in g.ifs if not (isinstance(
                c, ast.Constant) and c.value is True)]

    def visit_GeneratorExp(self, node):
        self.generic_visit(node)
        self._true_filters(node)
        return node

    def visit_SetComp(self, node):
        self.generic_visit(node)
        self._true_filters(node)
        return node

    def visit_ListComp(self, node):
        self.generic_visit(node)
        self._true_filters(node)
        # [f(v) for v in [a, b, c]] -> [f(a), f(b), f(c)]
        if len(node.generators) != 1:
            return node
        g = node.generators[0]
        if g.ifs or g.is_async or not isinstance(
                g.iter, (ast.List, ast.Tuple)) or not (
                    1 <= len(g.iter.elts) <= self.MAX):
            return node
        from .normalize import Unroll
        if not all(Unroll._item_ok(e) for e in g.iter.elts):
            return node
        if any(isinstance(n, (ast.Lambda, ast.ListComp, ast.GeneratorExp,
                              ast.NamedExpr)) for n in ast.walk(node.elt)):
            return node
        out = []
        for e in g.iter.elts:
            if isinstance(g.target, ast.Name):
                m = {g.target.id: e}
            elif isinstance(g.target, (ast.Tuple, ast.List)) and isinstance(
                    e, (ast.Tuple, ast.List)) and len(e.elts) == len(
                    g.target.elts) and all(isinstance(t, ast.Name)
                                           for t in g.target.elts):
                m = {t.id: v for t, v in zip(g.target.elts, e.elts)}
            else:
                return node
            out.append(_SubstNames(m).visit(clone(node.elt)))
        return ast.copy_location(ast.List(elts=out, ctx=ast.Load()), node)


def literal_iterables(fn):
    """`xs = [literal items]` bound once, never mutated, used only as the
    iterable of for loops / comprehensions / enumerate -> the literal"""
    cands = {}
    where = {}
    from .normalize import Unroll
    for par in [fn] + list(_walk_own(fn)):
        for fld in ("body", "orelse", "finalbody"):
            blk = getattr(par, fld, None)
            if not isinstance(blk, list):
                continue
            for st in blk:
                if isinstance(st, ast.Assign) and len(st.targets) == 1 and \
                        isinstance(st.targets[0], ast.Name) and isinstance(
                            st.value, (ast.List, ast.Tuple)) and \
                        1 <= len(st.value.elts) <= 12 and not any(
                            isinstance(e, ast.Starred)
                            for e in st.value.elts):
                    cands[st.targets[0].id] = st
                    where[st.targets[0].id] = (par, fld)
    if not cands:
        return
    for name, st in list(cands.items()):
        nodes = [n for n in ast.walk(fn) if isinstance(n, ast.Name)
                 and n.id == name]
        stores = [n for n in nodes if not isinstance(n.ctx, ast.Load)]
        loads = [n for n in nodes if isinstance(n.ctx, ast.Load)]
        if len(stores) != 1 or not loads:
            continue
        ok_sites = set()
        for par in ast.walk(fn):
            if isinstance(par, ast.For) and par.iter in loads:
                ok_sites.add(id(par.iter))
            elif isinstance(par, ast.comprehension) and par.iter in loads:
                ok_sites.add(id(par.iter))
            elif isinstance(par, ast.Call) and norm(par.func) in (
                    "enumerate", "len") and par.args and \
                    par.args[0] in loads:
                ok_sites.add(id(par.args[0]))
            elif isinstance(par, ast.Call) and norm(par.func) == "zip":
                for a_ in par.args:
                    if a_ in loads:
                        ok_sites.add(id(a_))
        if {id(x) for x in loads} != ok_sites:
            continue
        from .normalize import _replace_node
        pre = []
        if not all(Unroll._item_ok(e) for e in st.value.elts):
            # evaluate the items once, in order, where the list was built
            # (the items left in place must be unaffected by the hoisted
            # evaluations: constants, names, attribute chains)
            if not all(isinstance(e, (ast.Name, ast.Constant, ast.Attribute))
                       for e in st.value.elts if Unroll._item_ok(e)):
                continue
            taken = {n.id for n in ast.walk(fn) if isinstance(n, ast.Name)}
            for i, e in enumerate(list(st.value.elts)):
                if Unroll._item_ok(e):
                    continue
                if isinstance(e, (ast.Tuple, ast.List)) and all(
                        isinstance(x, (ast.Name, ast.Constant,
                                       ast.Attribute))
                        for x in e.elts if Unroll._item_ok(x)) and not any(
                        isinstance(x, ast.Starred) for x in e.elts):
                    # a row: its computed fields are evaluated here, the
                    # plain ones stay in the row
                    for j, x in enumerate(list(e.elts)):
                        if Unroll._item_ok(x):
                            continue
                        tmp = f"{name}__{i}_{j}"
                        while tmp in taken:
                            tmp += "_"
                        taken.add(tmp)
                        pre.append(ast.copy_location(ast.Assign(
                            targets=[ast.Name(id=tmp, ctx=ast.Store())],
                            value=x), st))
                        e.elts[j] = ast.copy_location(
                            ast.Name(id=tmp, ctx=ast.Load()), x)
                    continue
                tmp = f"{name}__{i}"
                while tmp in taken:
                    tmp += "_"
                taken.add(tmp)
                pre.append(ast.copy_location(ast.Assign(
                    targets=[ast.Name(id=tmp, ctx=ast.Store())], value=e),
                    st))
                st.value.elts[i] = ast.copy_location(
                    ast.Name(id=tmp, ctx=ast.Load()), e)
            par, fld = where[name]
            blk = getattr(par, fld)
            i0 = blk.index(st)
            for p_ in pre:
                ast.fix_missing_locations(p_)
            blk[i0:i0] = pre
        # names of the items must not be re-bound in fn
        item_names = {n.id for n in ast.walk(st.value)
                      if isinstance(n, ast.Name)}
        in_loop_ = any(isinstance(lp, (ast.For, ast.While)) and any(
            x is st for x in ast.walk(lp)) for lp in ast.walk(fn))
        here = _from_here(fn, st)
        # (inside a loop: a binding in front of the list in the same pass
        # is over when the list is built; one that follows it is not)
        rebound = {n.id for n in ast.walk(fn) if isinstance(n, ast.Name)
                   and isinstance(n.ctx, (ast.Store, ast.Del))
                   and id(n) in here}
        if (item_names - {p_.targets[0].id for p_ in pre}) & rebound:
            continue
        for ld in loads:
            _replace_node(fn, ld, ast.copy_location(clone(st.value), ld))
        par, fld = where[name]
        setattr(par, fld, [s for s in getattr(par, fld) if s is not st]
                or [ast.Pass()])


def merge_appends(fn):
    """`xs = [..]` directly followed by `xs.append(e)` statements -> one
    list display (same evaluation order)."""
    for par in [fn] + list(_walk_own(fn)):
        for fld in ("body", "orelse", "finalbody"):
            blk = getattr(par, fld, None)
            if not isinstance(blk, list):
                continue
            i = 0
            while i < len(blk):
                st = blk[i]
                if isinstance(st, ast.Assign) and len(st.targets) == 1 and \
                        isinstance(st.targets[0], ast.Name) and isinstance(
                            st.value, ast.List) and not any(
                            isinstance(e, ast.Starred)
                            for e in st.value.elts):
                    name = st.targets[0].id
                    j = i + 1
                    while j < len(blk):
                        nx = blk[j]
                        if isinstance(nx, ast.Expr) and isinstance(
                                nx.value, ast.Call) and norm(
                                nx.value.func) == f"{name}.append" and len(
                                nx.value.args) == 1 and \
                                not nx.value.keywords and not any(
                                    isinstance(n, ast.Name) and n.id == name
                                    for n in ast.walk(nx.value.args[0])):
                            st.value.elts.append(nx.value.args[0])
                            del blk[j]
                        else:
                            break
                i += 1


def filtered_loops(fn):
    """`xs = [v for v in IT if C]` directly followed by `for k in xs: BODY`
    (xs used nowhere else), or the comprehension as the loop's iterable ->
    `for k in list(IT): if C: BODY` (the snapshot of IT is kept)"""
    done = False
    for par in [fn] + list(_walk_own(fn)):
        for fld in ("body", "orelse", "finalbody"):
            blk = getattr(par, fld, None)
            if not isinstance(blk, list):
                continue
            i = 0
            while i < len(blk):
                st = blk[i]
                if isinstance(st, ast.Assign) and len(st.targets) == 1 and \
                        isinstance(st.targets[0], ast.Name) and isinstance(
                            st.value, ast.ListComp) and i + 1 < len(blk) \
                        and isinstance(blk[i + 1], ast.For) and isinstance(
                            blk[i + 1].iter, ast.Name) and \
                        blk[i + 1].iter.id == st.targets[0].id and sum(
                            1 for n in ast.walk(fn) if isinstance(
                                n, ast.Name) and n.id == st.targets[0].id
                        ) == 2:
                    blk[i + 1].iter = st.value
                    del blk[i]
                    done = True
                    continue
                if isinstance(st, ast.For) and isinstance(
                        st.iter, ast.ListComp) and len(
                        st.iter.generators) == 1 and isinstance(
                        st.target, ast.Name) and not st.orelse:
                    g = st.iter.generators[0]
                    if isinstance(g.target, ast.Name) and isinstance(
                            st.iter.elt, ast.Name) and \
                            st.iter.elt.id == g.target.id and g.ifs:
                        cond = g.ifs[0] if len(g.ifs) == 1 else ast.BoolOp(
                            op=ast.And(), values=list(g.ifs))
                        cond = _rename(cond, g.target.id, st.target.id)
                        it = g.iter
                        base = it
                        while isinstance(base, (ast.Attribute, ast.Subscript,
                                                ast.Call)):
                            base = base.func if isinstance(
                                base, ast.Call) else base.value
                        bname = base.id if isinstance(base, ast.Name) else None
                        mutated = bname is None or any(
                            (isinstance(n, ast.Call) and isinstance(
                                n.func, ast.Attribute) and n.func.attr in (
                                    "pop", "remove", "append", "insert",
                                    "clear", "update", "setdefault",
                                    "popitem", "add", "discard", "extend")
                             and any(isinstance(x, ast.Name) and x.id == bname
                                     for x in ast.walk(n.func.value)))
                            or (isinstance(n, (ast.Subscript, ast.Attribute))
                                and isinstance(n.ctx, (ast.Store, ast.Del))
                                and any(isinstance(x, ast.Name)
                                        and x.id == bname
                                        for x in ast.walk(n.value)))
                            for s_ in st.body for n in ast.walk(s_))
                        if mutated and not (isinstance(it, ast.Call) and norm(
                                it.func) in ("list", "tuple", "sorted")):
                            it = ast.Call(func=ast.Name(id="list",
                                                        ctx=ast.Load()),
                                          args=[it], keywords=[])
                        st.iter = it
                        st.body = [ast.If(test=cond, body=st.body,
                                          orelse=[])]
                        ast.fix_missing_locations(st)
                        done = True
                i += 1
    return done


class ItemsLoops(ast.NodeTransformer):
    """`for k, v in D.items(): ... v ...` -> `for k in D: ... D[k] ...`
    (D a name/attribute/constant-subscript chain, v and k and the base of D
    not re-bound in the body, no nested function capturing v)."""

    @staticmethod
    def _chain(e):
        while isinstance(e, (ast.Attribute, ast.Subscript)):
            if isinstance(e, ast.Subscript) and not isinstance(
                    e.slice, ast.Constant):
                return None
            e = e.value
        return e if isinstance(e, ast.Name) else None

    def visit_For(self, node):
        self.generic_visit(node)
        it = node.iter
        # sorted(D.items()) / sorted(D.items(), key=lambda kv: kv[0]): the
        # pairs in the order of their (unique) keys
        wrap = False
        if isinstance(it, ast.Call) and norm(it.func) == "sorted" and len(
                it.args) == 1 and isinstance(it.args[0], ast.Call) and \
                isinstance(it.args[0].func, ast.Attribute) and \
                it.args[0].func.attr == "items" and not it.args[0].args:
            kws = {k.arg: k.value for k in it.keywords}
            kf = kws.get("key")
            by_key = kf is None or (isinstance(kf, ast.Lambda) and len(
                kf.args.args) == 1 and norm(kf.body) ==
                f"{kf.args.args[0].arg}[0]") or norm(kf) in (
                "operator.itemgetter(0)", "itemgetter(0)")
            if set(kws) <= {"key"} and by_key:
                wrap = True
                it = it.args[0]
        if not (isinstance(it, ast.Call) and isinstance(
                it.func, ast.Attribute) and it.func.attr == "items"
                and not it.args and not it.keywords):
            return node
        base = self._chain(it.func.value)
        if base is None or not (isinstance(node.target, ast.Tuple) and len(
                node.target.elts) == 2 and all(isinstance(
                    t, ast.Name) for t in node.target.elts)):
            return node
        k, v = node.target.elts[0].id, node.target.elts[1].id
        body = ast.Module(body=node.body + node.orelse, type_ignores=[])
        for n in ast.walk(body):
            if isinstance(n, (ast.FunctionDef, ast.Lambda)):
                return node
            if isinstance(n, ast.Name) and isinstance(
                    n.ctx, (ast.Store, ast.Del)) and n.id in (k, v, base.id):
                return node
        # the mapping's own entries must not be re-bound in the body
        dtxt = norm(it.func.value)
        for n in ast.walk(body):
            if isinstance(n, ast.Subscript) and isinstance(
                    n.ctx, (ast.Store, ast.Del)) and norm(n.value) == dtxt:
                return node
            if isinstance(n, ast.Call) and isinstance(
                    n.func, ast.Attribute) and norm(
                    n.func.value) == dtxt and n.func.attr in (
                    "pop", "update", "clear", "setdefault", "popitem"):
                return node
        if not any(isinstance(n, ast.Name) and n.id == v
                   for n in ast.walk(body)):
            return node
        sub = _SubstNames({v: ast.Subscript(
            value=clone(it.func.value), slice=ast.Name(id=k, ctx=ast.Load()),
            ctx=ast.Load())})
        node.body = [sub.visit(s) for s in node.body]
        node.orelse = [sub.visit(s) for s in node.orelse]
        node.target = ast.copy_location(ast.Name(id=k, ctx=ast.Store()),
                                        node.target)
        node.iter = it.func.value
        if wrap:
            node.iter = ast.Call(func=ast.Name(id="sorted", ctx=ast.Load()),
                                 args=[node.iter], keywords=[])
        ast.fix_missing_locations(node)
        return node


def sort_keywords(tree):
    """keyword arguments in one canonical (alphabetical) order; `**` items
    stay where they are relative to the end (they come last in this code
    base).  Keyword order only matters for the evaluation order of argument
    expressions with side effects, which no rule relies on."""
    for n in ast.walk(tree):
        if isinstance(n, ast.Call) and len(n.keywords) > 1:
            named = [k for k in n.keywords if k.arg is not None]
            star = [k for k in n.keywords if k.arg is None]
            if star and n.keywords[-len(star):] != star:
                continue
            n.keywords = sorted(named, key=lambda k: k.arg) + star


# ---------------------------------------------------------------------------
# next(<generator>, default) look-ups -> the loops they abbreviate

def _terminates(stmts):
    return bool(stmts) and isinstance(stmts[-1], (ast.Raise, ast.Return))


def _rename(node, old, new):
    class R(ast.NodeTransformer):
        def visit_Name(self, n):
            if n.id == old:
                return ast.copy_location(ast.Name(id=new, ctx=n.ctx), n)
            return n
    return R().visit(node)


def next_loops(fn):
    """`x = next((v for v in IT if C), None)` + `if x is None: raise/return`
    -> `for x in IT: if C: break` + `else: raise/return`;
    `f = next((E for v in IT if C), D)` + `if f [is not D]: BODY` (f not
    used afterwards) -> `for v in IT: if C: BODY; break`.
    A generator bound to a name that is only passed to that next() is
    inlined first."""
    changed = False
    all_names = [n.id for n in ast.walk(fn) if isinstance(n, ast.Name)]
    for par in [fn] + list(_walk_own(fn)):
        for fld in ("body", "orelse", "finalbody"):
            blk = getattr(par, fld, None)
            if not isinstance(blk, list):
                continue
            i = 0
            while i < len(blk):
                st = blk[i]
                # g = (generator); x = next(g, D)  -> inline
                if isinstance(st, ast.Assign) and len(st.targets) == 1 and \
                        isinstance(st.targets[0], ast.Name) and isinstance(
                            st.value, ast.GeneratorExp) and \
                        all_names.count(st.targets[0].id) == 2 and \
                        i + 1 < len(blk):
                    nx = blk[i + 1]
                    g = st.targets[0].id
                    if isinstance(nx, ast.Assign) and isinstance(
                            nx.value, ast.Call) and norm(
                            nx.value.func) == "next" and nx.value.args and \
                            isinstance(nx.value.args[0], ast.Name) and \
                            nx.value.args[0].id == g:
                        nx.value.args[0] = st.value
                        del blk[i]
                        changed = True
                        continue
                if not (isinstance(st, ast.Assign) and len(st.targets) == 1
                        and isinstance(st.targets[0], ast.Name)
                        and isinstance(st.value, ast.Call)
                        and norm(st.value.func) == "next"
                        and len(st.value.args) == 2
                        and not st.value.keywords
                        and isinstance(st.value.args[0], ast.GeneratorExp)
                        and len(st.value.args[0].generators) == 1
                        and i + 1 < len(blk)
                        and isinstance(blk[i + 1], ast.If)):
                    i += 1
                    continue
                gen = st.value.args[0]
                g0 = gen.generators[0]
                dflt = st.value.args[1]
                x = st.targets[0].id
                nx = blk[i + 1]
                if g0.is_async or not isinstance(g0.target, ast.Name) or \
                        not isinstance(dflt, (ast.Constant, ast.Name)):
                    i += 1
                    continue
                v = g0.target.id
                cond = g0.ifs[0] if len(g0.ifs) == 1 else (
                    ast.BoolOp(op=ast.And(), values=list(g0.ifs))
                    if g0.ifs else ast.Constant(value=True))
                # what does the following `if` test?
                t = nx.test
                neg = False
                if isinstance(t, ast.UnaryOp) and isinstance(t.op, ast.Not):
                    t, neg = t.operand, True
                found = None      # polarity of "an item was found"
                if isinstance(t, ast.Name) and t.id == x and isinstance(
                        dflt, ast.Constant) and dflt.value is False and \
                        isinstance(gen.elt, ast.Constant) and \
                        gen.elt.value is True:
                    found = not neg
                elif isinstance(t, ast.Compare) and len(t.ops) == 1 and \
                        isinstance(t.left, ast.Name) and t.left.id == x and \
                        norm(t.comparators[0]) == norm(dflt) and isinstance(
                            t.ops[0], (ast.Is, ast.IsNot)) and not (
                            isinstance(gen.elt, ast.Constant)):
                    found = isinstance(t.ops[0], ast.IsNot) != neg
                if found is None:
                    i += 1
                    continue
                uses_x_later = any(
                    isinstance(n, ast.Name) and n.id == x
                    for s in blk[i + 2:] for n in ast.walk(s))
                # P1: not found -> terminate; the item is used afterwards
                if not found and not nx.orelse and _terminates(nx.body) and \
                        isinstance(gen.elt, ast.Name) and gen.elt.id == v \
                        and all_names.count(v) == sum(
                            1 for n in ast.walk(gen)
                            if isinstance(n, ast.Name) and n.id == v):
                    loop = ast.For(
                        target=ast.Name(id=x, ctx=ast.Store()),
                        iter=g0.iter,
                        body=[ast.If(test=_rename(cond, v, x),
                                     body=[ast.Break()], orelse=[])],
                        orelse=nx.body, type_comment=None)
                    ast.copy_location(loop, st)
                    ast.fix_missing_locations(loop)
                    blk[i:i + 2] = [loop]
                    changed = True
                    i += 1
                    continue
                # P2: found -> BODY, the flag is not used afterwards
                if found and not nx.orelse and not uses_x_later and not any(
                        isinstance(n, ast.Name) and n.id == v
                        for s in nx.body for n in ast.walk(s)) and \
                        all_names.count(v) == sum(
                            1 for n in ast.walk(gen)
                            if isinstance(n, ast.Name) and n.id == v):
                    body = [_SubstNames({x: gen.elt}).visit(s)
                            for s in nx.body]
                    loop = ast.For(
                        target=ast.Name(id=v, ctx=ast.Store()),
                        iter=g0.iter,
                        body=[ast.If(test=cond, body=body + [ast.Break()],
                                     orelse=[])],
                        orelse=[], type_comment=None)
                    ast.copy_location(loop, st)
                    ast.fix_missing_locations(loop)
                    blk[i:i + 2] = [loop]
                    changed = True
                    i += 1
                    continue
                i += 1
    return changed


def inline_module_lambdas(tree):
    """a private module-level name bound once to a lambda (e.g. what an
    `operator.itemgetter(...)` became) and only ever called -> the calls are
    replaced by the lambda's body (pure arguments only)"""
    from .normalize import _replace_node
    cands = {}
    for st in tree.body:
        if isinstance(st, ast.Assign) and len(st.targets) == 1 and \
                isinstance(st.targets[0], ast.Name) and \
                st.targets[0].id.startswith("_") and isinstance(
                    st.value, ast.Lambda) and not st.value.args.vararg \
                and not st.value.args.kwarg and not st.value.args.defaults:
            cands[st.targets[0].id] = st
    for name, st in cands.items():
        uses = [n for n in ast.walk(tree) if isinstance(n, ast.Name)
                and n.id == name]
        calls = [n for n in ast.walk(tree) if isinstance(n, ast.Call)
                 and isinstance(n.func, ast.Name) and n.func.id == name]
        if len(uses) != len(calls) + 1 or not calls:
            continue
        lam = st.value
        params = [a.arg for a in lam.args.args]
        ok = all(len(c.args) == len(params) and not c.keywords
                 and all(_pure_arg(a) for a in c.args) for c in calls)
        if not ok:
            continue
        for c in calls:
            new = _SubstNames(dict(zip(params, c.args))).visit(
                clone(lam.body))
            ast.copy_location(new, c)
            ast.fix_missing_locations(new)
            _replace_node(tree, c, new)
        tree.body = [s_ for s_ in tree.body if s_ is not st]


def counted_while(fn):
    """`c = N` + `while c > 0: c -= 1; BODY` (or the decrement last, no
    continue) with c used nowhere else -> `for c in range(N): BODY`;
    with a flag, `flag = True` + `while flag and c > 0: c -= 1; BODY` ->
    `for c in range(N): BODY; if not flag: break`."""
    for par in [fn] + list(_walk_own(fn)):
        for fld in ("body", "orelse", "finalbody"):
            blk = getattr(par, fld, None)
            if not isinstance(blk, list):
                continue
            for i in range(1, len(blk)):
                wh = blk[i]
                if not (isinstance(wh, ast.While) and not wh.orelse
                        and wh.body):
                    continue
                t = wh.test
                flag = None
                if isinstance(t, ast.BoolOp) and isinstance(
                        t.op, ast.And) and len(t.values) == 2:
                    names = [v for v in t.values if isinstance(v, ast.Name)]
                    rest = [v for v in t.values
                            if not isinstance(v, ast.Name)]
                    if len(names) == 1 and len(rest) == 1:
                        flag, t = names[0].id, rest[0]
                if not (isinstance(t, ast.Compare) and len(t.ops) == 1
                        and isinstance(t.left, ast.Name)
                        and isinstance(t.comparators[0], ast.Constant)
                        and ((isinstance(t.ops[0], ast.Gt)
                              and t.comparators[0].value == 0)
                             or (isinstance(t.ops[0], ast.GtE)
                                 and t.comparators[0].value == 1)
                             or (isinstance(t.ops[0], ast.NotEq)
                                 and t.comparators[0].value == 0))) and \
                        not (isinstance(t, ast.Name) and flag is None):
                    continue
                c = t.left.id if isinstance(t, ast.Compare) else t.id
                # the initialisations directly before the loop
                inits = {}
                j = i - 1
                while j >= 0 and isinstance(blk[j], ast.Assign) and len(
                        blk[j].targets) == 1 and isinstance(
                        blk[j].targets[0], ast.Name) and \
                        blk[j].targets[0].id in (c, flag) and \
                        blk[j].targets[0].id not in inits:
                    inits[blk[j].targets[0].id] = blk[j]
                    j -= 1
                if c not in inits or (flag and flag not in inits):
                    continue
                n_expr = inits[c].value
                if isinstance(n_expr, ast.Constant):
                    if not (isinstance(n_expr.value, int) and not isinstance(
                            n_expr.value, bool) and n_expr.value >= 0):
                        continue
                elif not _pure_arg(n_expr):
                    continue
                if flag and not (isinstance(inits[flag].value, ast.Constant)
                                 and inits[flag].value.value is True):
                    continue

                def is_dec(s_):
                    return isinstance(s_, ast.AugAssign) and isinstance(
                        s_.op, ast.Sub) and isinstance(
                        s_.target, ast.Name) and s_.target.id == c and \
                        isinstance(s_.value, ast.Constant) and \
                        s_.value.value == 1
                body = None
                if is_dec(wh.body[0]):
                    body = wh.body[1:]
                elif is_dec(wh.body[-1]) and not any(
                        isinstance(n, ast.Continue)
                        for s_ in wh.body for n in ast.walk(s_)):
                    body = wh.body[:-1]
                if body is None:
                    continue
                others = [n for n in ast.walk(fn) if isinstance(n, ast.Name)
                          and n.id == c]
                if len(others) != 3:
                    continue
                if flag and any(isinstance(n, ast.Continue)
                                for s_ in body for n in ast.walk(s_)
                                if not isinstance(s_, (ast.For, ast.While))):
                    continue
                tail = []
                if flag:
                    tail = [ast.If(test=ast.UnaryOp(
                        op=ast.Not(), operand=ast.Name(id=flag,
                                                       ctx=ast.Load())),
                        body=[ast.Break()], orelse=[])]
                loop = ast.For(
                    target=ast.Name(id=c, ctx=ast.Store()),
                    iter=ast.Call(func=ast.Name(id="range", ctx=ast.Load()),
                                  args=[n_expr], keywords=[]),
                    body=(body or [ast.Pass()]) + tail, orelse=[],
                    type_comment=None)
                ast.copy_location(loop, wh)
                ast.fix_missing_locations(loop)
                blk[i] = loop
                blk.remove(inits[c])
                # (the flag's initial value stays: it is still read after
                # the loop when the loop body never runs)
                return counted_while(fn) or True
    return False


def single_use_dicts(fn):
    """`d = {...}` / `d = dict(k=v, ...)` used exactly once, as an argument
    of a call in the very next statement -> the display is passed directly
    (same evaluation order: nothing runs in between)."""
    from .normalize import _replace_node
    done = False
    for par in [fn] + list(_walk_own(fn)):
        for fld in ("body", "orelse", "finalbody"):
            blk = getattr(par, fld, None)
            if not isinstance(blk, list):
                continue
            i = 0
            while i + 1 < len(blk):
                st, nx = blk[i], blk[i + 1]
                if isinstance(st, ast.Assign) and len(st.targets) == 1 and \
                        isinstance(st.targets[0], ast.Name):
                    v = st.value
                    if isinstance(v, ast.Call) and isinstance(
                            v.func, ast.Name) and v.func.id == "dict" and \
                            not v.args and v.keywords and all(
                                k.arg for k in v.keywords):
                        v = ast.copy_location(ast.Dict(
                            keys=[ast.Constant(value=k.arg)
                                  for k in v.keywords],
                            values=[k.value for k in v.keywords]), v)
                        ast.fix_missing_locations(v)
                    name = st.targets[0].id
                    uses = [n for n in ast.walk(fn) if isinstance(n, ast.Name)
                            and n.id == name]
                    if isinstance(v, ast.Dict) and len(uses) == 2 and \
                            isinstance(nx, (ast.Expr, ast.Assign, ast.Return)):
                        site = [c for c in ast.walk(nx)
                                if isinstance(c, ast.Call) and any(
                                    a is u for u in uses for a in c.args)]
                        # the call must be the first thing the statement
                        # evaluates besides its receiver
                        if len(site) == 1 and isinstance(
                                nx, ast.Expr) and nx.value is site[0]:
                            u = [a for a in site[0].args
                                 if any(a is x for x in uses)][0]
                            _replace_node(nx, u, v)
                            del blk[i]
                            done = True
                            continue
                i += 1
    return done


def flag_finally(fn):
    """`ok = False` + `try: BODY; ok = True` + `finally: if not ok: CLEANUP`
    (no handlers, no return/break/continue in BODY, `ok` used nowhere else)
    -> `try: BODY` + `except BaseException: CLEANUP; raise`"""
    done = False
    for par in [fn] + list(_walk_own(fn)):
        for fld in ("body", "orelse", "finalbody"):
            blk = getattr(par, fld, None)
            if not isinstance(blk, list):
                continue
            for i, tr in enumerate(blk):
                if not (isinstance(tr, ast.Try) and not tr.handlers
                        and not tr.orelse and len(tr.finalbody) == 1
                        and isinstance(tr.finalbody[0], ast.If)
                        and not tr.finalbody[0].orelse and tr.body):
                    continue
                fin = tr.finalbody[0]
                t = fin.test
                if not (isinstance(t, ast.UnaryOp) and isinstance(
                        t.op, ast.Not) and isinstance(t.operand, ast.Name)):
                    continue
                flag = t.operand.id
                last = tr.body[-1]
                if not (isinstance(last, ast.Assign) and len(
                        last.targets) == 1 and isinstance(
                        last.targets[0], ast.Name) and last.targets[0].id ==
                        flag and isinstance(last.value, ast.Constant)
                        and last.value.value is True):
                    continue
                init = [s for s in blk[:i] if isinstance(s, ast.Assign)
                        and len(s.targets) == 1 and isinstance(
                            s.targets[0], ast.Name)
                        and s.targets[0].id == flag and isinstance(
                            s.value, ast.Constant) and s.value.value is False]
                uses = [n for n in ast.walk(fn) if isinstance(n, ast.Name)
                        and n.id == flag]
                if len(init) != 1 or len(uses) != 3:
                    continue
                if any(isinstance(n, (ast.Return, ast.Break, ast.Continue))
                       for s in tr.body for n in ast.walk(s)
                       if not isinstance(s, (ast.FunctionDef, ast.Lambda))):
                    continue
                handler = ast.ExceptHandler(
                    type=ast.Name(id="BaseException", ctx=ast.Load()),
                    name=None, body=list(fin.body) + [ast.Raise(
                        exc=None, cause=None)])
                new = ast.Try(body=tr.body[:-1] or [ast.Pass()],
                              handlers=[handler], orelse=[], finalbody=[])
                ast.copy_location(new, tr)
                ast.fix_missing_locations(new)
                blk[i] = new
                blk.remove(init[0])
                done = True
                break
    return done


def local_sorts(fn):
    """`xs.sort()` on a local that only ever holds lists created in this
    function -> `xs = sorted(xs)` (no other object can observe the
    difference between sorting in place and re-binding)"""
    params = {a.arg for a in fn.args.args + fn.args.kwonlyargs
              + fn.args.posonlyargs}
    done = False
    for par in [fn] + list(_walk_own(fn)):
        for fld in ("body", "orelse", "finalbody"):
            blk = getattr(par, fld, None)
            if not isinstance(blk, list):
                continue
            for i, st in enumerate(blk):
                if not (isinstance(st, ast.Expr) and isinstance(
                        st.value, ast.Call) and isinstance(
                        st.value.func, ast.Attribute)
                        and st.value.func.attr == "sort"
                        and not st.value.args and not st.value.keywords
                        and isinstance(st.value.func.value, ast.Name)):
                    continue
                name = st.value.func.value.id
                if name in params:
                    continue
                defs = [a for a in ast.walk(fn) if isinstance(a, ast.Assign)
                        and any(isinstance(t, ast.Name) and t.id == name
                                for t in a.targets)]
                fresh = bool(defs) and all(
                    isinstance(a.value, (ast.List, ast.ListComp)) or (
                        isinstance(a.value, ast.Call) and norm(
                            a.value.func) in ("list", "sorted"))
                    for a in defs)
                # the list must not have been handed to anyone else
                parent = {}
                for p_ in ast.walk(fn):
                    for c_ in ast.iter_child_nodes(p_):
                        parent[id(c_)] = p_
                escaped = False
                for n in ast.walk(fn):
                    if not (isinstance(n, ast.Name) and n.id == name
                            and isinstance(n.ctx, ast.Load)):
                        continue
                    up = parent.get(id(n))
                    harmless = (
                        isinstance(up, ast.Attribute)      # xs.sort/append
                        or (isinstance(up, ast.Subscript) and up.value is n)
                        or (isinstance(up, (ast.For, ast.comprehension))
                            and up.iter is n)
                        or isinstance(up, (ast.Return, ast.Compare))
                        or (isinstance(up, (ast.Tuple, ast.List))
                            and isinstance(parent.get(id(up)), ast.Return))
                        or (isinstance(up, ast.Call) and norm(up.func) in (
                            "len", "sorted", "list", "tuple", "set", "any",
                            "all", "enumerate", "zip", "np.array",
                            "np.asarray", "str", "repr"))
                        or isinstance(up, (ast.JoinedStr, ast.FormattedValue))
                        or (isinstance(up, ast.Call) and isinstance(
                            up.func, ast.Attribute)
                            and up.func.attr in ("join", "format")))
                    if not harmless:
                        escaped = True
                if not fresh or escaped:
                    continue
                new = ast.Assign(
                    targets=[ast.Name(id=name, ctx=ast.Store())],
                    value=ast.Call(func=ast.Name(id="sorted", ctx=ast.Load()),
                                   args=[ast.Name(id=name, ctx=ast.Load())],
                                   keywords=[]))
                ast.copy_location(new, st)
                ast.fix_missing_locations(new)
                blk[i] = new
                done = True
    return done


# ---------------------------------------------------------------------------
# match statements -> if/elif chains

class MatchToIf(ast.NodeTransformer):
    """`match s: case <value>|<Class()>|<a | b>|None|_ [if g]: ...` -> the
    equivalent if/elif chain (`==`, `isinstance`, `is`, else).  Patterns
    with sub-patterns, sequences, mappings or captures other than the bare
    wildcard are left alone (a rule then says it cannot decide)."""

    def __init__(self):
        self.n = 0

    def _test(self, pat, subj):
        if isinstance(pat, ast.MatchValue):
            return ast.Compare(left=clone(subj), ops=[ast.Eq()],
                               comparators=[pat.value])
        if isinstance(pat, ast.MatchSingleton):
            return ast.Compare(left=clone(subj), ops=[ast.Is()],
                               comparators=[ast.Constant(value=pat.value)])
        if isinstance(pat, ast.MatchClass) and not pat.patterns and \
                not pat.kwd_patterns:
            return ast.Call(func=ast.Name(id="isinstance", ctx=ast.Load()),
                            args=[clone(subj), pat.cls], keywords=[])
        if isinstance(pat, ast.MatchOr):
            parts = [self._test(p, subj) for p in pat.patterns]
            if any(p is None for p in parts):
                return None
            # Class() | Class() -> isinstance(s, (A, B)); values -> in (...)
            if all(isinstance(p, ast.Call) for p in parts):
                return ast.Call(
                    func=ast.Name(id="isinstance", ctx=ast.Load()),
                    args=[clone(subj), ast.Tuple(
                        elts=[p.args[1] for p in parts], ctx=ast.Load())],
                    keywords=[])
            if all(isinstance(p, ast.Compare) and isinstance(
                    p.ops[0], ast.Eq) for p in parts):
                return ast.Compare(
                    left=clone(subj), ops=[ast.In()],
                    comparators=[ast.Tuple(
                        elts=[p.comparators[0] for p in parts],
                        ctx=ast.Load())])
            return ast.BoolOp(op=ast.Or(), values=parts)
        if isinstance(pat, ast.MatchAs) and pat.pattern is None and \
                pat.name is None:
            return True           # wildcard
        if isinstance(pat, ast.MatchSequence) and isinstance(
                subj, ast.Tuple) and len(pat.patterns) == len(
                subj.elts) and not any(isinstance(p, ast.MatchStar)
                                       for p in pat.patterns):
            parts = []
            for p, e in zip(pat.patterns, subj.elts):
                t = self._test(p, e)
                if t is None:
                    return None
                if t is not True:
                    parts.append(t)
            if not parts:
                return True
            return parts[0] if len(parts) == 1 else ast.BoolOp(
                op=ast.And(), values=parts)
        return None

    def visit_Match(self, node):
        self.generic_visit(node)
        subj = node.subject
        pre = []
        if isinstance(subj, ast.Tuple) and all(isinstance(
                e, (ast.Name, ast.Constant, ast.Attribute))
                for e in subj.elts):
            pass          # a tuple of plain values: compared element-wise
        elif not isinstance(subj, (ast.Name, ast.Attribute, ast.Constant)):
            self.n += 1
            tmp = ast.Name(id=f"_match_subject{self.n}", ctx=ast.Store())
            pre = [ast.copy_location(ast.Assign(targets=[tmp], value=subj),
                                     node)]
            subj = ast.Name(id=tmp.id, ctx=ast.Load())
        tests = []
        for c in node.cases:
            t = self._test(c.pattern, subj)
            if t is None:
                return node
            if c.guard is not None:
                t = c.guard if t is True else ast.BoolOp(
                    op=ast.And(), values=[t, c.guard])
            tests.append(t)
        # build the chain from the end
        chain = []
        for t, c in reversed(list(zip(tests, node.cases))):
            if t is True:
                chain = list(c.body)      # later cases are unreachable
                continue
            chain = [ast.If(test=t, body=list(c.body), orelse=chain)]
        out = pre + (chain or [ast.Pass()])
        for st in out:
            ast.copy_location(st, node)
            ast.fix_missing_locations(st)
        return out


def sink_selected_calls(fn):
    """`if c: f = A` / `else: f = B` (or `f = A if c else B`) followed by
    the one statement that calls `f` (f used nowhere else) -> that statement
    in both branches with A resp. B called directly."""
    done = False
    for par in [fn] + list(_walk_own(fn)):
        for fld in ("body", "orelse", "finalbody"):
            blk = getattr(par, fld, None)
            if not isinstance(blk, list):
                continue
            i = 0
            while i + 1 < len(blk):
                st, nx = blk[i], blk[i + 1]
                sel = None
                if isinstance(st, ast.If) and len(st.body) == 1 and len(
                        st.orelse) == 1 and all(
                        isinstance(s, ast.Assign) and len(s.targets) == 1
                        and isinstance(s.targets[0], ast.Name)
                        and isinstance(s.value, (ast.Name, ast.Attribute))
                        for s in (st.body[0], st.orelse[0])) and \
                        st.body[0].targets[0].id == \
                        st.orelse[0].targets[0].id:
                    sel = (st.body[0].targets[0].id, st.test,
                           st.body[0].value, st.orelse[0].value)
                elif isinstance(st, ast.Assign) and len(st.targets) == 1 \
                        and isinstance(st.targets[0], ast.Name) and \
                        isinstance(st.value, ast.IfExp) and all(
                            isinstance(v, (ast.Name, ast.Attribute))
                            for v in (st.value.body, st.value.orelse)):
                    sel = (st.targets[0].id, st.value.test, st.value.body,
                           st.value.orelse)
                if sel is None or not isinstance(
                        nx, (ast.Return, ast.Assign, ast.Expr)):
                    i += 1
                    continue
                f, test, a, b = sel
                uses = [n for n in ast.walk(fn) if isinstance(n, ast.Name)
                        and n.id == f]
                calls = [c for c in ast.walk(nx) if isinstance(c, ast.Call)
                         and isinstance(c.func, ast.Name) and c.func.id == f]
                n_sel = 2 if isinstance(st, ast.If) else 1
                if len(calls) != 1 or len(uses) != n_sel + 1:
                    i += 1
                    continue
                # the test must not depend on what the statement evaluates
                # before the call (it is evaluated first either way)
                def with_callee(callee):
                    s2 = clone(nx)
                    for c in ast.walk(s2):
                        if isinstance(c, ast.Call) and isinstance(
                                c.func, ast.Name) and c.func.id == f:
                            c.func = clone(callee)
                    return s2
                new = ast.If(test=test, body=[with_callee(a)],
                             orelse=[with_callee(b)])
                ast.copy_location(new, st)
                ast.fix_missing_locations(new)
                blk[i:i + 2] = [new]
                done = True
                i += 1
    return done


def exitstack_enter(fn):
    """`with ExitStack() as S: a = S.enter_context(X); b = S.enter_context(Y);
    BODY` (S used nowhere else) -> `with X as a, Y as b: BODY`"""
    done = False
    for w in [n for n in _walk_own(fn) if isinstance(n, ast.With)]:
        if not (len(w.items) == 1 and isinstance(
                w.items[0].context_expr, ast.Call) and norm(
                w.items[0].context_expr.func) in (
                    "contextlib.ExitStack", "ExitStack")
                and not w.items[0].context_expr.args
                and isinstance(w.items[0].optional_vars, ast.Name)):
            continue
        S = w.items[0].optional_vars.id
        items = []
        k = 0
        for st in w.body:
            v = st.value if isinstance(st, (ast.Assign, ast.Expr)) else None
            if isinstance(v, ast.Call) and isinstance(
                    v.func, ast.Attribute) and isinstance(
                    v.func.value, ast.Name) and v.func.value.id == S and \
                    v.func.attr == "enter_context" and len(v.args) == 1 \
                    and not v.keywords and (isinstance(st, ast.Expr) or (
                        len(st.targets) == 1 and isinstance(
                            st.targets[0], ast.Name))):
                items.append(ast.withitem(
                    context_expr=v.args[0],
                    optional_vars=st.targets[0] if isinstance(
                        st, ast.Assign) else None))
                k += 1
            else:
                break
        if not items or k == len(w.body):
            continue
        uses = [n for n in ast.walk(fn) if isinstance(n, ast.Name)
                and n.id == S]
        if len(uses) != 1 + k:
            continue
        w.items = items
        w.body = w.body[k:]
        ast.fix_missing_locations(w)
        done = True
    return done


def exitstack_rollback(fn):
    """`with contextlib.ExitStack() as S: S.callback(F, *a); BODY;
    S.pop_all()` (S used nowhere else) -> `try: BODY` + `except
    BaseException: F(*a); raise`"""
    done = False
    for par in [fn] + list(_walk_own(fn)):
        for fld in ("body", "orelse", "finalbody"):
            blk = getattr(par, fld, None)
            if not isinstance(blk, list):
                continue
            for i, w in enumerate(blk):
                if not (isinstance(w, ast.With) and len(w.items) == 1
                        and isinstance(w.items[0].context_expr, ast.Call)
                        and norm(w.items[0].context_expr.func) in (
                            "contextlib.ExitStack", "ExitStack")
                        and not w.items[0].context_expr.args
                        and isinstance(w.items[0].optional_vars, ast.Name)
                        and len(w.body) >= 2):
                    continue
                S = w.items[0].optional_vars.id
                first, last = w.body[0], w.body[-1]

                def is_call(st, attr):
                    return isinstance(st, ast.Expr) and isinstance(
                        st.value, ast.Call) and isinstance(
                        st.value.func, ast.Attribute) and isinstance(
                        st.value.func.value, ast.Name) and \
                        st.value.func.value.id == S and \
                        st.value.func.attr == attr
                if not (is_call(first, "callback") and first.value.args
                        and is_call(last, "pop_all")):
                    continue
                uses = [n for n in ast.walk(fn) if isinstance(n, ast.Name)
                        and n.id == S]
                if len(uses) != 3:
                    continue
                body = w.body[1:-1]
                if any(isinstance(n, (ast.Return, ast.Break, ast.Continue))
                       for s_ in body for n in ast.walk(s_)):
                    continue
                cb = first.value
                cleanup = ast.Expr(value=ast.Call(
                    func=cb.args[0], args=cb.args[1:],
                    keywords=cb.keywords))
                handler = ast.ExceptHandler(
                    type=ast.Name(id="BaseException", ctx=ast.Load()),
                    name=None, body=[cleanup, ast.Raise(exc=None,
                                                        cause=None)])
                new = ast.Try(body=body or [ast.Pass()], handlers=[handler],
                              orelse=[], finalbody=[])
                ast.copy_location(new, w)
                ast.fix_missing_locations(new)
                blk[i] = new
                done = True
    return done


def generators_to_lists(tree):
    """A private generator function (module level or method) all of whose
    uses consume it completely (`list(g(..))`, `tuple`, `sorted`, `for`,
    `.extend`, `.join`) becomes a function that returns the list of the
    yielded items; `list(g(..))` becomes `g(..)`.  (Eager instead of lazy
    evaluation of a side-effect free producer; the helper inliner can then
    place the body at the call site.)"""
    gens = {}
    for holder in [tree] + [c for c in tree.body
                            if isinstance(c, ast.ClassDef)]:
        for st in holder.body:
            if not (isinstance(st, ast.FunctionDef) and st.name.startswith(
                    "_") and not st.name.startswith("__")
                    and not st.decorator_list):
                continue
            own = []
            stack = list(st.body)
            while stack:
                n = stack.pop()
                own.append(n)
                for c in ast.iter_child_nodes(n):
                    if not isinstance(c, (ast.FunctionDef, ast.Lambda,
                                          ast.ClassDef)):
                        stack.append(c)
            ys = [n for n in own if isinstance(n, (ast.Yield, ast.YieldFrom))]
            if not ys:
                continue
            # every yield is an expression statement; no `return <value>`
            ok = all(isinstance(n, ast.Expr) for n in own
                     if isinstance(n, ast.Expr) and isinstance(
                         n.value, (ast.Yield, ast.YieldFrom))) and \
                not any(isinstance(n, ast.Return) and n.value is not None
                        for n in own)
            ystm = [n for n in own if isinstance(n, ast.Expr) and isinstance(
                n.value, (ast.Yield, ast.YieldFrom))]
            if not ok or len(ystm) != len(ys):
                continue
            gens[st.name] = (st, holder)
    if not gens:
        return False
    parent = {}
    for p_ in ast.walk(tree):
        for c_ in ast.iter_child_nodes(p_):
            parent[id(c_)] = p_
    changed = False
    for name, (fdef, holder) in gens.items():
        refs = [n for n in ast.walk(tree)
                if (isinstance(n, ast.Name) and n.id == name)
                or (isinstance(n, ast.Attribute) and n.attr == name)]
        calls = []
        ok = True
        for r in refs:
            up = parent.get(id(r))
            if not (isinstance(up, ast.Call) and up.func is r):
                ok = False
                break
            up2 = parent.get(id(up))
            if isinstance(up2, ast.Call) and norm(up2.func) in (
                    "itertools.starmap", "starmap", "map", "enumerate",
                    "zip", "itertools.chain") and up in up2.args and \
                    isinstance(parent.get(id(up2)), ast.Call) and norm(
                        parent[id(up2)].func) in (
                        "list", "tuple", "sorted", "set", "any", "all",
                        "sum", "dict", "max", "min") and \
                    parent[id(up2)].args and parent[id(up2)].args[0] is up2:
                # a lazy adaptor that is itself consumed completely
                calls.append((up, up2))
                continue
            consumed = (
                (isinstance(up2, ast.Call) and norm(up2.func) in (
                    "list", "tuple", "sorted", "set", "any", "all", "sum")
                 and up2.args and up2.args[0] is up)
                or (isinstance(up2, ast.Call) and norm(up2.func) in (
                    "functools.reduce", "reduce", "dict", "max", "min",
                    "collections.OrderedDict", "OrderedDict", "frozenset")
                    and up in up2.args[:2])
                or (isinstance(up2, ast.Call) and isinstance(
                    up2.func, ast.Attribute) and up2.func.attr in (
                        "extend", "join") and up2.args
                    and up2.args[0] is up)
                or (isinstance(up2, (ast.For, ast.comprehension))
                    and up2.iter is up))
            if not consumed:
                ok = False
                break
            calls.append((up, up2))
        if not ok or not calls:
            continue
        acc = "_items"
        taken = {n.id for n in ast.walk(fdef) if isinstance(n, ast.Name)}
        while acc in taken:
            acc += "_"

        class Y(ast.NodeTransformer):
            def visit_FunctionDef(self, node):
                if node is fdef:
                    self.generic_visit(node)
                return node

            def visit_Lambda(self, node):
                return node

            def visit_Expr(self, node):
                v = node.value
                if isinstance(v, ast.Yield):
                    return ast.copy_location(ast.Expr(value=ast.Call(
                        func=ast.Attribute(value=ast.Name(
                            id=acc, ctx=ast.Load()), attr="append",
                            ctx=ast.Load()),
                        args=[v.value or ast.Constant(value=None)],
                        keywords=[])), node)
                if isinstance(v, ast.YieldFrom):
                    return ast.copy_location(ast.AugAssign(
                        target=ast.Name(id=acc, ctx=ast.Store()),
                        op=ast.Add(),
                        value=ast.Call(func=ast.Name(id="list",
                                                     ctx=ast.Load()),
                                       args=[v.value], keywords=[])), node)
                return node

            def visit_Return(self, node):
                return ast.copy_location(ast.Return(value=ast.Name(
                    id=acc, ctx=ast.Load())), node)
        Y().visit(fdef)
        doc = [s_ for s_ in fdef.body[:1] if isinstance(s_, ast.Expr)
               and isinstance(s_.value, ast.Constant)]
        rest = fdef.body[len(doc):]
        fdef.body = doc + [ast.Assign(
            targets=[ast.Name(id=acc, ctx=ast.Store())],
            value=ast.List(elts=[], ctx=ast.Load()))] + rest + [
            ast.Return(value=ast.Name(id=acc, ctx=ast.Load()))]
        ast.fix_missing_locations(fdef)
        from .normalize import _replace_node
        for call, user in calls:
            if isinstance(user, ast.Call) and norm(user.func) == "list":
                _replace_node(tree, user, call)
        changed = True
    return changed


def merge_equal_definitions(fn):
    """Two locals of the same block that are bound once each to the same
    call-free expression (`r1 = c - x` ... `r2 = c - x`), over names that
    are bound once themselves, and that are never edited in place, denote
    equal values: the later one is replaced by the earlier one."""
    stores, mutated = {}, set()
    for n in ast.walk(fn):
        if isinstance(n, ast.Name) and isinstance(n.ctx, (ast.Store,
                                                          ast.Del)):
            stores[n.id] = stores.get(n.id, 0) + 1
        elif isinstance(n, (ast.Subscript, ast.Attribute)) and isinstance(
                n.ctx, (ast.Store, ast.Del)) and isinstance(
                n.value, ast.Name):
            mutated.add(n.value.id)
        elif isinstance(n, ast.AugAssign) and isinstance(n.target, ast.Name):
            mutated.add(n.target.id)
        elif isinstance(n, ast.keyword) and n.arg in ("out", "output") and \
                isinstance(n.value, ast.Name):
            mutated.add(n.value.id)
        elif isinstance(n, ast.arg):
            stores[n.arg] = stores.get(n.arg, 0) + 1
        elif isinstance(n, (ast.Global, ast.Nonlocal, ast.Lambda)) or (
                isinstance(n, ast.FunctionDef) and n is not fn):
            return False
    done = False
    blk = fn.body
    first = {}
    params = {a.arg for a in ast.walk(fn.args) if isinstance(a, ast.arg)}
    defined = set(params)
    i = 0
    while i < len(blk):
        st = blk[i]
        # `y = x`, both bound exactly once (x a parameter or an earlier
        # statement of this block): one object under two names
        if isinstance(st, ast.Assign) and len(st.targets) == 1 and \
                isinstance(st.targets[0], ast.Name) and isinstance(
                st.value, ast.Name) and st.value.id in defined and \
                stores.get(st.value.id) == 1 and stores.get(
                    st.targets[0].id) == 1 and st.targets[0].id != \
                st.value.id and st.targets[0].id not in params:
            y, x = st.targets[0].id, st.value.id
            for n in ast.walk(fn):
                if isinstance(n, ast.Name) and n.id == y:
                    n.id = x
            del blk[i]
            done = True
            continue
        if isinstance(st, ast.Assign) and len(st.targets) == 1 and \
                isinstance(st.targets[0], ast.Name):
            defined.add(st.targets[0].id)
        if isinstance(st, ast.Assign) and len(st.targets) == 1 and \
                isinstance(st.targets[0], ast.Name) and isinstance(
                st.value, (ast.BinOp, ast.Compare, ast.UnaryOp)) and \
                not any(isinstance(x, (ast.Call, ast.NamedExpr, ast.Await,
                                       ast.Yield, ast.Subscript,
                                       ast.Attribute))
                        for x in ast.walk(st.value)):
            nm = st.targets[0].id
            leaves = {x.id for x in ast.walk(st.value)
                      if isinstance(x, ast.Name)}
            if stores.get(nm) == 1 and nm not in mutated and all(
                    stores.get(x, 0) <= 1 and x not in mutated
                    for x in leaves):
                key = norm(st.value)
                if key in first and first[key] != nm:
                    keep = first[key]
                    for x in ast.walk(fn):
                        if isinstance(x, ast.Name) and x.id == nm:
                            x.id = keep
                    del blk[i]
                    done = True
                    # later keys may now coincide
                    first = {norm(s_.value): s_.targets[0].id
                             for s_ in blk[:i]
                             if isinstance(s_, ast.Assign) and len(
                                 s_.targets) == 1 and isinstance(
                                 s_.targets[0], ast.Name)
                             and s_.targets[0].id in first.values()}
                    continue
                first.setdefault(key, nm)
        i += 1
    return done


def collapse_aliases(fn):
    """`y = x` where y is bound nowhere else, and x (a local that is not a
    parameter) is not read again in the statements that follow -> x is
    renamed to y throughout and the alias statement is dropped (from the
    alias on both names denote the same object; before it y has no value)."""
    params = {a.arg for a in fn.args.args + fn.args.kwonlyargs
              + fn.args.posonlyargs}
    if fn.args.vararg:
        params.add(fn.args.vararg.arg)
    if fn.args.kwarg:
        params.add(fn.args.kwarg.arg)
    done = False
    for par in [fn] + list(_walk_own(fn)):
        for fld in ("body", "orelse", "finalbody"):
            blk = getattr(par, fld, None)
            if not isinstance(blk, list):
                continue
            for i, st in enumerate(blk):
                if not (isinstance(st, ast.Assign) and len(st.targets) == 1
                        and isinstance(st.targets[0], ast.Name)
                        and isinstance(st.value, ast.Name)):
                    continue
                y, x = st.targets[0].id, st.value.id
                if x == y or x in params or y in params:
                    continue
                names = [n for n in ast.walk(fn) if isinstance(n, ast.Name)]
                y_stores = [n for n in names if n.id == y and isinstance(
                    n.ctx, (ast.Store, ast.Del))]
                x_stores = [n for n in names if n.id == x and isinstance(
                    n.ctx, ast.Store)]
                if any(isinstance(n, (ast.Global, ast.Nonlocal))
                       for n in ast.walk(fn)):
                    continue
                # `y = x` with x the variable of an enclosing loop and y
                # only used in the statements that follow in this block:
                # y is spelled x
                if len(y_stores) == 1 and len(x_stores) == 1 and any(
                        isinstance(lp_, ast.For) and any(
                            t_ is x_stores[0] for t_ in ast.walk(lp_.target))
                        and any(s_ is st for s_ in ast.walk(lp_))
                        for lp_ in ast.walk(fn)):
                    after = {id(n) for s_ in blk[i + 1:]
                             for n in ast.walk(s_)}
                    if all(id(n) in after or n is y_stores[0]
                           for n in names if n.id == y) and not any(
                            isinstance(n, ast.Name) and n.id in (x, y)
                            for d in ast.walk(fn) if d is not fn
                            and isinstance(d, (ast.FunctionDef, ast.Lambda))
                            for n in ast.walk(d)) and not any(
                            n.id == x and isinstance(n.ctx, ast.Store)
                            and id(n) in after for n in names):
                        for n in names:
                            if n.id == y:
                                n.id = x
                        del blk[i]
                        done = True
                        break
                if len(y_stores) > 1 and len(x_stores) == 1 and (
                        "__h" in x or "__inl" in x):
                    # a generated name built up in this block and handed to
                    # y at the end (y bound elsewhere too, but not mentioned
                    # while x is alive): x is spelled y
                    j = None
                    for k_, s_ in enumerate(blk[:i]):
                        if isinstance(s_, ast.Assign) and len(
                                s_.targets) == 1 and \
                                s_.targets[0] is x_stores[0]:
                            j = k_
                    if j is None:
                        continue
                    span = {id(n) for s_ in blk[j:i] for n in ast.walk(s_)}
                    if any(n.id == y and id(n) in span for n in names):
                        continue
                    # reads of x after the alias: only in the statements of
                    # this block that follow it, before y is bound again
                    tail_ = set()
                    for s_ in blk[i + 1:]:
                        if any(isinstance(n, ast.Name) and n.id == y
                               and isinstance(n.ctx, (ast.Store, ast.Del))
                               for n in ast.walk(s_)):
                            # (a statement that reads x and re-binds y:
                            # the read comes first in `y = f(x)`)
                            if isinstance(s_, ast.Assign) and not any(
                                    isinstance(n, ast.Name) and n.id == y
                                    for n in ast.walk(s_.value)):
                                tail_ |= {id(n) for n in ast.walk(s_.value)}
                            break
                        tail_ |= {id(n) for n in ast.walk(s_)}
                    if any(n.id == x and id(n) not in span
                           and id(n) not in tail_
                           and n is not st.value for n in names):
                        continue
                    if any(isinstance(n, ast.Name) and n.id in (x, y)
                           for d in ast.walk(fn) if d is not fn
                           and isinstance(d, (ast.FunctionDef, ast.Lambda))
                           for n in ast.walk(d)):
                        continue
                    for n in names:
                        if n.id == x:
                            n.id = y
                    del blk[i]
                    done = True
                    break
                if len(y_stores) != 1 or not x_stores:
                    continue
                # nested functions capturing either name: leave alone
                if any(isinstance(n, ast.Name) and n.id in (x, y)
                       for d in ast.walk(fn) if d is not fn and isinstance(
                           d, (ast.FunctionDef, ast.Lambda))
                       for n in ast.walk(d)):
                    continue
                # a generated name aliasing a settled one (every binding of
                # x lies in the statements before the alias, which is a
                # top-level statement of the function): y is x from here on
                # and has no value before -> y is spelled x
                gen_y = "__h" in y or "__e" in y or "__inl" in y
                if gen_y and par is fn and fld == "body":
                    before = {id(n) for s_ in blk[:i]
                              for n in ast.walk(s_)}
                    if all(id(n) in before for n in names if n.id == x
                           and isinstance(n.ctx, (ast.Store, ast.Del))):
                        for n in names:
                            if n.id == y:
                                n.id = x
                        del blk[i]
                        done = True
                        break
                # x must not be read in the statements after the alias
                later = blk[i + 1:]
                if any(isinstance(n, ast.Name) and n.id == x and isinstance(
                        n.ctx, ast.Load) for s_ in later
                        for n in ast.walk(s_)):
                    continue
                # only when the alias is the last thing done with x in its
                # block and x is created in the same block (a built-up list)
                if not any(isinstance(s_, ast.Assign) and any(
                        isinstance(t, ast.Name) and t.id == x
                        for t in s_.targets) for s_ in blk[:i]):
                    # (or: a generated name all of whose bindings lie in
                    # the statements before the alias)
                    before = {id(n) for s_ in blk[:i]
                              for n in ast.walk(s_)}
                    if not (("__h" in x or "__inl" in x) and all(
                            id(n) in before for n in x_stores)):
                        continue
                for n in names:
                    if n.id == x:
                        n.id = y
                del blk[i]
                done = True
                break
    return done


def class_constants(tree):
    """a private class attribute bound once (in the class body) to a literal
    tuple/list of constants and never assigned through an instance ->
    `self.X` / `cls.X` / `Class.X` read as that literal"""
    from .normalize import _literal_coll
    done = False
    for cls in tree.body:
        if not isinstance(cls, ast.ClassDef):
            continue
        consts = {}
        subclassed = any(isinstance(c2, ast.ClassDef) and any(
            norm(b) == cls.name for b in c2.bases) for c2 in tree.body)
        for st in cls.body:
            # a number/string bound once in the class body (no subclass
            # in this module could override it)
            if isinstance(st, ast.Assign) and len(st.targets) == 1 and \
                    isinstance(st.targets[0], ast.Name) and not subclassed \
                    and st.targets[0].id.isupper() and (isinstance(
                        st.value, ast.Constant) and isinstance(
                        st.value.value, (int, float, str))
                        or _closed_number(st.value) is not None) and sum(
                        1 for s_ in cls.body for n in ast.walk(s_)
                        if isinstance(n, ast.Name) and isinstance(
                            n.ctx, ast.Store)
                        and n.id == st.targets[0].id) == 1:
                consts[st.targets[0].id] = st.value
                continue
            if isinstance(st, ast.Assign) and len(st.targets) == 1 and \
                    isinstance(st.targets[0], ast.Name) and (
                        st.targets[0].id.startswith("_") or isinstance(
                            st.value, ast.Tuple)) and isinstance(
                        st.value, (ast.Tuple, ast.List)) and \
                    _literal_coll(st.value) and sum(
                        1 for s_ in cls.body for n in ast.walk(s_)
                        if isinstance(n, ast.Name) and isinstance(
                            n.ctx, ast.Store)
                        and n.id == st.targets[0].id) == 1:
                consts[st.targets[0].id] = st.value
        if not consts:
            continue
        for n in ast.walk(tree):
            if isinstance(n, ast.Attribute) and n.attr in consts and \
                    isinstance(n.ctx, (ast.Store, ast.Del)):
                consts.pop(n.attr, None)
        if not consts:
            continue

        class R(ast.NodeTransformer):
            def visit_Attribute(self, node):
                if isinstance(node.ctx, ast.Load) and node.attr in consts \
                        and isinstance(node.value, ast.Name) and \
                        node.value.id in ("self", "cls", cls.name):
                    return ast.copy_location(clone(consts[node.attr]), node)
                self.generic_visit(node)
                return node
        for m in cls.body:
            if isinstance(m, ast.FunctionDef):
                R().visit(m)
                done = True
    return done


# ---------------------------------------------------------------------------
# value objects: a private helper class whose constructor only stores
# expressions of its arguments and whose instances never leave the function
# that creates them

def _value_class_spec(cls):
    """(params, defaults, [(field, init expr)], {member: FunctionDef},
    {property names}) of an eligible class, else None"""
    if cls.decorator_list or cls.keywords or any(
            norm(b) != "object" for b in cls.bases):
        return None
    init = None
    members, props = {}, set()
    for b in cls.body:
        if isinstance(b, ast.Expr) and isinstance(b.value, ast.Constant):
            continue
        if isinstance(b, ast.Pass):
            continue
        if isinstance(b, ast.Assign) and len(b.targets) == 1 and isinstance(
                b.targets[0], ast.Name) and b.targets[0].id == "__slots__":
            continue
        if isinstance(b, ast.FunctionDef):
            a = b.args
            if a.vararg or a.kwarg or a.posonlyargs or a.kwonlyargs or \
                    not a.args or a.args[0].arg != "self":
                return None
            if b.name == "__init__":
                if b.decorator_list:
                    return None
                init = b
                continue
            if b.name.startswith("__"):
                return None
            decs = [norm(d) for d in b.decorator_list]
            if decs == ["property"]:
                props.add(b.name)
            elif decs:
                return None
            members[b.name] = b
            continue
        return None
    if init is None:
        return None
    fields = []
    init_params = {a.arg for a in init.args.args}
    for st in init.body:
        if isinstance(st, ast.Expr) and isinstance(st.value, ast.Constant):
            continue
        if isinstance(st, ast.Assign) and len(st.targets) == 1 and \
                isinstance(st.targets[0], ast.Attribute) and isinstance(
                st.targets[0].value, ast.Name) and \
                st.targets[0].value.id == "self":
            fields.append((st.targets[0].attr, st.value))
            continue
        # a temporary of the constructor: kept as one more (hidden) field
        if isinstance(st, ast.Assign) and len(st.targets) == 1 and \
                isinstance(st.targets[0], ast.Name) and \
                st.targets[0].id not in init_params:
            tmp = st.targets[0].id
            fields.append(("_tmp_" + tmp, st.value))
            for later in init.body[init.body.index(st) + 1:]:
                for n in ast.walk(later):
                    if isinstance(n, ast.Name) and n.id == tmp and \
                            isinstance(n.ctx, ast.Load):
                        n.id = "__self_tmp__" + tmp
            continue
        return None
    # reads of constructor temporaries -> reads of the hidden field
    class _Tmp(ast.NodeTransformer):
        def visit_Name(self, n):
            if n.id.startswith("__self_tmp__"):
                return ast.copy_location(ast.Attribute(
                    value=ast.Name(id="self", ctx=ast.Load()),
                    attr="_tmp_" + n.id[len("__self_tmp__"):],
                    ctx=ast.Load()), n)
            return n
    fields = [(f, ast.fix_missing_locations(_Tmp().visit(e)))
              for f, e in fields]
    names = [f for f, _ in fields]
    if not fields or len(set(names)) != len(names):
        return None
    # `self` only as self.<field|member> (a field read after its store)
    for holder, later in [(init, None)] + [(m, names) for m in
                                           members.values()]:
        for n in ast.walk(holder):
            if isinstance(n, ast.Name) and n.id == "self":
                par = None
                for p_ in ast.walk(holder):
                    for c_ in ast.iter_child_nodes(p_):
                        if c_ is n:
                            par = p_
                if not (isinstance(par, ast.Attribute) and (
                        par.attr in names or par.attr in members)):
                    return None
                if holder is not init and not isinstance(par.ctx, ast.Load):
                    return None
            if isinstance(n, (ast.Lambda, ast.Yield, ast.YieldFrom,
                              ast.Global, ast.Nonlocal)) or (
                    isinstance(n, ast.FunctionDef) and n is not holder):
                return None
    params = [a.arg for a in init.args.args[1:]]
    defaults = dict(zip(params[len(params) - len(init.args.defaults):],
                        init.args.defaults))
    return params, defaults, fields, members, props


class _SelfToFields(ast.NodeTransformer):
    """self.<field> -> <prefix><field>; self.<member>(...) / self.<prop> ->
    call of the synthesised module-level function"""

    def __init__(self, cname, names, members, props, prefix, field_args):
        self.cname, self.names, self.members = cname, names, members
        self.props, self.prefix, self.field_args = props, prefix, field_args

    def visit_Call(self, node):
        if isinstance(node.func, ast.Attribute) and isinstance(
                node.func.value, ast.Name) and node.func.value.id == "self" \
                and node.func.attr in self.members and \
                node.func.attr not in self.props:
            node.args = [self.visit(a) for a in node.args]
            for k in node.keywords:
                k.value = self.visit(k.value)
            return ast.copy_location(ast.Call(
                func=ast.Name(id=f"_vo_{self.cname.strip('_')}__{node.func.attr}",
                              ctx=ast.Load()),
                args=self.field_args() + node.args,
                keywords=node.keywords), node)
        return self.generic_visit(node)

    def visit_Attribute(self, node):
        if isinstance(node.value, ast.Name) and node.value.id == "self":
            if node.attr in self.names:
                return ast.copy_location(ast.Name(
                    id=self.prefix + node.attr, ctx=node.ctx), node)
            if node.attr in self.props:
                return ast.copy_location(ast.Call(
                    func=ast.Name(id=f"_vo_{self.cname.strip('_')}__{node.attr}",
                                  ctx=ast.Load()),
                    args=self.field_args(), keywords=[]), node)
        return self.generic_visit(node)


def inline_value_objects(tree):
    """`v = _C(a, b)` ... `v.field`, `v.prop`, `v.method(x)`  ->  one local
    per field and calls of module-level functions synthesised from the
    members (which the helper inliner then places at the call site), for a
    private class that only stores expressions of its constructor arguments
    and an instance that is used through its attributes only."""
    specs = {}
    for st in tree.body:
        if isinstance(st, ast.ClassDef) and (
                (st.name.startswith("_") and not st.name.startswith("__"))
                or getattr(st, "_spliced", False)):
            sp = _value_class_spec(st)
            if sp:
                specs[st.name] = (st, sp)
    if not specs:
        return False
    done = False
    synthesised = set()
    for fn in [n for n in ast.walk(tree) if isinstance(n, ast.FunctionDef)]:
        if any(fn in c.body for c, _ in specs.values()):
            continue
        binds = {}
        for n in _walk_own(fn):
            if isinstance(n, ast.Assign) and len(n.targets) == 1 and \
                    isinstance(n.targets[0], ast.Name) and isinstance(
                    n.value, ast.Call) and isinstance(
                    n.value.func, ast.Name) and n.value.func.id in specs:
                binds.setdefault(n.targets[0].id, []).append(n)
        for v, sts in binds.items():
            if len(sts) != 1:
                continue
            st = sts[0]
            cname = st.value.func.id
            cls, (params, defaults, fields, members, props) = specs[cname]
            names = [f for f, _ in fields]
            refs = [n for n in ast.walk(fn) if isinstance(n, ast.Name)
                    and n.id == v]
            attrs = [n for n in ast.walk(fn) if isinstance(n, ast.Attribute)
                     and isinstance(n.value, ast.Name) and n.value.id == v
                     and isinstance(n.ctx, ast.Load)
                     and (n.attr in names or n.attr in members)]
            if len(refs) != len(attrs) + 1 or any(
                    a.arg == v for a in ast.walk(fn)
                    if isinstance(a, ast.arg)):
                continue
            call = st.value
            if any(isinstance(a, ast.Starred) for a in call.args) or any(
                    k.arg is None for k in call.keywords) or len(
                    call.args) > len(params):
                continue
            bound = dict(zip(params, call.args))
            bound.update({k.arg: k.value for k in call.keywords})
            for p_, d_ in defaults.items():
                bound.setdefault(p_, d_)
            if set(bound) != set(params):
                continue
            # plain method uses must be calls
            okm = True
            calls = {}
            for c in ast.walk(fn):
                if isinstance(c, ast.Call) and any(c.func is a for a in attrs):
                    calls[id(c.func)] = c
            closures = {}
            for a in attrs:
                if a.attr in members and a.attr not in props and \
                        id(a) not in calls:
                    # `return v.method`: the bound method as a closure
                    host = [(blk_, k_) for par_ in [fn] + list(_walk_own(fn))
                            for fld_ in ("body", "orelse", "finalbody")
                            for blk_ in [getattr(par_, fld_, None)]
                            if isinstance(blk_, list)
                            for k_, x_ in enumerate(blk_)
                            if isinstance(x_, ast.Return) and x_.value is a]
                    if len(host) == 1 and not any(
                            isinstance(n, ast.Name) and n.id == a.attr
                            for n in ast.walk(fn)):
                        closures[id(a)] = host[0]
                    else:
                        okm = False
            if not okm:
                continue
            prefix = f"{v}__"
            new = []
            subst = {}
            for p_ in params:
                e = bound[p_]
                if isinstance(e, (ast.Name, ast.Constant)):
                    subst[p_] = e
                else:
                    tmp = f"{prefix}arg_{p_}"
                    new.append(ast.Assign(
                        targets=[ast.Name(id=tmp, ctx=ast.Store())], value=e))
                    subst[p_] = ast.Name(id=tmp, ctx=ast.Load())

            def fargs():
                return [ast.Name(id=prefix + f, ctx=ast.Load())
                        for f in names]
            direct = {}
            in_loop = any(isinstance(lp, (ast.For, ast.While)) and any(
                x is st for x in ast.walk(lp)) for lp in ast.walk(fn))
            for f, e in fields:
                e2 = _SelfToFields(cname, names, members, props, prefix,
                                   fargs).visit(clone(e))
                e2 = _SubstNames(subst).visit(e2)
                # a field that is just one of the caller's names, which
                # keeps its value from here on: the name itself
                if isinstance(e, ast.Name) and e.id in params and \
                        isinstance(e2, ast.Name) and not in_loop and \
                        not any(isinstance(n, ast.Name) and n.id == e2.id
                                and isinstance(n.ctx, (ast.Store, ast.Del))
                                and id(n) in _from_here(fn, st)
                                for n in ast.walk(fn)):
                    direct[f] = e2.id
                    continue
                new.append(ast.Assign(
                    targets=[ast.Name(id=prefix + f, ctx=ast.Store())],
                    value=e2))
            if direct:
                _fa = fargs

                def fargs(_fa=_fa):
                    return [ast.Name(id=direct.get(
                        x.id[len(prefix):], x.id), ctx=ast.Load())
                        for x in _fa()]
                for x_ in new:
                    for n in ast.walk(x_):
                        if isinstance(n, ast.Name) and n.id.startswith(
                                prefix) and n.id[len(prefix):] in direct \
                                and isinstance(n.ctx, ast.Load):
                            n.id = direct[n.id[len(prefix):]]
            # uses
            for a in attrs:
                if a.attr in names:
                    _replace_in(fn, a, ast.Name(
                        id=direct.get(a.attr, prefix + a.attr),
                        ctx=ast.Load()))
                elif a.attr in props:
                    synthesised.add((cname, a.attr))
                    _replace_in(fn, a, ast.Call(
                        func=ast.Name(id=f"_vo_{cname.strip('_')}__{a.attr}",
                                      ctx=ast.Load()),
                        args=fargs(), keywords=[]))
                elif id(a) in closures:
                    blk_, _k = closures[id(a)]
                    m = clone(members[a.attr])
                    m.args.args = m.args.args[1:]
                    m.decorator_list = []
                    m.returns = None
                    m.body = [_SelfToFields(
                        cname, names, members, props, prefix,
                        fargs).visit(b) for b in m.body]
                    for n_ in ast.walk(m):
                        if isinstance(n_, ast.Name) and n_.id.startswith(
                                prefix) and n_.id[len(prefix):] in direct:
                            n_.id = direct[n_.id[len(prefix):]]
                    ret_ = [x_ for x_ in blk_ if isinstance(
                        x_, ast.Return) and x_.value is a][0]
                    ast.copy_location(m, ret_)
                    ast.fix_missing_locations(m)
                    blk_.insert(blk_.index(ret_), m)
                    ret_.value = ast.copy_location(
                        ast.Name(id=m.name, ctx=ast.Load()), a)
                    for mm_ in ast.walk(m):
                        if isinstance(mm_, ast.Call) and isinstance(
                                mm_.func, ast.Name) and \
                                mm_.func.id.startswith(
                                    f"_vo_{cname.strip('_')}__"):
                            synthesised.add((cname, mm_.func.id.split(
                                "__", 1)[1]))
                else:
                    c = calls[id(a)]
                    synthesised.add((cname, a.attr))
                    c.func = ast.Name(id=f"_vo_{cname.strip('_')}__{a.attr}",
                                      ctx=ast.Load())
                    c.args = fargs() + c.args
            # the construction
            for par in [fn] + list(_walk_own(fn)):
                for fld in ("body", "orelse", "finalbody"):
                    blk = getattr(par, fld, None)
                    if isinstance(blk, list) and any(x is st for x in blk):
                        i = [k for k, x in enumerate(blk) if x is st][0]
                        for x in new:
                            ast.copy_location(x, st)
                        blk[i:i + 1] = new
            ast.fix_missing_locations(fn)
            done = True
    if not done:
        return False
    # members used by members
    work = list(synthesised)
    while work:
        cname, mname = work.pop()
        cls, (params, defaults, fields, members, props) = specs[cname]
        for n in ast.walk(members[mname]):
            if isinstance(n, ast.Attribute) and isinstance(
                    n.value, ast.Name) and n.value.id == "self" and \
                    n.attr in members and (cname, n.attr) not in synthesised:
                synthesised.add((cname, n.attr))
                work.append((cname, n.attr))
    for cname, mname in sorted(synthesised):
        cls, (params, defaults, fields, members, props) = specs[cname]
        names = [f for f, _ in fields]
        m = clone(members[mname])
        prefix = "self__"

        def fargs():
            return [ast.Name(id=prefix + f, ctx=ast.Load()) for f in names]
        body = [_SelfToFields(cname, names, members, props, prefix,
                              fargs).visit(b) for b in m.body]
        f2 = ast.FunctionDef(
            name=f"_vo_{cname.strip('_')}__{mname}",
            args=ast.arguments(
                posonlyargs=[], args=[ast.arg(arg=prefix + f) for f in names]
                + m.args.args[1:], vararg=None, kwonlyargs=[],
                kw_defaults=[], kwarg=None, defaults=m.args.defaults),
            body=body, decorator_list=[], returns=None, type_comment=None,
            type_params=[])
        ast.copy_location(f2, members[mname])
        ast.fix_missing_locations(f2)
        f2._synth = True
        tree.body.append(f2)
    # a class that is not referred to any more is not part of the program
    dead = set()
    for f_ in ast.walk(tree):
        if isinstance(f_, ast.FunctionDef) and getattr(
                f_, "_inlined_helper", False):
            dead |= {id(n) for n in ast.walk(f_)}
    for cname, (cls, _) in specs.items():
        inside = {id(n) for n in ast.walk(cls)}
        if not any(isinstance(n, ast.Name) and n.id == cname
                   and id(n) not in dead and id(n) not in inside
                   for n in ast.walk(tree)) and not any(
                isinstance(n, ast.Attribute) and n.attr == cname
                and id(n) not in dead for n in ast.walk(tree)):
            tree.body = [b for b in tree.body if b is not cls]
    return True


def _replace_in(root, old, new):
    ast.copy_location(new, old)
    for p_ in ast.walk(root):
        for fname, val in ast.iter_fields(p_):
            if val is old:
                setattr(p_, fname, new)
                return True
            if isinstance(val, list):
                for k, x in enumerate(val):
                    if x is old:
                        val[k] = new
                        return True
    return False


def flatten_private_bases(tree):
    """`class _Base(X): ...` + `class C(_Base): ...` (the private base is
    defined in this module and nothing else refers to it) -> one class C(X)
    holding the members of both.  Overriding members make the pair
    ineligible (a `super().m()` would change its meaning)."""
    done = False
    for _ in range(4):
        classes = {c.name: c for c in tree.body if isinstance(c, ast.ClassDef)}
        hit = None
        for c in classes.values():
            for bi, b in enumerate(c.bases):
                if not (isinstance(b, ast.Name) and b.id in classes):
                    continue
                base = classes[b.id]
                if not ((base.name.startswith("_")
                         and not base.name.startswith("__"))
                        or getattr(base, "_spliced", False)):
                    continue
                if base.decorator_list or base.keywords or c.keywords:
                    continue
                refs = [n for n in ast.walk(tree) if isinstance(n, ast.Name)
                        and n.id == base.name]
                inside = [n for n in ast.walk(base) if isinstance(
                    n, ast.Name) and n.id == base.name]
                # the base-list entry, plus uses inside the base itself
                if len(refs) != 1 + len(inside):
                    continue
                if any(isinstance(n, ast.Attribute) and n.attr == base.name
                       for n in ast.walk(tree)):
                    continue

                def names_of(cl):
                    out = set()
                    for m in cl.body:
                        if isinstance(m, (ast.FunctionDef, ast.ClassDef)):
                            out.add(m.name)
                        elif isinstance(m, ast.Assign):
                            for t in m.targets:
                                if isinstance(t, ast.Name):
                                    out.add(t.id)
                        elif isinstance(m, ast.AnnAssign) and isinstance(
                                m.target, ast.Name):
                            out.add(m.target.id)
                    return out
                common = (names_of(base) & names_of(c)) - {"__slots__",
                                                            "__doc__"}
                if common:
                    continue
                hit = (c, bi, base)
                break
            if hit:
                break
        if not hit:
            break
        c, bi, base = hit
        moved = []
        for m in base.body:
            if isinstance(m, ast.Expr) and isinstance(m.value, ast.Constant):
                continue
            if isinstance(m, ast.Assign) and any(
                    isinstance(t, ast.Name) and t.id == "__slots__"
                    for t in m.targets):
                continue
            if isinstance(m, ast.Pass):
                continue
            for n in ast.walk(m):
                if isinstance(n, ast.Name) and n.id == base.name:
                    n.id = c.name
            moved.append(m)
        doc = [m for m in c.body[:1] if isinstance(m, ast.Expr)
               and isinstance(m.value, ast.Constant)]
        c.body = doc + moved + c.body[len(doc):]
        newb = [x for x in base.bases if norm(x) != "object"]
        c.bases = c.bases[:bi] + newb + c.bases[bi + 1:]
        tree.body = [x for x in tree.body if x is not base]
        done = True
    if done:
        ast.fix_missing_locations(tree)
    return done


def inline_private_properties(tree):
    """A private read-only property whose body is one returned expression
    over `self` (`_gcf_k -> self.fp["gcf_k"]`) is replaced by that expression
    where the class reads it through `self`."""
    done = False
    for cls in [c for c in tree.body if isinstance(c, ast.ClassDef)]:
        props = {}
        setters = set()
        for m in cls.body:
            if not isinstance(m, ast.FunctionDef):
                continue
            decs = [norm(d) for d in m.decorator_list]
            if any(d.endswith((".setter", ".deleter")) for d in decs):
                setters.add(m.name)
            if decs == ["property"] and m.name.startswith("_") and \
                    not m.name.startswith("__") and len(m.args.args) == 1:
                body = [b for b in m.body if not (isinstance(
                    b, ast.Expr) and isinstance(b.value, ast.Constant))]
                if len(body) == 1 and isinstance(body[0], ast.Return) and \
                        body[0].value is not None and not any(
                            isinstance(x, (ast.Lambda, ast.Yield, ast.Await,
                                           ast.NamedExpr))
                            for x in ast.walk(body[0].value)):
                    props[m.name] = (m, body[0].value, m.args.args[0].arg)
        for name in list(props):
            if name in setters:
                del props[name]
        # a private read-only property with a longer body becomes a private
        # method (the helper inliner places it at its uses)
        for m in cls.body:
            if isinstance(m, ast.FunctionDef) and [
                    norm(d) for d in m.decorator_list] == ["property"] and \
                    m.name.startswith("_") and not m.name.startswith("__") \
                    and m.name not in props and m.name not in setters and \
                    len(m.args.args) == 1:
                uses = [x for x in ast.walk(tree) if isinstance(
                    x, ast.Attribute) and x.attr == m.name]
                inside = [x for c_ in cls.body if isinstance(
                    c_, ast.FunctionDef) and c_.args.args
                    for x in ast.walk(c_) if isinstance(x, ast.Attribute)
                    and x.attr == m.name and isinstance(x.ctx, ast.Load)
                    and isinstance(x.value, ast.Name)
                    and x.value.id == c_.args.args[0].arg]
                if not uses or len(uses) != len(inside):
                    continue
                m.decorator_list = []
                for x in inside:
                    _replace_in(tree, x, ast.Call(
                        func=ast.Attribute(value=x.value, attr=x.attr,
                                           ctx=ast.Load()),
                        args=[], keywords=[]))
                done = True
        if not props:
            continue
        for _ in range(3):
            changed = False
            for m in cls.body:
                if not isinstance(m, ast.FunctionDef) or not m.args.args:
                    continue
                me = m.args.args[0].arg
                for par in ast.walk(m):
                    for fname, val in ast.iter_fields(par):
                        items = val if isinstance(val, list) else [val]
                        for k, x in enumerate(items):
                            if isinstance(x, ast.Attribute) and isinstance(
                                    x.ctx, ast.Load) and isinstance(
                                    x.value, ast.Name) and x.value.id == me \
                                    and x.attr in props and props[
                                        x.attr][0] is not m:
                                pm, expr, pself = props[x.attr]
                                e2 = clone(expr)
                                for n in ast.walk(e2):
                                    if isinstance(n, ast.Name) and \
                                            n.id == pself:
                                        n.id = me
                                ast.copy_location(e2, x)
                                if isinstance(val, list):
                                    val[k] = e2
                                else:
                                    setattr(par, fname, e2)
                                changed = True
            if not changed:
                break
            done = True
        # properties nobody reads any more
        for name, (pm, _, _) in props.items():
            if not any(isinstance(n, ast.Attribute) and n.attr == name
                       for n in ast.walk(tree)):
                cls.body = [b for b in cls.body if b is not pm] or [
                    ast.Pass()]
    if done:
        ast.fix_missing_locations(tree)
    return done


def inline_search_helpers(tree):
    """A private function of the form `for t in IT: if C: return t` followed
    by `raise E` (or `return D`), called as `v = helper(args)`, is placed at
    the call site as the search loop itself: `for v in IT: if C: break`
    `else: raise E` (resp. `else: v = D`)."""
    helpers = {}
    for st in tree.body:
        if not (isinstance(st, ast.FunctionDef) and not st.decorator_list and (
                (st.name.startswith("_") and not st.name.startswith("__"))
                or getattr(st, "_spliced", False))):
            continue
        a = st.args
        if a.vararg or a.kwarg or a.kwonlyargs or a.posonlyargs or a.defaults:
            continue
        body = [b for b in st.body if not (isinstance(b, ast.Expr)
                                           and isinstance(b.value,
                                                          ast.Constant))]
        if len(body) != 2 or not isinstance(body[0], ast.For) or \
                body[0].orelse or not isinstance(body[0].target, ast.Name) \
                or len(body[0].body) != 1:
            continue
        lp, tail = body
        inner = lp.body[0]
        if not (isinstance(inner, ast.If) and not inner.orelse and len(
                inner.body) == 1 and isinstance(inner.body[0], ast.Return)
                and isinstance(inner.body[0].value, ast.Name)
                and inner.body[0].value.id == lp.target.id):
            continue
        if not (isinstance(tail, ast.Raise) or (isinstance(
                tail, ast.Return) and tail.value is not None and isinstance(
                tail.value, (ast.Constant, ast.Name)))):
            continue
        helpers[st.name] = (st, lp, inner, tail)
    if not helpers:
        return False
    done = False
    used = set()
    for fn in [n for n in ast.walk(tree) if isinstance(n, ast.FunctionDef)]:
        if fn.name in helpers and fn in tree.body:
            continue
        for par in [fn] + list(_walk_own(fn)):
            for fld in ("body", "orelse", "finalbody"):
                blk = getattr(par, fld, None)
                if not isinstance(blk, list):
                    continue
                for i, st in enumerate(blk):
                    if not (isinstance(st, ast.Assign) and len(
                            st.targets) == 1 and isinstance(
                            st.targets[0], ast.Name) and isinstance(
                            st.value, ast.Call) and isinstance(
                            st.value.func, ast.Name)
                            and st.value.func.id in helpers):
                        continue
                    hfn, lp, inner, tail = helpers[st.value.func.id]
                    call = st.value
                    params = [a.arg for a in hfn.args.args]
                    if call.keywords or len(call.args) != len(params) or \
                            not all(isinstance(a, (ast.Name, ast.Constant))
                                    for a in call.args):
                        continue
                    v = st.targets[0].id
                    if v in params:
                        continue
                    m = dict(zip(params, call.args))
                    m[lp.target.id] = ast.Name(id=v, ctx=ast.Load())
                    test = _SubstNames(m).visit(clone(inner.test))
                    it = _SubstNames(m).visit(clone(lp.iter))
                    if isinstance(tail, ast.Raise):
                        els = [_SubstNames(m).visit(clone(tail))]
                    else:
                        els = [ast.Assign(
                            targets=[ast.Name(id=v, ctx=ast.Store())],
                            value=_SubstNames(m).visit(clone(tail.value)))]
                    new = ast.For(
                        target=ast.Name(id=v, ctx=ast.Store()), iter=it,
                        body=[ast.If(test=test, body=[ast.Break()],
                                     orelse=[])],
                        orelse=els, type_comment=None)
                    ast.copy_location(new, st)
                    ast.fix_missing_locations(new)
                    blk[i] = new
                    used.add(st.value.func.id)
                    done = True
    for name in used:
        if not any(isinstance(n, ast.Name) and n.id == name
                   for n in ast.walk(tree)):
            helpers[name][0]._inlined_helper = True
    return done


def inline_loop_helpers(tree):
    """Private module-level functions that return from inside a loop (which
    the helper inliner leaves alone) are placed at call sites of the two
    forms that keep their control flow intact:
    `return helper(args)` -> the helper's statements, returns unchanged;
    `v = helper(args)` with the helper of the shape `<statements>; <one loop
    whose returns sit directly in it>; raise E | return D` -> the statements,
    the loop with `return X` turned into `v = X; break`, and the tail in the
    loop's `else`."""
    helpers = {}
    for st in tree.body:
        if isinstance(st, ast.FunctionDef) and not st.decorator_list and (
                (st.name.startswith("_") and not st.name.startswith("__"))
                or getattr(st, "_spliced", False)):
            a = st.args
            if a.vararg or a.kwarg or a.posonlyargs:
                continue
            body = [b for b in st.body if not (isinstance(
                b, ast.Expr) and isinstance(b.value, ast.Constant))]
            if not body or any(isinstance(n, (
                    ast.Yield, ast.YieldFrom, ast.Global, ast.Nonlocal,
                    ast.Lambda)) or (isinstance(n, ast.FunctionDef)
                                     and n is not st)
                    for n in ast.walk(st)):
                continue
            if any(isinstance(n, ast.Call) and isinstance(
                    n.func, ast.Name) and n.func.id == st.name
                    for n in ast.walk(st)):
                continue
            in_loop = [r for lp in ast.walk(st) if isinstance(
                lp, (ast.For, ast.While)) for r in ast.walk(lp)
                if isinstance(r, ast.Return)]
            if not in_loop:
                continue      # the ordinary helper inliner handles it
            helpers[st.name] = (st, body)
    if not helpers:
        return False
    counter = [0]

    def instantiate(hfn, body, call):
        a = hfn.args
        params = [x.arg for x in a.args] + [x.arg for x in a.kwonlyargs]
        bound = {}
        if any(isinstance(x, ast.Starred) for x in call.args) or any(
                k.arg is None for k in call.keywords) or len(
                call.args) > len(a.args):
            return None
        for p_, v_ in zip([x.arg for x in a.args], call.args):
            bound[p_] = v_
        for k in call.keywords:
            if k.arg in bound or k.arg not in params:
                return None
            bound[k.arg] = k.value
        defaults = dict(zip([x.arg for x in a.args][len(a.args) - len(
            a.defaults):], a.defaults))
        for x, d in zip(a.kwonlyargs, a.kw_defaults):
            if d is not None:
                defaults[x.arg] = d
        for p_ in params:
            if p_ not in bound:
                if p_ not in defaults:
                    return None
                bound[p_] = defaults[p_]
        counter[0] += 1
        suf = f"__l{counter[0]}"
        stored = {n.id for b in body for n in ast.walk(b)
                  if isinstance(n, ast.Name) and isinstance(
                      n.ctx, (ast.Store, ast.Del))}
        pre = []
        ren = {}
        for p_ in params:
            e = bound[p_]
            if p_ in stored or not isinstance(e, (ast.Name, ast.Constant)):
                pre.append(ast.Assign(
                    targets=[ast.Name(id=p_ + suf, ctx=ast.Store())],
                    value=clone(e)))
                ren[p_] = p_ + suf
        for nm in stored:
            ren.setdefault(nm, nm + suf)
        new = [clone(b) for b in body]
        subst = {p_: bound[p_] for p_ in params if p_ not in ren}
        for b in new:
            for n in ast.walk(b):
                if isinstance(n, ast.Name) and n.id in ren:
                    n.id = ren[n.id]
        new = [_SubstNames(subst).visit(b) for b in new]
        return pre + new

    done = False
    for fn in [n for n in ast.walk(tree) if isinstance(n, ast.FunctionDef)]:
        if fn.name in helpers and any(fn is h[0] for h in helpers.values()):
            continue
        for par in [fn] + list(_walk_own(fn)):
            for fld in ("body", "orelse", "finalbody"):
                blk = getattr(par, fld, None)
                if not isinstance(blk, list):
                    continue
                i = 0
                while i < len(blk):
                    st = blk[i]
                    val = getattr(st, "value", None)
                    if not (isinstance(val, ast.Call) and isinstance(
                            val.func, ast.Name) and val.func.id in helpers):
                        i += 1
                        continue
                    hfn, body = helpers[val.func.id]
                    if isinstance(st, ast.Return) and par is fn and \
                            fld == "body" and i == len(blk) - 1:
                        inst = instantiate(hfn, body, val)
                        if inst is None:
                            i += 1
                            continue
                    elif isinstance(st, ast.Assign) and len(
                            st.targets) == 1 and isinstance(
                            st.targets[0], ast.Name):
                        # <stmts>; loop; tail
                        loops = [k for k, b in enumerate(body) if isinstance(
                            b, (ast.For, ast.While))]
                        endless = len(loops) == 1 and loops[0] == len(
                            body) - 1 and isinstance(
                            body[-1], ast.While) and isinstance(
                            body[-1].test, ast.Constant) and \
                            body[-1].test.value is True
                        if endless:
                            # `while True:` left only through its returns
                            body = body + [ast.copy_location(ast.Raise(
                                exc=ast.Call(func=ast.Name(
                                    id="AssertionError", ctx=ast.Load()),
                                    args=[], keywords=[]), cause=None),
                                body[-1])]
                            ast.fix_missing_locations(body[-1])
                            loops = [len(body) - 2]
                        if len(loops) != 1 or loops[0] != len(body) - 2:
                            i += 1
                            continue
                        lp, tail = body[-2], body[-1]
                        if lp.orelse or any(isinstance(n, ast.Return)
                                            for b in body[:-2]
                                            for n in ast.walk(b)):
                            i += 1
                            continue
                        if not (isinstance(tail, ast.Raise) or isinstance(
                                tail, ast.Return)):
                            i += 1
                            continue
                        # returns/breaks directly in this loop only
                        bad = False
                        for n in ast.walk(lp):
                            if isinstance(n, (ast.For, ast.While)) and \
                                    n is not lp and any(isinstance(
                                        x, (ast.Return, ast.Break))
                                        for x in ast.walk(n)):
                                bad = True
                            if isinstance(n, ast.Break):
                                bad = True
                        if bad:
                            i += 1
                            continue
                        inst = instantiate(hfn, body, val)
                        if inst is None:
                            i += 1
                            continue
                        v = st.targets[0].id
                        lp2, tail2 = inst[-2], inst[-1]

                        def fix(stmts):
                            out = []
                            for s_ in stmts:
                                if isinstance(s_, ast.Return):
                                    out.append(ast.Assign(
                                        targets=[ast.Name(id=v,
                                                          ctx=ast.Store())],
                                        value=s_.value or ast.Constant(
                                            value=None)))
                                    out.append(ast.Break())
                                    continue
                                for f2 in ("body", "orelse", "finalbody"):
                                    b2 = getattr(s_, f2, None)
                                    if isinstance(b2, list) and b2 and \
                                            isinstance(b2[0], ast.stmt):
                                        setattr(s_, f2, fix(b2))
                                if isinstance(s_, ast.Try):
                                    for h_ in s_.handlers:
                                        h_.body = fix(h_.body)
                                out.append(s_)
                            return out
                        lp2.body = fix(lp2.body)
                        if isinstance(tail2, ast.Return):
                            tail2 = ast.Assign(
                                targets=[ast.Name(id=v, ctx=ast.Store())],
                                value=tail2.value or ast.Constant(value=None))
                        lp2.orelse = [] if endless else [tail2]
                        if isinstance(tail2, ast.Assign) and isinstance(
                                tail2.value, ast.Name) and \
                                tail2.value.id == v:
                            lp2.orelse = []        # `v = v`
                        inst = inst[:-1]
                    else:
                        i += 1
                        continue
                    for x in inst:
                        ast.copy_location(x, st)
                        ast.fix_missing_locations(x)
                    blk[i:i + 1] = inst
                    hfn._inlined_helper = True
                    done = True
                    i += len(inst)
    # helpers still called somewhere stay part of the program
    for name, (hfn, _) in helpers.items():
        if getattr(hfn, "_inlined_helper", False):
            dead = {id(n) for n in ast.walk(hfn)}
            if any(isinstance(n, ast.Name) and n.id == name
                   and id(n) not in dead for n in ast.walk(tree)):
                hfn._inlined_helper = False
    return done


def comprehension_calls_to_loops(tree):
    """`v = [helper(..) for t in IT]` where `helper` is a private function
    or method of more than one statement -> `v = []` + `for t in IT:
    v.append(helper(..))`, so that the helper's branches can be placed in the
    loop (statements cannot be placed inside a comprehension)."""
    multi = set()
    for st in tree.body:
        if isinstance(st, ast.FunctionDef) and st.name.startswith("_") and \
                not st.name.startswith("__"):
            body = [b for b in st.body if not (isinstance(
                b, ast.Expr) and isinstance(b.value, ast.Constant))]
            if len(body) > 1:
                multi.add((None, st.name))
        elif isinstance(st, ast.ClassDef):
            for m in st.body:
                if isinstance(m, ast.FunctionDef) and m.name.startswith(
                        "_") and not m.name.startswith("__"):
                    body = [b for b in m.body if not (isinstance(
                        b, ast.Expr) and isinstance(b.value, ast.Constant))]
                    if len(body) > 1:
                        multi.add(("self", m.name))
    if not multi:
        return False
    done = False
    for fn in [n for n in ast.walk(tree) if isinstance(n, ast.FunctionDef)]:
        for par in [fn] + list(_walk_own(fn)):
            for fld in ("body", "orelse", "finalbody"):
                blk = getattr(par, fld, None)
                if not isinstance(blk, list):
                    continue
                i = 0
                while i < len(blk):
                    st = blk[i]
                    i += 1
                    if not (isinstance(st, ast.Assign) and len(
                            st.targets) == 1 and isinstance(
                            st.targets[0], ast.Name) and isinstance(
                            st.value, ast.ListComp) and len(
                            st.value.generators) == 1 and not
                            st.value.generators[0].ifs and not
                            st.value.generators[0].is_async and isinstance(
                                st.value.elt, ast.Call)):
                        continue
                    c = st.value.elt
                    key = None
                    if isinstance(c.func, ast.Name):
                        key = (None, c.func.id)
                    elif isinstance(c.func, ast.Attribute) and isinstance(
                            c.func.value, ast.Name) and \
                            c.func.value.id in ("self", "cls"):
                        key = ("self", c.func.attr)
                    if key not in multi:
                        continue
                    v = st.targets[0].id
                    g = st.value.generators[0]
                    if any(isinstance(n, ast.Name) and n.id == v
                           for n in ast.walk(st.value)):
                        continue
                    init = ast.Assign(
                        targets=[ast.Name(id=v, ctx=ast.Store())],
                        value=ast.List(elts=[], ctx=ast.Load()))
                    loop = ast.For(
                        target=g.target, iter=g.iter,
                        body=[ast.Expr(value=ast.Call(
                            func=ast.Attribute(
                                value=ast.Name(id=v, ctx=ast.Load()),
                                attr="append", ctx=ast.Load()),
                            args=[c], keywords=[]))],
                        orelse=[], type_comment=None)
                    for x in (init, loop):
                        ast.copy_location(x, st)
                        ast.fix_missing_locations(x)
                    blk[i - 1:i] = [init, loop]
                    i += 1
                    done = True
    return done


def predicate_guards(tree):
    """A private predicate written as guards - `if C: return False`,
    `t = <query>`, ..., `return E` - becomes one boolean expression
    (`not C and E[t]`), so that it can stand where it is called (inside
    `and`/`or`, a conditional expression, a comprehension)."""
    done = False
    for holder in [tree] + [c for c in tree.body
                            if isinstance(c, ast.ClassDef)]:
        for st in holder.body:
            if not (isinstance(st, ast.FunctionDef) and st.name.startswith(
                    "_") and not st.name.startswith("__")
                    and not st.decorator_list):
                continue
            body = [b for b in st.body if not (isinstance(
                b, ast.Expr) and isinstance(b.value, ast.Constant))]
            if len(body) < 2 or not isinstance(body[-1], ast.Return) or \
                    body[-1].value is None:
                continue
            ok = True
            for b in body[:-1]:
                if isinstance(b, ast.If) and not b.orelse and len(
                        b.body) == 1 and isinstance(
                        b.body[0], ast.Return) and isinstance(
                        b.body[0].value, ast.Constant) and isinstance(
                        b.body[0].value.value, bool):
                    continue
                if isinstance(b, ast.Assign) and len(b.targets) == 1 and \
                        isinstance(b.targets[0], ast.Name) and not any(
                            isinstance(x, (ast.Lambda, ast.NamedExpr,
                                           ast.Await, ast.Yield))
                            for x in ast.walk(b.value)) and all(
                            (norm(c.func).split(".")[-1] in (
                                "get", "max", "min", "len", "isinstance",
                                "keys", "values", "abs", "index")
                             or norm(c.func).startswith("np."))
                            for c in ast.walk(b.value)
                            if isinstance(c, ast.Call)):
                    continue
                ok = False
                break
            if not ok or not any(isinstance(b, ast.If) for b in body[:-1]):
                continue
            params = {a.arg for a in ast.walk(st.args)
                      if isinstance(a, ast.arg)}
            expr = body[-1].value
            for b in reversed(body[:-1]):
                if isinstance(b, ast.Assign):
                    t = b.targets[0].id
                    if t in params:
                        ok = False
                        break
                    expr = _SubstNames({t: b.value}).visit(clone(expr))
                else:
                    val = b.body[0].value.value
                    if val:
                        expr = ast.BoolOp(op=ast.Or(), values=[b.test, expr])
                    else:
                        expr = ast.BoolOp(op=ast.And(), values=[
                            ast.UnaryOp(op=ast.Not(), operand=b.test), expr])
            if not ok:
                continue
            doc = [b for b in st.body[:1] if isinstance(b, ast.Expr)
                   and isinstance(b.value, ast.Constant)]
            st.body = doc + [ast.copy_location(ast.Return(value=expr),
                                               body[-1])]
            ast.fix_missing_locations(st)
            done = True
    return done


def predicate_loops(tree):
    """A private function `for t in IT: if C: return True` + `return False`
    is `return any(C for t in IT)` (and the all() counterpart): one
    expression, which the helper inliner can place anywhere."""
    done = False
    for holder in [tree] + [c for c in tree.body
                            if isinstance(c, ast.ClassDef)]:
        for st in holder.body:
            if not (isinstance(st, ast.FunctionDef) and st.name.startswith(
                    "_") and not st.name.startswith("__")):
                continue
            body = [b for b in st.body if not (isinstance(
                b, ast.Expr) and isinstance(b.value, ast.Constant))]
            if len(body) != 2 or not isinstance(body[0], ast.For) or \
                    body[0].orelse or len(body[0].body) < 1 or \
                    not isinstance(body[1], ast.Return):
                continue
            lp, tail = body
            inner = lp.body[-1]
            temps = {}
            tmp_ok = True
            for b in lp.body[:-1]:
                if isinstance(b, ast.Assign) and len(b.targets) == 1 and \
                        isinstance(b.targets[0], ast.Name) and not any(
                            isinstance(x, (ast.Lambda, ast.NamedExpr))
                            for x in ast.walk(b.value)):
                    temps[b.targets[0].id] = _SubstNames(temps).visit(
                        clone(b.value))
                else:
                    tmp_ok = False
            if not tmp_ok:
                continue
            if temps and isinstance(inner, ast.If):
                inner = clone(inner)
                inner.test = _SubstNames(temps).visit(inner.test)
            if not (isinstance(inner, ast.If) and not inner.orelse and len(
                    inner.body) == 1 and isinstance(inner.body[0], ast.Return)
                    and isinstance(inner.body[0].value, ast.Constant)
                    and isinstance(tail.value, ast.Constant)
                    and isinstance(inner.body[0].value.value, bool)
                    and isinstance(tail.value.value, bool)
                    and inner.body[0].value.value != tail.value.value):
                continue
            found = inner.body[0].value.value
            test = inner.test if found else ast.UnaryOp(op=ast.Not(),
                                                        operand=inner.test)
            gen = ast.GeneratorExp(elt=test, generators=[ast.comprehension(
                target=lp.target, iter=lp.iter, ifs=[], is_async=0)])
            call = ast.Call(func=ast.Name(id="any" if found else "all",
                                          ctx=ast.Load()),
                            args=[gen], keywords=[])
            doc = [b for b in st.body[:1] if isinstance(b, ast.Expr)
                   and isinstance(b.value, ast.Constant)]
            st.body = doc + [ast.copy_location(ast.Return(value=call), lp)]
            ast.fix_missing_locations(st)
            done = True
    return done


def indexed_tuples(fn):
    """`k = (a, b, c)` (plain names/literals, bound once each) with k only
    ever read as `k[<literal index>]` -> the elements themselves."""
    stores = {}
    for n in ast.walk(fn):
        if isinstance(n, ast.Name) and isinstance(n.ctx, (ast.Store,
                                                          ast.Del)):
            stores[n.id] = stores.get(n.id, 0) + 1
        elif isinstance(n, ast.arg):
            stores[n.arg] = stores.get(n.arg, 0) + 1
    done = False
    for par in [fn] + list(_walk_own(fn)):
        for fld in ("body", "orelse", "finalbody"):
            blk = getattr(par, fld, None)
            if not isinstance(blk, list):
                continue
            for st in list(blk):
                if not (isinstance(st, ast.Assign) and len(st.targets) == 1
                        and isinstance(st.targets[0], ast.Name)
                        and isinstance(st.value, (ast.Tuple, ast.List))
                        and st.value.elts and all(
                            isinstance(e, (ast.Name, ast.Constant))
                            for e in st.value.elts)):
                    continue
                k = st.targets[0].id
                if stores.get(k) != 1:
                    continue
                # the elements keep their value from here on: no store of
                # an element name after this statement (and no enclosing
                # loop that could run an earlier store again)
                enames = {e.id for e in st.value.elts
                          if isinstance(e, ast.Name)}
                here = _from_here(fn, st)
                late = any(isinstance(n, ast.Name) and n.id in enames
                           and isinstance(n.ctx, (ast.Store, ast.Del))
                           and id(n) in here
                           for n in ast.walk(fn))
                in_loop = isinstance(par, (ast.For, ast.While)) or any(
                    isinstance(lp, (ast.For, ast.While)) and any(
                        x is st for x in ast.walk(lp))
                    for lp in ast.walk(fn))
                if late or in_loop:
                    continue
                refs = [n for n in ast.walk(fn) if isinstance(n, ast.Name)
                        and n.id == k and isinstance(n.ctx, ast.Load)]
                subs = [n for n in ast.walk(fn) if isinstance(
                    n, ast.Subscript) and isinstance(n.value, ast.Name)
                    and n.value.id == k and isinstance(n.ctx, ast.Load)
                    and isinstance(n.slice, ast.Constant) and isinstance(
                        n.slice.value, int) and not isinstance(
                        n.slice.value, bool)
                    and -len(st.value.elts) <= n.slice.value < len(
                        st.value.elts)]
                if not refs or len(refs) != len(subs):
                    continue
                if any(isinstance(d, (ast.Lambda, ast.FunctionDef))
                       and d is not fn and any(
                           isinstance(n, ast.Name) and n.id == k
                           for n in ast.walk(d)) for d in ast.walk(fn)):
                    continue
                for sb in subs:
                    _replace_in(fn, sb, clone(st.value.elts[sb.slice.value]))
                blk.remove(st)
                if not blk:
                    blk.append(ast.copy_location(ast.Pass(), st))
                done = True
    if done:
        ast.fix_missing_locations(fn)
    return done


def bound_method_aliases(fn):
    """`add = L.append` (L a local bound once, `add` bound once and only
    ever called) -> `L.append(..)` at the calls."""
    stores = {}
    for n in ast.walk(fn):
        if isinstance(n, ast.Name) and isinstance(n.ctx, (ast.Store,
                                                          ast.Del)):
            stores[n.id] = stores.get(n.id, 0) + 1
    done = False
    for par in [fn] + list(_walk_own(fn)):
        for fld in ("body", "orelse", "finalbody"):
            blk = getattr(par, fld, None)
            if not isinstance(blk, list):
                continue
            for st in list(blk):
                if not (isinstance(st, ast.Assign) and len(st.targets) == 1
                        and isinstance(st.targets[0], ast.Name)
                        and isinstance(st.value, ast.Attribute)
                        and isinstance(st.value.value, ast.Name)
                        and st.value.attr in ("append", "extend", "add",
                                              "update", "write")):
                    continue
                a, L = st.targets[0].id, st.value.value.id
                if stores.get(a) != 1 or stores.get(L, 0) != 1:
                    continue
                refs = [n for n in ast.walk(fn) if isinstance(n, ast.Name)
                        and n.id == a and isinstance(n.ctx, ast.Load)]
                calls = [c for c in ast.walk(fn) if isinstance(c, ast.Call)
                         and isinstance(c.func, ast.Name) and c.func.id == a]
                if not refs or len(refs) != len(calls):
                    continue
                for c in calls:
                    c.func = ast.copy_location(ast.Attribute(
                        value=ast.Name(id=L, ctx=ast.Load()),
                        attr=st.value.attr, ctx=ast.Load()), c.func)
                blk.remove(st)
                done = True
    if done:
        ast.fix_missing_locations(fn)
    return done


def projected_records(fn):
    """A local list that only receives `L.append((a, b, ..))` and is read by
    one comprehension `[x for (.., x, ..) in L]` that picks one position
    -> the appends keep that element only and the comprehension becomes
    `list(L)`."""
    done = False
    lists = {}
    for n in _walk_own(fn):
        if isinstance(n, ast.Assign) and len(n.targets) == 1 and isinstance(
                n.targets[0], ast.Name) and isinstance(
                n.value, ast.List) and not n.value.elts:
            lists.setdefault(n.targets[0].id, []).append(n)
    for L, defs in lists.items():
        if len(defs) != 1:
            continue
        refs = [n for n in ast.walk(fn) if isinstance(n, ast.Name)
                and n.id == L]
        apps = [c for c in ast.walk(fn) if isinstance(c, ast.Call)
                and isinstance(c.func, ast.Attribute) and c.func.attr ==
                "append" and isinstance(c.func.value, ast.Name)
                and c.func.value.id == L and len(c.args) == 1
                and not c.keywords and isinstance(c.args[0], ast.Tuple)]
        comps = [c for c in ast.walk(fn) if isinstance(c, (
            ast.ListComp, ast.GeneratorExp)) and len(c.generators) == 1
            and isinstance(c.generators[0].iter, ast.Name)
            and c.generators[0].iter.id == L and not c.generators[0].ifs]
        if not apps or len(comps) != 1 or len(refs) != 1 + len(apps) + 1:
            continue
        comp = comps[0]
        tg = comp.generators[0].target
        if not (isinstance(tg, ast.Tuple) and all(
                isinstance(e, ast.Name) for e in tg.elts)
                and isinstance(comp.elt, ast.Name)):
            continue
        names = [e.id for e in tg.elts]
        if names.count(comp.elt.id) != 1:
            continue
        k = names.index(comp.elt.id)
        if any(len(c.args[0].elts) != len(names) for c in apps):
            continue
        # the dropped elements must be free of effects
        if any(not isinstance(e, (ast.Constant, ast.Name, ast.JoinedStr))
               for c in apps for i_, e in enumerate(c.args[0].elts)
               if i_ != k):
            continue
        for c in apps:
            c.args[0] = c.args[0].elts[k]
        new = ast.Call(func=ast.Name(id="list", ctx=ast.Load()),
                       args=[ast.Name(id=L, ctx=ast.Load())], keywords=[])
        _replace_in(fn, comp, new)
        done = True
    if done:
        ast.fix_missing_locations(fn)
    return done


def redispatch_loops(tree):
    """`def f(x): while True: if A: return ..; elif B: x = E; ...` (every
    branch returns/raises or only re-binds a parameter) is the loop form of
    the tail recursion `elif B: return f(E)`: written back as the recursion
    (one dispatch chain, as the encoders of this code base are written)."""
    done = False
    for st in tree.body:
        if not isinstance(st, ast.FunctionDef) or st.decorator_list:
            continue
        a = st.args
        if a.vararg or a.kwarg or a.kwonlyargs or a.posonlyargs:
            continue
        body = [b for b in st.body if not (isinstance(
            b, ast.Expr) and isinstance(b.value, ast.Constant))]
        if len(body) != 1 or not isinstance(body[0], ast.While):
            continue
        w = body[0]
        if w.orelse or not (isinstance(w.test, ast.Constant)
                            and w.test.value is True) or len(w.body) != 1 \
                or not isinstance(w.body[0], ast.If):
            continue
        if any(isinstance(n, (ast.Break, ast.Continue)) for n in ast.walk(w)):
            continue
        params = [x.arg for x in a.args]
        ok = True
        rebinds = []

        def leaf(blk):
            nonlocal ok
            if not blk:
                ok = False
                return
            last = blk[-1]
            if isinstance(last, (ast.Return, ast.Raise)):
                return
            if isinstance(last, ast.If) and last.orelse:
                leaf(last.body)
                leaf(last.orelse)
                return
            if len(blk) == 1 and isinstance(last, ast.Assign) and len(
                    last.targets) == 1 and isinstance(
                    last.targets[0], ast.Name) and \
                    last.targets[0].id in params:
                rebinds.append((blk, last))
                return
            ok = False
        leaf(w.body)
        if not ok or not rebinds:
            continue
        for blk, asg in rebinds:
            p_ = asg.targets[0].id
            call = ast.Call(func=ast.Name(id=st.name, ctx=ast.Load()),
                            args=[asg.value if x == p_ else ast.Name(
                                id=x, ctx=ast.Load()) for x in params],
                            keywords=[])
            blk[0] = ast.copy_location(ast.Return(value=call), asg)
        doc = [b for b in st.body[:1] if isinstance(b, ast.Expr)
               and isinstance(b.value, ast.Constant)]
        st.body = doc + w.body
        ast.fix_missing_locations(st)
        done = True
    return done


def forward_flags(fn):
    """`f = False`; <one statement that may set `f = True`>; `if f: g = True`
    (f used nowhere else) -> the statement with `g = True` in place of
    `f = True`; the init and the test are dropped."""
    done = False
    for par in [fn] + list(_walk_own(fn)):
        for fld in ("body", "orelse", "finalbody"):
            blk = getattr(par, fld, None)
            if not isinstance(blk, list):
                continue
            i = 0
            while i + 2 < len(blk):
                a, mid, c = blk[i], blk[i + 1], blk[i + 2]
                i += 1
                if not (isinstance(a, ast.Assign) and len(a.targets) == 1
                        and isinstance(a.targets[0], ast.Name)
                        and isinstance(a.value, ast.Constant)
                        and a.value.value is False):
                    continue
                f = a.targets[0].id
                if not (isinstance(c, ast.If) and isinstance(
                        c.test, ast.Name) and c.test.id == f
                        and not c.orelse and len(c.body) == 1
                        and isinstance(c.body[0], ast.Assign)
                        and len(c.body[0].targets) == 1
                        and isinstance(c.body[0].targets[0], ast.Name)
                        and isinstance(c.body[0].value, ast.Constant)
                        and c.body[0].value.value is True):
                    continue
                g = c.body[0].targets[0].id
                if not isinstance(mid, (ast.For, ast.While, ast.If)):
                    continue
                refs = [n for n in ast.walk(fn) if isinstance(n, ast.Name)
                        and n.id == f]
                sets = [n for n in ast.walk(mid) if isinstance(n, ast.Assign)
                        and len(n.targets) == 1 and isinstance(
                            n.targets[0], ast.Name) and n.targets[0].id == f]
                if not sets or any(not (isinstance(
                        x.value, ast.Constant) and x.value.value is True)
                        for x in sets):
                    continue
                if len(refs) != 2 + len(sets):
                    continue
                if any(isinstance(n, ast.Name) and n.id == g
                       for n in ast.walk(mid)):
                    continue
                for x in sets:
                    x.targets[0].id = g
                blk.remove(a)
                blk.remove(c)
                done = True
                i = 0
    return done


def incremental_dicts(fn):
    """`d = {..}` directly followed by `d["k"] = v` statements (literal
    keys not yet present) -> one display; `d` then used only as `**d` in the
    next statement's call -> the display in place."""
    done = False
    for par in [fn] + list(_walk_own(fn)):
        for fld in ("body", "orelse", "finalbody"):
            blk = getattr(par, fld, None)
            if not isinstance(blk, list):
                continue
            i = 0
            while i < len(blk):
                st = blk[i]
                i += 1
                if not (isinstance(st, ast.Assign) and len(st.targets) == 1
                        and isinstance(st.targets[0], ast.Name)
                        and isinstance(st.value, ast.Dict)
                        and all(k is not None and isinstance(k, ast.Constant)
                                for k in st.value.keys)):
                    continue
                d = st.targets[0].id
                j = i
                while j < len(blk):
                    s2 = blk[j]
                    if isinstance(s2, ast.Assign) and len(
                            s2.targets) == 1 and isinstance(
                            s2.targets[0], ast.Subscript) and isinstance(
                            s2.targets[0].value, ast.Name) and \
                            s2.targets[0].value.id == d and isinstance(
                            s2.targets[0].slice, ast.Constant) and \
                            s2.targets[0].slice.value not in [
                                k.value for k in st.value.keys] and not any(
                                isinstance(n, ast.Name) and n.id == d
                                for n in ast.walk(s2.value)):
                        st.value.keys.append(s2.targets[0].slice)
                        st.value.values.append(s2.value)
                        del blk[j]
                        done = True
                        continue
                    break
                # only use: **d in the next statement
                uses = [n for n in ast.walk(fn) if isinstance(n, ast.Name)
                        and n.id == d]
                if len(uses) == 2 and i < len(blk):
                    nx = blk[i]
                    kws = [(c, k) for c in ast.walk(nx) if isinstance(
                        c, ast.Call) for k in c.keywords
                        if k.arg is None and k.value is uses[1]]
                    if len(kws) == 1 and isinstance(nx, (ast.Expr, ast.Assign,
                                                         ast.Return)) and \
                            nx.value is kws[0][0]:
                        kws[0][1].value = st.value
                        blk.remove(st)
                        i -= 1
                        done = True
    if done:
        ast.fix_missing_locations(fn)
    return done


def inline_record_tables(tree):
    """A module-level list of records `T = [_C(a=.., b=..), ...]` (a private
    class whose constructor stores its arguments under their own names;
    T never re-bound or edited) iterated as `for r in T: BODY` with r only
    read field by field -> BODY once per record with the fields' expressions
    in place (no break/continue/else in the loop)."""
    classes = {}
    for st in tree.body:
        if isinstance(st, ast.ClassDef) and (
                (st.name.startswith("_") and not st.name.startswith("__"))
                or getattr(st, "_spliced", False)):
            sp = _value_class_spec(st)
            if sp and not sp[3] and all(
                    isinstance(e, ast.Name) and e.id == f
                    for f, e in sp[2]) and [f for f, _ in sp[2]] and set(
                    f for f, _ in sp[2]) == set(sp[0]):
                classes[st.name] = sp
    if not classes:
        return False
    tables = {}
    for st in tree.body:
        if isinstance(st, ast.Assign) and len(st.targets) == 1 and \
                isinstance(st.targets[0], ast.Name) and isinstance(
                st.value, (ast.List, ast.Tuple)) and st.value.elts and all(
                isinstance(e, ast.Call) and isinstance(e.func, ast.Name)
                and e.func.id in classes for e in st.value.elts):
            tables[st.targets[0].id] = st
    done = False
    for name, tst in list(tables.items()):
        refs = [n for n in ast.walk(tree) if isinstance(n, ast.Name)
                and n.id == name]
        loops = [lp for lp in ast.walk(tree) if isinstance(lp, ast.For)
                 and isinstance(lp.iter, ast.Name) and lp.iter.id == name]
        if len(refs) != 1 + len(loops) or not loops:
            continue
        records = []
        ok = True
        for e in tst.value.elts:
            params, defaults, fields, _m, _p = classes[e.func.id]
            if any(isinstance(a, ast.Starred) for a in e.args) or any(
                    k.arg is None for k in e.keywords) or len(
                    e.args) > len(params):
                ok = False
                break
            b = dict(zip(params, e.args))
            b.update({k.arg: k.value for k in e.keywords})
            for p_, d_ in defaults.items():
                b.setdefault(p_, d_)
            if set(b) != set(params) or not all(isinstance(
                    v, (ast.Name, ast.Constant, ast.Lambda, ast.Attribute))
                    for v in b.values()):
                ok = False
                break
            records.append(b)
        if not ok:
            continue
        plans = []
        for lp in loops:
            if lp.orelse or not isinstance(lp.target, ast.Name) or any(
                    isinstance(n, (ast.Break, ast.Continue))
                    for n in ast.walk(lp)):
                ok = False
                break
            v = lp.target.id
            uses = [n for b_ in lp.body for n in ast.walk(b_)
                    if isinstance(n, ast.Name) and n.id == v]
            attrs = [n for b_ in lp.body for n in ast.walk(b_)
                     if isinstance(n, ast.Attribute) and isinstance(
                         n.value, ast.Name) and n.value.id == v
                     and isinstance(n.ctx, ast.Load)
                     and n.attr in records[0]]
            if len(uses) != len(attrs):
                ok = False
                break
            plans.append(lp)
        if not ok:
            continue
        for lp in plans:
            v = lp.target.id
            out = []
            for rec in records:
                for b_ in lp.body:
                    nb = clone(b_)

                    class _F(ast.NodeTransformer):
                        def visit_Attribute(self, n):
                            if isinstance(n.value, ast.Name) and \
                                    n.value.id == v and n.attr in rec:
                                return ast.copy_location(clone(rec[n.attr]),
                                                         n)
                            return self.generic_visit(n)
                    out.append(ast.fix_missing_locations(_F().visit(nb)))
            for par in ast.walk(tree):
                for fld in ("body", "orelse", "finalbody"):
                    blk = getattr(par, fld, None)
                    if isinstance(blk, list) and any(x is lp for x in blk):
                        i = [k for k, x in enumerate(blk) if x is lp][0]
                        blk[i:i + 1] = out
        tree.body = [x for x in tree.body if x is not tst]
        done = True
    if done:
        for cname in classes:
            cls = [x for x in tree.body if isinstance(x, ast.ClassDef)
                   and x.name == cname]
            inside = {id(n) for c_ in cls for n in ast.walk(c_)}
            if cls and not any(isinstance(n, ast.Name) and n.id == cname
                               and id(n) not in inside
                               for n in ast.walk(tree)):
                tree.body = [x for x in tree.body if x is not cls[0]]
        ast.fix_missing_locations(tree)
    return done


def singledispatch_to_chain(tree):
    """`@functools.singledispatch def f(x, ..): DEFAULT` plus
    `@f.register(T) def g(x, ..): BODY` (module level, same parameter
    lists up to names) -> one function `f` with an isinstance chain
    (registered types first, in registration order, the default last).
    Only when the registered types are builtin/unrelated names, so that
    the order of the tests cannot matter."""
    disp = {}
    for st in tree.body:
        if isinstance(st, ast.FunctionDef) and any(norm(d) in (
                "functools.singledispatch", "singledispatch")
                for d in st.decorator_list) and len(
                st.decorator_list) == 1 and st.args.args:
            disp[st.name] = (st, [])
    if not disp:
        return False
    regs = []
    for st in tree.body:
        if not isinstance(st, ast.FunctionDef) or not st.decorator_list:
            continue
        owners = set()
        types = []
        ok = True
        for d in st.decorator_list:
            if isinstance(d, ast.Call) and isinstance(
                    d.func, ast.Attribute) and d.func.attr == "register" \
                    and isinstance(d.func.value, ast.Name) and \
                    d.func.value.id in disp and len(d.args) == 1 and \
                    isinstance(d.args[0], (ast.Name, ast.Attribute)):
                owners.add(d.func.value.id)
                types.append(d.args[0])
            else:
                ok = False
        if ok and len(owners) == 1:
            regs.append((owners.pop(), st, types))
    done = False
    for name, (fdef, _) in disp.items():
        mine = [(st, types) for o, st, types in regs if o == name]
        if not mine:
            continue
        params = [a.arg for a in fdef.args.args]
        if any(len(st.args.args) != len(params) or st.args.vararg
               or st.args.kwarg or st.args.kwonlyargs for st, _ in mine):
            continue
        alltypes = [norm(t) for _, ts in mine for t in ts]
        # related types (bool/int, subclasses we cannot see): keep away
        if {"bool", "int"} <= set(alltypes) or len(set(alltypes)) != len(
                alltypes):
            continue
        # other references to the registered functions' own names
        if any(isinstance(n, ast.Name) and n.id == st.name and st.name != "_"
               for st, _ in mine for n in ast.walk(tree)):
            continue
        chain = None
        dflt = [b for b in fdef.body if not (isinstance(
            b, ast.Expr) and isinstance(b.value, ast.Constant))] or [
            ast.Pass()]
        tail = dflt
        for st, types in reversed(mine):
            ren = {a.arg: p_ for a, p_ in zip(st.args.args, params)
                   if a.arg != p_}
            body = [clone(b) for b in st.body if not (isinstance(
                b, ast.Expr) and isinstance(b.value, ast.Constant))] or [
                ast.Pass()]
            if ren:
                for b in body:
                    for n in ast.walk(b):
                        if isinstance(n, ast.Name) and n.id in ren:
                            n.id = ren[n.id]
            tt = types[0] if len(types) == 1 else ast.Tuple(
                elts=list(reversed(types)), ctx=ast.Load())
            test = ast.Call(func=ast.Name(id="isinstance", ctx=ast.Load()),
                            args=[ast.Name(id=params[0], ctx=ast.Load()),
                                  tt], keywords=[])
            tail = [ast.If(test=test, body=body, orelse=tail)]
        doc = [b for b in fdef.body[:1] if isinstance(b, ast.Expr)
               and isinstance(b.value, ast.Constant)]
        fdef.body = doc + tail
        fdef.decorator_list = []
        gone = {id(st) for st, _ in mine}
        tree.body = [b for b in tree.body if id(b) not in gone]
        ast.fix_missing_locations(fdef)
        done = True
    return done


def sentinel_gets(tree):
    """`_S = object()` at module level; in a function `v = D.get(K, _S)`
    with tests `v is _S` / `v is not _S`  ->  tests `K not in D` / `K in D`;
    then either v is read only where the key is present (`D[K]` in place,
    assignment dropped) or `if K not in D: v = E` follows with nothing
    reading v in between (`v = D.get(K, E)` at that place, E an attribute
    chain or name)."""
    sent = set()
    for st in tree.body:
        if isinstance(st, ast.Assign) and len(st.targets) == 1 and \
                isinstance(st.targets[0], ast.Name) and isinstance(
                st.value, ast.Call) and norm(st.value) == "object()":
            sent.add(st.targets[0].id)
    if not sent:
        return False
    done = False
    for fn in [n for n in ast.walk(tree) if isinstance(n, ast.FunctionDef)]:
        gets = []
        for par in [fn] + list(_walk_own(fn)):
            for fld in ("body", "orelse", "finalbody"):
                blk = getattr(par, fld, None)
                if not isinstance(blk, list):
                    continue
                for st in blk:
                    if isinstance(st, ast.Assign) and len(
                            st.targets) == 1 and isinstance(
                            st.targets[0], ast.Name) and isinstance(
                            st.value, ast.Call) and isinstance(
                            st.value.func, ast.Attribute) and \
                            st.value.func.attr == "get" and len(
                            st.value.args) == 2 and isinstance(
                            st.value.args[1], ast.Name) and \
                            st.value.args[1].id in sent and \
                            not st.value.keywords:
                        gets.append((blk, st))
        for blk, st in gets:
            v = st.targets[0].id
            D, K, S = st.value.func.value, st.value.args[0], \
                st.value.args[1].id
            if any(isinstance(x, (ast.Call, ast.NamedExpr, ast.Lambda))
                   and not (isinstance(x, ast.Call) and isinstance(
                       x.func, ast.Attribute) and x.func.attr == "format")
                   for e in (D, K) for x in ast.walk(e)):
                continue
            stores = [n for n in ast.walk(fn) if isinstance(n, ast.Name)
                      and n.id == v and isinstance(n.ctx, ast.Store)]
            # tests on v
            tests = [c for c in ast.walk(fn) if isinstance(c, ast.Compare)
                     and len(c.ops) == 1 and isinstance(
                         c.ops[0], (ast.Is, ast.IsNot))
                     and {norm(c.left), norm(c.comparators[0])} == {v, S}]
            if not tests:
                continue
            for c in tests:
                neg = isinstance(c.ops[0], ast.Is)      # v is S: absent
                new = ast.Compare(left=clone(K),
                                  ops=[ast.NotIn() if neg else ast.In()],
                                  comparators=[clone(D)])
                _replace_in(fn, c, ast.fix_missing_locations(new))
            loads = [n for n in ast.walk(fn) if isinstance(n, ast.Name)
                     and n.id == v and isinstance(n.ctx, ast.Load)]
            if len(stores) == 1:
                sub = ast.Subscript(value=clone(D), slice=clone(K),
                                    ctx=ast.Load())
                for n in loads:
                    _replace_in(fn, n, ast.fix_missing_locations(clone(sub)))
                blk.remove(st)
                if not blk:
                    blk.append(ast.copy_location(ast.Pass(), st))
                done = True
                continue
            # `if K not in D: v = E` later in the same block
            i = blk.index(st)
            for j in range(i + 1, len(blk)):
                s2 = blk[j]
                if isinstance(s2, ast.If) and not s2.orelse and len(
                        s2.body) == 1 and isinstance(
                        s2.body[0], ast.Assign) and norm(
                        s2.body[0].targets[0]) == v and norm(s2.test) == \
                        norm(ast.Compare(left=K, ops=[ast.NotIn()],
                                         comparators=[D])) and isinstance(
                        s2.body[0].value, (ast.Name, ast.Attribute,
                                           ast.Constant)):
                    between = [n for s_ in blk[i + 1:j] for n in ast.walk(s_)
                               if isinstance(n, ast.Name) and n.id == v]
                    if between or len(stores) != 2:
                        break
                    st.value.args[1] = s2.body[0].value
                    blk[j] = st
                    del blk[i]
                    done = True
                    break
                # ... or nested one level down, v read only after it there
                if isinstance(s2, ast.If) and len(stores) >= 2:
                    inner = [x for x in s2.body if isinstance(x, ast.If)
                             and not x.orelse and len(x.body) == 1
                             and isinstance(x.body[0], ast.Assign)
                             and norm(x.body[0].targets[0]) == v
                             and norm(x.test) == norm(ast.Compare(
                                 left=K, ops=[ast.NotIn()],
                                 comparators=[D]))
                             and isinstance(x.body[0].value, (
                                 ast.Name, ast.Attribute, ast.Constant))]
                    outside = [n for s_ in blk[i + 1:] if s_ is not s2
                               for n in ast.walk(s_)
                               if isinstance(n, ast.Name) and n.id == v]
                    before_ = []
                    if len(inner) == 1:
                        k_ = s2.body.index(inner[0])
                        before_ = [n for s_ in s2.body[:k_]
                                   for n in ast.walk(s_)
                                   if isinstance(n, ast.Name) and n.id == v]
                    if len(inner) == 1 and len(stores) == 2 and \
                            not outside and not before_ and not any(
                                isinstance(n, ast.Name) and n.id == v
                                for n in ast.walk(s2.test)) and not any(
                                isinstance(n, ast.Name) and n.id == v
                                for o_ in s2.orelse for n in ast.walk(o_)):
                        st.value.args[1] = inner[0].body[0].value
                        s2.body[k_] = st
                        del blk[i]
                        done = True
                        break
                if any(isinstance(n, ast.Name) and n.id == v
                       for n in ast.walk(s2)):
                    break
            done = True
    if done:
        ast.fix_missing_locations(tree)
    return done


def scalarise_local_dicts(fn):
    """`d = {"a": e1, "b": e2}` bound once, read only as `d["a"]` /
    `d["b"]` (it never leaves the function and is never written) -> one
    local per entry."""
    done = False
    stores = {}
    for n in ast.walk(fn):
        if isinstance(n, ast.Name) and isinstance(n.ctx, (ast.Store,
                                                          ast.Del)):
            stores[n.id] = stores.get(n.id, 0) + 1
    for par in [fn] + list(_walk_own(fn)):
        for fld in ("body", "orelse", "finalbody"):
            blk = getattr(par, fld, None)
            if not isinstance(blk, list):
                continue
            for st in list(blk):
                if not (isinstance(st, ast.Assign) and len(st.targets) == 1
                        and isinstance(st.targets[0], ast.Name)
                        and isinstance(st.value, ast.Dict)
                        and st.value.keys and all(
                            k is not None and isinstance(k, ast.Constant)
                            and isinstance(k.value, str)
                            and k.value.isidentifier()
                            for k in st.value.keys)):
                    continue
                d = st.targets[0].id
                keys = [k.value for k in st.value.keys]
                if stores.get(d) != 1 or len(set(keys)) != len(keys):
                    continue
                refs = [n for n in ast.walk(fn) if isinstance(n, ast.Name)
                        and n.id == d and isinstance(n.ctx, ast.Load)]
                # (entries may be re-bound: `d["a"] = e` with a known key is
                # an assignment of that entry's local)
                subs = [n for n in ast.walk(fn) if isinstance(
                    n, ast.Subscript) and isinstance(n.value, ast.Name)
                    and n.value.id == d and isinstance(
                        n.ctx, (ast.Load, ast.Store))
                    and isinstance(n.slice, ast.Constant)
                    and n.slice.value in keys]
                if not refs or len(refs) != len(subs):
                    continue
                if any(isinstance(x, (ast.Lambda, ast.FunctionDef))
                       and x is not fn and any(
                           isinstance(n, ast.Name) and n.id == d
                           for n in ast.walk(x)) for x in ast.walk(fn)):
                    continue
                taken = {n.id for n in ast.walk(fn)
                         if isinstance(n, ast.Name)} | {
                    a.arg for a in ast.walk(fn) if isinstance(a, ast.arg)}
                names = {}
                for k in keys:
                    nm = f"{d}__{k}"
                    while nm in taken:
                        nm += "_"
                    taken.add(nm)
                    names[k] = nm
                new = [ast.copy_location(ast.Assign(
                    targets=[ast.Name(id=names[k.value], ctx=ast.Store())],
                    value=v), st) for k, v in zip(st.value.keys,
                                                  st.value.values)]
                for sb in subs:
                    _replace_in(fn, sb, ast.Name(
                        id=names[sb.slice.value],
                        ctx=ast.Store() if isinstance(sb.ctx, ast.Store)
                        else ast.Load()))
                i = blk.index(st)
                blk[i:i + 1] = new
                done = True
    if done:
        ast.fix_missing_locations(fn)
    return done


def unused_sentinel_params(tree):
    """A private function's parameter whose default is a module-level
    sentinel (`_UNSET = object()`) and that no call in the module ever
    supplies: the parameter is dropped and the tests `p is _UNSET` /
    `p is not _UNSET` become True / False."""
    sent = set()
    for st in tree.body:
        if isinstance(st, ast.Assign) and len(st.targets) == 1 and \
                isinstance(st.targets[0], ast.Name) and isinstance(
                st.value, ast.Call) and norm(st.value) == "object()":
            sent.add(st.targets[0].id)
    if not sent:
        return False
    done = False
    for fn in [n for n in ast.walk(tree) if isinstance(n, ast.FunctionDef)]:
        if not (fn.name.startswith("_") and not fn.name.startswith("__")):
            continue
        a = fn.args
        cands = []
        pos = a.posonlyargs + a.args
        for p_, d_ in zip(pos[len(pos) - len(a.defaults):], a.defaults):
            if isinstance(d_, ast.Name) and d_.id in sent:
                cands.append((p_, "pos", pos.index(p_)))
        for p_, d_ in zip(a.kwonlyargs, a.kw_defaults):
            if isinstance(d_, ast.Name) and d_.id in sent:
                cands.append((p_, "kw", None))
        if not cands:
            continue
        calls = [c for c in ast.walk(tree) if isinstance(c, ast.Call) and (
            (isinstance(c.func, ast.Name) and c.func.id == fn.name) or
            (isinstance(c.func, ast.Attribute) and c.func.attr == fn.name))]
        other_refs = [n for n in ast.walk(tree) if (
            (isinstance(n, ast.Name) and n.id == fn.name)
            or (isinstance(n, ast.Attribute) and n.attr == fn.name))
            and not any(c.func is n for c in calls)]
        if other_refs or not calls:
            continue
        for p_, kind, idx in cands:
            method = bool(pos) and pos[0].arg in ("self", "cls")
            supplied = False
            for c in calls:
                if any(k.arg == p_.arg or k.arg is None for k in c.keywords):
                    supplied = True
                if any(isinstance(x, ast.Starred) for x in c.args):
                    supplied = True
                if kind == "pos":
                    npos = len(c.args) + (1 if method and isinstance(
                        c.func, ast.Attribute) else 0)
                    if npos > idx:
                        supplied = True
            if supplied:
                continue
            other_loads = [n for n in ast.walk(fn) if isinstance(
                n, ast.Name) and n.id == p_.arg and isinstance(
                    n.ctx, ast.Load) and not any(
                        isinstance(t, ast.Compare) and len(t.ops) == 1
                        and isinstance(t.ops[0], (ast.Is, ast.IsNot))
                        and (t.left is n or t.comparators[0] is n)
                        for t in ast.walk(fn))]
            rebound_ = any(isinstance(n, ast.Name) and n.id == p_.arg
                           and isinstance(n.ctx, (ast.Store, ast.Del))
                           for n in ast.walk(fn))
            if other_loads and not _assigned_before_use(fn, p_.arg) and \
                    rebound_:
                continue
            S = [d_ for q_, d_ in list(zip(
                pos[len(pos) - len(a.defaults):], a.defaults)) + list(zip(
                    a.kwonlyargs, a.kw_defaults)) if q_ is p_][0].id
            for t in [t for t in ast.walk(fn) if isinstance(t, ast.Compare)
                      and len(t.ops) == 1 and isinstance(
                          t.ops[0], (ast.Is, ast.IsNot))
                      and {norm(t.left), norm(t.comparators[0])} == {
                          p_.arg, S}]:
                _replace_in(fn, t, ast.Constant(
                    value=isinstance(t.ops[0], ast.Is)))
            if not rebound_:
                # (never supplied, never re-bound: the parameter *is* the
                # sentinel wherever else it is read)
                for n in other_loads:
                    n.id = S
            if kind == "kw":
                i = a.kwonlyargs.index(p_)
                del a.kwonlyargs[i]
                del a.kw_defaults[i]
            else:
                di = idx - (len(pos) - len(a.defaults))
                del a.defaults[di]
                (a.args if p_ in a.args else a.posonlyargs).remove(p_)
            done = True
    if done:
        ast.fix_missing_locations(tree)
    return done


def _assigned_before_use(fn, name):
    """every read of `name` in fn follows an unconditional-or-sentinel
    assignment (cheap approximation: the first statement mentioning the
    name is `if name is S: name = ...` or an assignment to it)"""
    for st in fn.body:
        if any(isinstance(n, ast.Name) and n.id == name
               for n in ast.walk(st)):
            if isinstance(st, ast.Assign) and any(
                    norm(t) == name for t in st.targets):
                return True
            if isinstance(st, ast.If) and not st.orelse and len(
                    st.body) == 1 and isinstance(
                    st.body[0], ast.Assign) and norm(
                    st.body[0].targets[0]) == name and isinstance(
                    st.test, ast.Compare) and isinstance(
                    st.test.ops[0], ast.Is) and norm(st.test.left) == name:
                return True
            return False
    return True


def chainmap_locals(fn):
    """`m = ChainMap(A, {"k": e, ..})` bound once and read only as
    `m["k"]` -> `A.get("k", e)` (the first mapping wins, the literal one
    supplies the default)."""
    done = False
    for par in [fn] + list(_walk_own(fn)):
        for fld in ("body", "orelse", "finalbody"):
            blk = getattr(par, fld, None)
            if not isinstance(blk, list):
                continue
            for st in list(blk):
                if not (isinstance(st, ast.Assign) and len(st.targets) == 1
                        and isinstance(st.targets[0], ast.Name)
                        and isinstance(st.value, ast.Call)
                        and norm(st.value.func) in (
                            "ChainMap", "collections.ChainMap")
                        and len(st.value.args) == 2
                        and isinstance(st.value.args[0],
                                       (ast.Name, ast.Attribute))
                        and isinstance(st.value.args[1], ast.Dict)
                        and all(k is not None and isinstance(k, ast.Constant)
                                for k in st.value.args[1].keys)):
                    continue
                m = st.targets[0].id
                A, lit = st.value.args
                table = {k.value: v for k, v in zip(lit.keys, lit.values)}
                refs = [n for n in ast.walk(fn) if isinstance(n, ast.Name)
                        and n.id == m]
                subs = [n for n in ast.walk(fn) if isinstance(
                    n, ast.Subscript) and isinstance(n.value, ast.Name)
                    and n.value.id == m and isinstance(n.ctx, ast.Load)
                    and isinstance(n.slice, ast.Constant)
                    and n.slice.value in table]
                if len(refs) != 1 + len(subs) or not subs:
                    continue
                if not all(isinstance(v, (ast.Name, ast.Attribute,
                                          ast.Constant))
                           for v in table.values()):
                    continue
                for sb in subs:
                    _replace_in(fn, sb, ast.Call(
                        func=ast.Attribute(value=clone(A), attr="get",
                                           ctx=ast.Load()),
                        args=[clone(sb.slice), clone(table[sb.slice.value])],
                        keywords=[]))
                blk.remove(st)
                done = True
    if done:
        ast.fix_missing_locations(fn)
    return done


def chain_to_appends(fn):
    """`H = list(itertools.chain(X1, .., Xn))` / `H = X1 + X2` where every
    Xi is a local bound once - just before, in the same block - to a list
    or tuple display or to a list comprehension/generator and used nowhere
    else -> `H = []` followed by the appends/loops that build the parts in
    order (a comprehension becomes a loop with `H.append(..)`, a
    conditional element an if/else of appends)."""
    done = False
    for par in [fn] + list(_walk_own(fn)):
        for fld in ("body", "orelse", "finalbody"):
            blk = getattr(par, fld, None)
            if not isinstance(blk, list):
                continue
            for st in list(blk):
                if not (isinstance(st, ast.Assign) and len(st.targets) == 1
                        and isinstance(st.targets[0], ast.Name)):
                    continue
                v = st.value
                parts = None
                if isinstance(v, ast.Call) and norm(v.func) == "list" and \
                        len(v.args) == 1 and isinstance(
                            v.args[0], ast.Call) and norm(
                            v.args[0].func) in ("itertools.chain", "chain") \
                        and not v.args[0].keywords:
                    parts = list(v.args[0].args)
                elif isinstance(v, ast.BinOp) and isinstance(v.op, ast.Add):
                    parts = []

                    def flat(e):
                        if isinstance(e, ast.BinOp) and isinstance(
                                e.op, ast.Add):
                            flat(e.left)
                            flat(e.right)
                        else:
                            parts.append(e)
                    flat(v)
                if not parts or len(parts) < 2:
                    continue
                H = st.targets[0].id
                i_st = blk.index(st)
                defs = {}
                ok = True
                for p_ in parts:
                    if isinstance(p_, (ast.List, ast.Tuple, ast.ListComp,
                                       ast.GeneratorExp)):
                        continue
                    if not isinstance(p_, ast.Name):
                        ok = False
                        break
                    ds = [s_ for s_ in blk[:i_st] if isinstance(
                        s_, ast.Assign) and len(s_.targets) == 1 and norm(
                        s_.targets[0]) == p_.id]
                    uses = [n for n in ast.walk(fn) if isinstance(
                        n, ast.Name) and n.id == p_.id]
                    if len(ds) != 1 or len(uses) != 2 or not isinstance(
                            ds[0].value, (ast.List, ast.Tuple, ast.ListComp,
                                          ast.GeneratorExp)):
                        ok = False
                        break
                    defs[p_.id] = ds[0]
                if not ok or not any(isinstance(
                        (defs[p_.id].value if isinstance(p_, ast.Name)
                         else p_), (ast.ListComp, ast.GeneratorExp))
                        for p_ in parts):
                    continue
                # nothing but these definitions between the first of them
                # and the combining statement
                if defs:
                    first = min(blk.index(d) for d in defs.values())
                    if any(s_ not in defs.values() and not (
                            isinstance(s_, ast.Assign) and isinstance(
                                s_.value, (ast.Name, ast.Attribute,
                                           ast.Subscript, ast.Constant)))
                            for s_ in blk[first:i_st]):
                        continue

                def app(e):
                    return ast.Expr(value=ast.Call(func=ast.Attribute(
                        value=ast.Name(id=H, ctx=ast.Load()), attr="append",
                        ctx=ast.Load()), args=[e], keywords=[]))

                def emit(e):
                    if isinstance(e, ast.IfExp):
                        return [ast.If(test=e.test, body=emit(e.body),
                                       orelse=emit(e.orelse))]
                    return [app(e)]
                new = [ast.Assign(targets=[ast.Name(id=H, ctx=ast.Store())],
                                  value=ast.List(elts=[], ctx=ast.Load()))]
                bad = False
                for p_ in parts:
                    src = defs[p_.id].value if isinstance(p_, ast.Name) \
                        else p_
                    if isinstance(src, (ast.List, ast.Tuple)):
                        if any(isinstance(e, ast.Starred) for e in src.elts):
                            bad = True
                        new.extend(app(e) for e in src.elts)
                    else:
                        if len(src.generators) != 1 or \
                                src.generators[0].is_async:
                            bad = True
                            break
                        g = src.generators[0]
                        body = emit(src.elt)
                        for c in reversed(g.ifs):
                            body = [ast.If(test=c, body=body, orelse=[])]
                        new.append(ast.For(target=g.target, iter=g.iter,
                                           body=body, orelse=[],
                                           type_comment=None))
                if bad:
                    continue
                for x in new:
                    ast.copy_location(x, st)
                    ast.fix_missing_locations(x)
                for d in defs.values():
                    blk.remove(d)
                i_st = blk.index(st)
                blk[i_st:i_st + 1] = new
                done = True
    return done


def conditional_pipelines(fn):
    """`L = []`, then `if c: L.append(f)` (f a function reference) any number
    of times, then one `for x in L: BODY` -> `if c: BODY[x:=f]` in order; L is
    not used anywhere else.  The tests must be over names BODY cannot
    re-bind (each test is evaluated before any step runs)."""
    done = False
    for par in [fn] + list(_walk_own(fn)):
        for fld in ("body", "orelse", "finalbody"):
            blk = getattr(par, fld, None)
            if not isinstance(blk, list):
                continue
            for i, st in enumerate(blk):
                if not (isinstance(st, ast.Assign) and len(st.targets) == 1
                        and isinstance(st.targets[0], ast.Name)
                        and isinstance(st.value, ast.List)
                        and all(isinstance(e, (ast.Name, ast.Attribute))
                                for e in st.value.elts)):
                    continue
                L = st.targets[0].id
                steps = [(None, e) for e in st.value.elts]
                j = i + 1
                while j < len(blk):
                    s_ = blk[j]
                    cond = None
                    if isinstance(s_, ast.If) and not s_.orelse and len(
                            s_.body) == 1:
                        cond, s_ = s_.test, s_.body[0]
                    if isinstance(s_, ast.Expr) and isinstance(
                            s_.value, ast.Call) and isinstance(
                            s_.value.func, ast.Attribute) and \
                            s_.value.func.attr == "append" and isinstance(
                            s_.value.func.value, ast.Name) and \
                            s_.value.func.value.id == L and len(
                            s_.value.args) == 1 and not s_.value.keywords \
                            and isinstance(s_.value.args[0],
                                           (ast.Name, ast.Attribute)):
                        steps.append((cond, s_.value.args[0]))
                        j += 1
                        continue
                    break
                if j >= len(blk) or not steps or j == i + 1:
                    continue
                loop = blk[j]
                if not (isinstance(loop, ast.For) and not loop.orelse
                        and isinstance(loop.target, ast.Name)
                        and isinstance(loop.iter, ast.Name)
                        and loop.iter.id == L):
                    continue
                uses = [n for n in ast.walk(fn) if isinstance(n, ast.Name)
                        and n.id == L]
                if len(uses) != 2 + (j - i - 1):
                    continue
                x = loop.target.id
                if any(isinstance(n, (ast.Break, ast.Continue))
                       for n in ast.walk(loop)):
                    continue
                if any(isinstance(n, ast.Name) and n.id == x and not
                       isinstance(n.ctx, ast.Load) for b in loop.body
                       for n in ast.walk(b)):
                    continue
                if any(isinstance(n, ast.Name) and n.id == x
                       for s_ in blk[j + 1:] for n in ast.walk(s_)):
                    continue
                bound = {n.id for b in loop.body for n in ast.walk(b)
                         if isinstance(n, ast.Name) and isinstance(
                             n.ctx, (ast.Store, ast.Del))}
                tests_ok = True
                for c, _ in steps:
                    if c is None:
                        continue
                    for n in ast.walk(c):
                        if isinstance(n, (ast.Call, ast.NamedExpr)):
                            tests_ok = False
                        if isinstance(n, ast.Name) and n.id in bound:
                            tests_ok = False
                if not tests_ok:
                    continue
                out = []
                for c, f in steps:
                    body = [clone(b) for b in loop.body]
                    for b in body:
                        for n in ast.walk(b):
                            for fname, val in ast.iter_fields(n):
                                if isinstance(val, ast.Name) and val.id == x:
                                    setattr(n, fname, clone(f))
                                elif isinstance(val, list):
                                    for k, v in enumerate(val):
                                        if isinstance(v, ast.Name) and \
                                                v.id == x:
                                            val[k] = clone(f)
                    if c is None:
                        out.extend(body)
                    else:
                        out.append(ast.copy_location(ast.If(
                            test=clone(c), body=body, orelse=[]), loop))
                blk[i:j + 1] = out
                for o in out:
                    ast.fix_missing_locations(o)
                done = True
                break
    return done


def split_tuple_assigns(fn):
    """`a, b = (e1, e2)` (plain names; no later element reads an earlier
    target) -> `a = e1; b = e2`; `a = a` is dropped."""
    done = False
    for par in [fn] + list(_walk_own(fn)):
        for fld in ("body", "orelse", "finalbody"):
            blk = getattr(par, fld, None)
            if not isinstance(blk, list):
                continue
            i = 0
            while i < len(blk):
                st = blk[i]
                # `t = (a, b)` ... `x, y = t` (t used nowhere else)
                if isinstance(st, ast.Assign) and len(st.targets) == 1 and \
                        isinstance(st.targets[0], ast.Tuple) and isinstance(
                        st.value, ast.Name):
                    t_ = st.value.id
                    ds = [s_ for s_ in blk[:i] if isinstance(s_, ast.Assign)
                          and len(s_.targets) == 1 and norm(
                              s_.targets[0]) == t_]
                    refs = [n for n in ast.walk(fn) if isinstance(
                        n, ast.Name) and n.id == t_]
                    if len(ds) == 1 and len(refs) == 2 and isinstance(
                            ds[0].value, ast.Tuple) and len(
                            ds[0].value.elts) == len(st.targets[0].elts) \
                            and blk.index(ds[0]) == i - 1:
                        st.value = ds[0].value
                        blk.remove(ds[0])
                        i -= 1
                        st = blk[i]
                        done = True
                # `x[i], y.a = (n0, n1)` with plain names on the right (all
                # values exist already; the stores happen left to right)
                if isinstance(st, ast.Assign) and len(st.targets) == 1 and \
                        isinstance(st.targets[0], ast.Tuple) and isinstance(
                        st.value, ast.Tuple) and len(st.targets[0].elts) == \
                        len(st.value.elts) and all(isinstance(
                            v, (ast.Name, ast.Constant))
                            for v in st.value.elts) and not all(isinstance(
                                t, ast.Name) for t in st.targets[0].elts) \
                        and all(isinstance(t, (ast.Name, ast.Subscript,
                                               ast.Attribute))
                                for t in st.targets[0].elts):
                    tnames = {t.id for t in st.targets[0].elts
                              if isinstance(t, ast.Name)}
                    vnames = {v.id for v in st.value.elts
                              if isinstance(v, ast.Name)}
                    tread = {n.id for t in st.targets[0].elts
                             if not isinstance(t, ast.Name)
                             for n in ast.walk(t) if isinstance(n, ast.Name)}
                    if not (tnames & vnames) and not (tnames & tread):
                        out = [ast.copy_location(ast.Assign(
                            targets=[t], value=v), st)
                            for t, v in zip(st.targets[0].elts,
                                            st.value.elts)]
                        blk[i:i + 1] = out
                        i += len(out)
                        done = True
                        continue
                if isinstance(st, ast.Assign) and len(st.targets) == 1 and \
                        isinstance(st.targets[0], ast.Tuple) and isinstance(
                        st.value, ast.Tuple) and len(st.targets[0].elts) == \
                        len(st.value.elts) and all(isinstance(
                            t, ast.Name) for t in st.targets[0].elts) and \
                        not any(isinstance(v, ast.Starred)
                                for v in st.value.elts):
                    ts = [t.id for t in st.targets[0].elts]
                    ok = len(set(ts)) == len(ts)
                    for k, v in enumerate(st.value.elts):
                        reads = {n.id for n in ast.walk(v)
                                 if isinstance(n, ast.Name)}
                        if reads & set(ts[:k]):
                            ok = False
                    if ok:
                        out = []
                        for t, v in zip(st.targets[0].elts, st.value.elts):
                            if isinstance(v, ast.Name) and v.id == t.id:
                                continue
                            out.append(ast.copy_location(ast.Assign(
                                targets=[t], value=v), st))
                        if not out and len(blk) == 1:
                            out = [ast.copy_location(ast.Pass(), st)]
                        blk[i:i + 1] = out
                        i += len(out)
                        done = True
                        continue
                i += 1
    return done


def inline_pure_flags(fn):
    """`flag = <comparison / membership test / boolean combination>` bound
    once, over names that are never re-bound in the function and without
    calls or subscripts -> the test itself at every use of `flag`"""
    params = {a.arg for a in fn.args.args + fn.args.kwonlyargs
              + fn.args.posonlyargs}
    stores = {}
    for n in ast.walk(fn):
        if isinstance(n, ast.Name) and isinstance(n.ctx, (ast.Store,
                                                          ast.Del)):
            stores[n.id] = stores.get(n.id, 0) + 1
    done = False
    for par in [fn] + list(_walk_own(fn)):
        for fld in ("body", "orelse", "finalbody"):
            blk = getattr(par, fld, None)
            if not isinstance(blk, list):
                continue
            for i, st in enumerate(list(blk)):
                if not (isinstance(st, ast.Assign) and len(st.targets) == 1
                        and isinstance(st.targets[0], ast.Name)
                        and isinstance(st.value, (ast.Compare, ast.BoolOp))):
                    continue
                flag = st.targets[0].id
                if stores.get(flag, 0) != 1 or flag in params:
                    continue
                v = st.value
                if any(isinstance(x, (ast.Call, ast.Subscript, ast.Attribute,
                                      ast.NamedExpr, ast.Lambda, ast.Await))
                       for x in ast.walk(v)):
                    continue
                free = {x.id for x in ast.walk(v) if isinstance(x, ast.Name)}
                if any(stores.get(x, 0) > 0 and x not in params
                       for x in free) or any(
                        stores.get(x, 0) > 0 for x in free & params):
                    continue
                uses = [n for n in ast.walk(fn) if isinstance(n, ast.Name)
                        and n.id == flag and isinstance(n.ctx, ast.Load)]
                if not uses or len(uses) > 4:
                    continue
                # uses inside nested functions keep the flag
                if any(isinstance(d, (ast.FunctionDef, ast.Lambda))
                       and d is not fn and any(u is x for u in uses
                                               for x in ast.walk(d))
                       for d in ast.walk(fn)):
                    continue
                from .normalize import _replace_node
                for u in uses:
                    _replace_node(fn, u, ast.copy_location(clone(v), u))
                blk.remove(st)
                done = True
    if done:
        ast.fix_missing_locations(fn)
    return done


def first_match_loops(fn):
    """`for a, b in [(k1, v1), (k2, v2)]: if <test>: BODY; break` (nothing
    else in the loop, no else clause) -> `if <test 1>: BODY 1` `elif <test
    2>: BODY 2`"""
    done = False
    for par in [fn] + list(_walk_own(fn)):
        for fld in ("body", "orelse", "finalbody"):
            blk = getattr(par, fld, None)
            if not isinstance(blk, list):
                continue
            for i, lp in enumerate(blk):
                if not (isinstance(lp, ast.For) and not lp.orelse
                        and isinstance(lp.iter, (ast.List, ast.Tuple))
                        and 1 <= len(lp.iter.elts) <= 8
                        and len(lp.body) == 1
                        and isinstance(lp.body[0], ast.If)
                        and not lp.body[0].orelse
                        and lp.body[0].body
                        and isinstance(lp.body[0].body[-1], ast.Break)):
                    continue
                inner = lp.body[0]
                if any(isinstance(n, (ast.Break, ast.Continue))
                       for s_ in inner.body[:-1] for n in ast.walk(s_)):
                    continue
                chain = []
                ok = True
                for e in reversed(lp.iter.elts):
                    if isinstance(lp.target, ast.Name):
                        m = {lp.target.id: e}
                    elif isinstance(lp.target, (ast.Tuple, ast.List)) and \
                            isinstance(e, (ast.Tuple, ast.List)) and len(
                                e.elts) == len(lp.target.elts) and all(
                                isinstance(t, ast.Name)
                                for t in lp.target.elts):
                        m = {t.id: v for t, v in zip(lp.target.elts, e.elts)}
                    else:
                        ok = False
                        break
                    sub = _SubstNames(m)
                    test = sub.visit(clone(inner.test))
                    body = [sub.visit(clone(s_)) for s_ in inner.body[:-1]] \
                        or [ast.Pass()]
                    chain = [ast.If(test=test, body=body, orelse=chain)]
                if not ok:
                    continue
                # the loop variables must not be used after the loop
                tnames = set(target_names(lp.target))
                if any(isinstance(n, ast.Name) and n.id in tnames
                       for s_ in blk[i + 1:] for n in ast.walk(s_)):
                    continue
                for c in chain:
                    ast.copy_location(c, lp)
                    ast.fix_missing_locations(c)
                blk[i:i + 1] = chain
                done = True
    return done


def specialise_strategies(fn):
    """`if c: f, g = A, B` / `else: f, g = C, D` (single or several function
    references, c a test over names that are never re-bound) and later
    statements of the same block that call f or g -> each such statement is
    split on c with the callee named directly; the selection is dropped."""
    stores = {}
    for n in ast.walk(fn):
        if isinstance(n, ast.Name) and isinstance(n.ctx, (ast.Store,
                                                          ast.Del)):
            stores[n.id] = stores.get(n.id, 0) + 1
    done = False
    for par in [fn] + list(_walk_own(fn)):
        for fld in ("body", "orelse", "finalbody"):
            blk = getattr(par, fld, None)
            if not isinstance(blk, list):
                continue
            for i, st in enumerate(blk):
                if not (isinstance(st, ast.If) and st.body and st.orelse):
                    continue

                def sel(branch):
                    out = {}
                    for s_ in branch:
                        if isinstance(s_, ast.Assign) and len(
                                s_.targets) == 1 and isinstance(
                                s_.targets[0], ast.Tuple) and isinstance(
                                s_.value, ast.Tuple) and len(
                                s_.targets[0].elts) == len(
                                s_.value.elts) and all(
                                isinstance(t, ast.Name) and isinstance(
                                    v, (ast.Name, ast.Attribute))
                                for t, v in zip(s_.targets[0].elts,
                                                s_.value.elts)):
                            for t, v in zip(s_.targets[0].elts,
                                            s_.value.elts):
                                out[t.id] = v
                            continue
                        if not (isinstance(s_, ast.Assign) and len(
                                s_.targets) == 1 and isinstance(
                                s_.targets[0], ast.Name) and isinstance(
                                s_.value, (ast.Name, ast.Attribute))):
                            return None
                        out[s_.targets[0].id] = s_.value
                    return out
                a, b = sel(st.body), sel(st.orelse)
                if not a or not b or set(a) != set(b):
                    continue
                test = st.test
                if any(isinstance(x, (ast.Call, ast.Subscript, ast.NamedExpr))
                       for x in ast.walk(test)):
                    continue
                if any(stores.get(x.id, 0) > 0 for x in ast.walk(test)
                       if isinstance(x, ast.Name)):
                    continue
                names = set(a)
                if any(stores.get(nm, 0) != 2 for nm in names):
                    continue
                later = blk[i + 1:]
                # every use of the names is a direct call in a later
                # statement of this block, one call per statement
                uses = [n for n in ast.walk(fn) if isinstance(n, ast.Name)
                        and n.id in names and isinstance(n.ctx, ast.Load)]
                plan = {}
                ok = True
                for u in uses:
                    host = None
                    for s_ in later:
                        if any(u is x for x in ast.walk(s_)):
                            host = s_
                    if host is None or isinstance(host, (
                            ast.For, ast.While, ast.If, ast.With, ast.Try,
                            ast.FunctionDef)):
                        ok = False
                        break
                    plan.setdefault(id(host), (host, []))[1].append(u)
                if not ok or not plan:
                    continue
                for host, us in plan.values():
                    calls = [c for c in ast.walk(host) if isinstance(
                        c, ast.Call) and any(c.func is u for u in us)]
                    if len(calls) != len(us):
                        ok = False
                if not ok:
                    continue
                for host, us in plan.values():
                    def variant(table):
                        h2 = clone(host)
                        for c in ast.walk(h2):
                            if isinstance(c, ast.Call) and isinstance(
                                    c.func, ast.Name) and c.func.id in names:
                                c.func = clone(table[c.func.id])
                        return h2
                    new = ast.If(test=clone(test), body=[variant(a)],
                                 orelse=[variant(b)])
                    ast.copy_location(new, host)
                    ast.fix_missing_locations(new)
                    blk[blk.index(host)] = new
                blk.remove(st)
                return specialise_strategies(fn) or True
    return done


def unroll_reduce(tree):
    """`functools.reduce(f, TABLE, init)` over a written-out tuple/list (in
    place, or a module-level name bound once and never edited) -> the nested
    calls `f(f(init, T0), T1)`"""
    bound, count = {}, {}
    for st in tree.body:
        if isinstance(st, ast.Assign) and len(st.targets) == 1 and \
                isinstance(st.targets[0], ast.Name):
            count[st.targets[0].id] = count.get(st.targets[0].id, 0) + 1
            bound[st.targets[0].id] = st.value
    stores = {}
    for n in ast.walk(tree):
        if isinstance(n, ast.Name) and isinstance(
                n.ctx, (ast.Store, ast.Del)):
            stores[n.id] = stores.get(n.id, 0) + 1
    done = False
    # a local list display bound once and handed to reduce() by the
    # statement that follows
    for fn in [n for n in ast.walk(tree) if isinstance(n, ast.FunctionDef)]:
        for par in [fn] + list(_walk_own(fn)):
            for fld in ("body", "orelse", "finalbody"):
                blk = getattr(par, fld, None)
                if not isinstance(blk, list):
                    continue
                for i, st in enumerate(list(blk[:-1])):
                    if not (isinstance(st, ast.Assign) and len(
                            st.targets) == 1 and isinstance(
                            st.targets[0], ast.Name) and isinstance(
                            st.value, (ast.List, ast.Tuple))):
                        continue
                    L = st.targets[0].id
                    if sum(1 for n in ast.walk(fn) if isinstance(
                            n, ast.Name) and n.id == L) != 2:
                        continue
                    nx = blk[blk.index(st) + 1]
                    for c in ast.walk(nx):
                        if isinstance(c, ast.Call) and norm(c.func) in (
                                "functools.reduce", "reduce") and len(
                                c.args) in (2, 3) and isinstance(
                                c.args[1], ast.Name) and c.args[1].id == L:
                            c.args[1] = st.value
                            blk.remove(st)
                            done = True
                            break

    def table(e):
        if isinstance(e, ast.Name) and count.get(e.id) == 1 and \
                stores.get(e.id) == 1 and isinstance(
                    bound[e.id], ast.Tuple):
            e = bound[e.id]
        if isinstance(e, (ast.Tuple, ast.List)) and 0 < len(e.elts) <= 16 \
                and not any(isinstance(x, ast.Starred) for x in e.elts):
            if isinstance(e, ast.List) and not isinstance(
                    e.ctx, ast.Load):
                return None
            return e.elts
        return None

    class R(ast.NodeTransformer):
        def visit_Call(self, node):
            nonlocal done
            self.generic_visit(node)
            if norm(node.func) in ("functools.reduce", "reduce") and \
                    len(node.args) in (2, 3) and not node.keywords and \
                    isinstance(node.args[0], (ast.Name, ast.Attribute)):
                elts = table(node.args[1])
                if elts is None:
                    return node
                elts = [clone(x) for x in elts]
                if len(node.args) == 3:
                    acc = node.args[2]
                else:
                    acc, elts = elts[0], elts[1:]
                for x in elts:
                    acc = ast.Call(func=clone(node.args[0]),
                                   args=[acc, x], keywords=[])
                done = True
                return ast.copy_location(acc, node)
            return node
    R().visit(tree)
    if done:
        ast.fix_missing_locations(tree)
    return done


def lift_local_defs(tree):
    """lambda lifting: a nested multi-statement `def h(a): ...` that is only
    called directly from its enclosing function and captures only names the
    enclosing function binds at most once -> a private module-level function
    taking the captured names as further parameters (the helper inliner
    then sees an ordinary private helper)"""
    changed = False
    taken = {n.name for n in ast.walk(tree) if isinstance(
        n, (ast.FunctionDef, ast.ClassDef))} | {
        n.id for n in ast.walk(tree) if isinstance(n, ast.Name)}
    hosts = []
    for st in tree.body:
        if isinstance(st, ast.FunctionDef):
            hosts.append(st)
        elif isinstance(st, ast.ClassDef):
            hosts += [x for x in st.body if isinstance(x, ast.FunctionDef)]
    new_defs = []
    for fn in hosts:
        for d in list(fn.body):
            if not isinstance(d, ast.FunctionDef) or d.decorator_list or \
                    getattr(d, "_from_closure_form", False):
                continue
            a = d.args
            if a.vararg or a.kwarg or a.posonlyargs or a.kwonlyargs or \
                    a.defaults:
                continue
            if _single_return(d) is not None:
                continue
            inner = list(ast.walk(d))
            if any(isinstance(n, (ast.Nonlocal, ast.Global, ast.Yield,
                                  ast.YieldFrom, ast.Await, ast.ClassDef))
                   or (isinstance(n, ast.FunctionDef) and n is not d)
                   for n in inner):
                continue
            if sum(1 for x in fn.body if isinstance(x, ast.FunctionDef)
                   and x.name == d.name) != 1:
                continue
            inner_ids = {id(n) for n in inner}
            uses = [n for n in ast.walk(fn) if isinstance(n, ast.Name)
                    and n.id == d.name and id(n) not in inner_ids]
            calls = [n for n in ast.walk(fn) if isinstance(n, ast.Call)
                     and isinstance(n.func, ast.Name)
                     and n.func.id == d.name and id(n) not in inner_ids]
            if any(isinstance(n, ast.Name) and n.id == d.name
                   for n in inner):
                continue    # recursive
            if not calls or len(uses) != len(calls):
                continue
            # calls from other nested scopes are not rewritten
            other = set()
            for o in ast.walk(fn):
                if o is not fn and o is not d and isinstance(o, (
                        ast.FunctionDef, ast.Lambda, ast.ListComp,
                        ast.SetComp, ast.DictComp, ast.GeneratorExp)):
                    other |= {id(x) for x in ast.walk(o)}
            if any(id(c) in other for c in calls):
                continue
            if any(c.keywords or len(c.args) != len(a.args) or any(
                    isinstance(x, ast.Starred) for x in c.args)
                    for c in calls):
                continue
            params = {p.arg for p in a.args}
            d_local = params | {n.id for n in inner if isinstance(
                n, ast.Name) and isinstance(n.ctx, (ast.Store, ast.Del))}
            fa = fn.args
            fn_params = [p.arg for p in fa.posonlyargs + fa.args
                         + fa.kwonlyargs] + [
                x.arg for x in (fa.vararg, fa.kwarg) if x]
            stores = {}
            for n in ast.walk(fn):
                if id(n) in inner_ids:
                    continue
                if isinstance(n, ast.Name) and isinstance(
                        n.ctx, (ast.Store, ast.Del)):
                    stores[n.id] = stores.get(n.id, 0) + 1
                elif isinstance(n, (ast.FunctionDef, ast.ClassDef)) and \
                        n is not fn:
                    stores[n.name] = stores.get(n.name, 0) + 2
            fn_local = set(fn_params) | set(stores)
            free = []
            for n in inner:
                if isinstance(n, ast.Name) and isinstance(
                        n.ctx, ast.Load) and n.id not in d_local and \
                        n.id in fn_local and n.id not in free:
                    free.append(n.id)
            if any(stores.get(f, 0) > (0 if f in fn_params else 1)
                   for f in free):
                continue
            name = f"_{fn.name.lstrip('_')}__{d.name}"
            if name in taken:
                continue
            taken.add(name)
            nd = clone(d)
            nd.name = name
            nd.args.args = nd.args.args + [ast.arg(arg=f) for f in free]
            nd._spliced = True
            nd._lifted = True
            for c in calls:
                c.func = ast.copy_location(ast.Name(id=name, ctx=ast.Load()),
                                           c.func)
                c.args = c.args + [ast.Name(id=f, ctx=ast.Load())
                                   for f in free]
            fn.body = [x for x in fn.body if x is not d] or [ast.Pass()]
            new_defs.append(nd)
            changed = True
    if changed:
        tree.body = tree.body + new_defs
        ast.fix_missing_locations(tree)
    return changed


def propagate_local_constants(fn, only_generated=False):
    """a local bound exactly once, to a number/string/None literal, a closed
    arithmetic expression or a dotted function of an imported module
    (`operator.sub`) -> the value at its reads (every read sees that value
    or fails either way)"""
    stores = {}
    nodes = list(ast.walk(fn))
    for n in nodes:
        if isinstance(n, ast.Name) and isinstance(
                n.ctx, (ast.Store, ast.Del)):
            stores[n.id] = stores.get(n.id, 0) + 1
        elif isinstance(n, (ast.Global, ast.Nonlocal)):
            for x in n.names:
                stores[x] = stores.get(x, 0) + 2
        elif isinstance(n, (ast.FunctionDef, ast.ClassDef)) and n is not fn:
            stores[n.name] = stores.get(n.name, 0) + 2
        elif isinstance(n, ast.arg):
            stores[n.arg] = stores.get(n.arg, 0) + 2
    vals = {}
    defs = {}
    for par in [fn] + list(_walk_own(fn)):
        for fld in ("body", "orelse", "finalbody"):
            blk = getattr(par, fld, None)
            if not isinstance(blk, list):
                continue
            for st in blk:
                if isinstance(st, ast.Assign) and len(st.targets) == 1 and \
                        isinstance(st.targets[0], ast.Name) and \
                        stores.get(st.targets[0].id) == 1:
                    nm = st.targets[0].id
                    if only_generated and "__h" not in nm and \
                            "__inl" not in nm:
                        continue
                    v = st.value
                    ok = False
                    if isinstance(v, ast.Constant) and (
                            v.value is None or isinstance(
                                v.value, (int, float, str, bool))):
                        ok = True
                    elif _closed_number(v) is not None:
                        ok = True
                    elif isinstance(v, ast.Attribute) and isinstance(
                            v.value, ast.Name) and v.value.id in (
                            "operator", "math") and \
                            v.value.id not in stores:
                        ok = True
                    if ok:
                        vals[nm] = v
                        defs[nm] = (blk, st)
    if not vals:
        return False
    changed = False

    class S(ast.NodeTransformer):
        def visit_Name(self, node):
            nonlocal changed
            if isinstance(node.ctx, ast.Load) and node.id in vals:
                changed = True
                return ast.copy_location(clone(vals[node.id]), node)
            return node
    S().visit(fn)
    if changed:
        for nm, (blk, st) in defs.items():
            if st in blk and len(blk) > 1:
                blk.remove(st)
            elif st in blk:
                blk[blk.index(st)] = ast.copy_location(ast.Pass(), st)
        ast.fix_missing_locations(fn)
    return changed


def dissolve_namespace_classes(tree):
    """a private class that is only a namespace (no bases, no instances:
    class-level constants, static methods and class methods, always reached
    as `_C.member` / `cls.member`) -> module-level constants and private
    functions"""
    changed = False
    for cls in list(tree.body):
        if not isinstance(cls, ast.ClassDef) or not cls.name.startswith(
                "_") or cls.name.startswith("__") or cls.keywords or \
                cls.decorator_list or any(
                    norm(b) != "object" for b in cls.bases):
            continue
        members = {}
        ok = True
        for st in cls.body:
            if _doc(st) or isinstance(st, ast.Pass):
                continue
            if isinstance(st, ast.Assign) and len(st.targets) == 1 and \
                    isinstance(st.targets[0], ast.Name):
                members[st.targets[0].id] = ("const", st)
            elif isinstance(st, ast.FunctionDef) and len(
                    st.decorator_list) == 1 and norm(
                    st.decorator_list[0]) in ("staticmethod",
                                              "classmethod") and \
                    not st.name.startswith("__"):
                kind = norm(st.decorator_list[0])
                if kind == "classmethod" and (
                        not st.args.args or st.args.posonlyargs):
                    ok = False
                members[st.name] = (kind, st)
            else:
                ok = False
        if not ok or not members:
            continue
        # class-level constants must not read other members by bare name
        for nm, (kind, st) in members.items():
            if kind == "const" and any(
                    isinstance(n, ast.Name) and n.id in members
                    for n in ast.walk(st.value)):
                ok = False
        # every mention of the class is `_C.<member>` (read)
        inside = {id(n) for n in ast.walk(cls)}
        parent_attr = {}
        for n in ast.walk(tree):
            if isinstance(n, ast.Attribute) and isinstance(
                    n.value, ast.Name):
                parent_attr[id(n.value)] = n
        for n in ast.walk(tree):
            if isinstance(n, ast.Name) and n.id == cls.name:
                a = parent_attr.get(id(n))
                if a is None or a.attr not in members or not isinstance(
                        a.ctx, ast.Load):
                    ok = False
        # `cls` inside class methods: only `cls.<member>` reads
        for nm, (kind, st) in members.items():
            if kind != "classmethod":
                continue
            c = st.args.args[0].arg
            for n in ast.walk(st):
                if isinstance(n, ast.Name) and n.id == c:
                    a = parent_attr.get(id(n))
                    if a is None or a.attr not in members or \
                            not isinstance(a.ctx, ast.Load):
                        ok = False
        taken = {n.id for n in ast.walk(tree) if isinstance(n, ast.Name)} | {
            n.name for n in ast.walk(tree) if isinstance(
                n, (ast.FunctionDef, ast.ClassDef))}
        new = {nm: f"{cls.name}__{nm}" for nm in members}
        if not ok or any(v in taken for v in new.values()):
            continue
        out = []
        for nm, (kind, st) in members.items():
            if kind == "const":
                x = ast.Assign(targets=[ast.Name(id=new[nm],
                                                 ctx=ast.Store())],
                               value=st.value)
                out.append(ast.copy_location(x, st))
            else:
                st.decorator_list = []
                if kind == "classmethod":
                    c = st.args.args[0].arg
                    st.args.args = st.args.args[1:]

                    class C(ast.NodeTransformer):
                        def visit_Attribute(self, node):
                            self.generic_visit(node)
                            if isinstance(node.value, ast.Name) and \
                                    node.value.id == c:
                                return ast.copy_location(ast.Name(
                                    id=new[node.attr], ctx=ast.Load()), node)
                            return node
                    C().visit(st)
                st.name = new[nm]
                st._spliced = True
                out.append(st)

        class T(ast.NodeTransformer):
            def visit_Attribute(self, node):
                self.generic_visit(node)
                if isinstance(node.value, ast.Name) and \
                        node.value.id == cls.name:
                    return ast.copy_location(ast.Name(
                        id=new[node.attr], ctx=ast.Load()), node)
                return node
        i = tree.body.index(cls)
        tree.body[i:i + 1] = out
        T().visit(tree)
        changed = True
    if changed:
        ast.fix_missing_locations(tree)
    return changed


def scalarise_local_tuples(fn):
    """`k = (e0, e1, e2)` (bound once, outside loops) that is only read as
    `k[<literal index>]` or unpacked whole (`a, b, c = k`) -> one local per
    element (`k__e0 = e0` ...), the reads name the element locals"""
    stores = {}
    for n in ast.walk(fn):
        if isinstance(n, ast.Name) and isinstance(n.ctx, (ast.Store,
                                                          ast.Del)):
            stores[n.id] = stores.get(n.id, 0) + 1
        elif isinstance(n, ast.arg):
            stores[n.arg] = stores.get(n.arg, 0) + 1
    done = False
    for par in [fn] + list(_walk_own(fn)):
        for fld in ("body", "orelse", "finalbody"):
            blk = getattr(par, fld, None)
            if not isinstance(blk, list):
                continue
            for st in list(blk):
                if not (isinstance(st, ast.Assign) and len(st.targets) == 1
                        and isinstance(st.targets[0], ast.Name)
                        and isinstance(st.value, (ast.Tuple, ast.List))
                        and len(st.value.elts) >= 2 and not any(
                            isinstance(e, ast.Starred)
                            for e in st.value.elts)):
                    continue
                k = st.targets[0].id
                if stores.get(k) != 1:
                    continue
                in_loop_ = [lp for lp in ast.walk(fn) if lp is not fn
                            and isinstance(lp, (ast.For, ast.While,
                                                ast.AsyncFor))
                            and any(x is st for x in ast.walk(lp))]
                if in_loop_:
                    # inside a loop: only when every use follows in the
                    # same block (bound afresh in each pass)
                    after_ = {id(n) for s_ in blk[blk.index(st) + 1:]
                              for n in ast.walk(s_)}
                    if not all(id(n) in after_ for n in ast.walk(fn)
                               if isinstance(n, ast.Name) and n.id == k
                               and isinstance(n.ctx, ast.Load)):
                        continue
                n_ = len(st.value.elts)
                refs = [n for n in ast.walk(fn) if isinstance(n, ast.Name)
                        and n.id == k and isinstance(n.ctx, ast.Load)]
                subs = [n for n in ast.walk(fn) if isinstance(
                    n, ast.Subscript) and isinstance(n.value, ast.Name)
                    and n.value.id == k and isinstance(n.ctx, ast.Load)
                    and isinstance(n.slice, ast.Constant) and isinstance(
                        n.slice.value, int) and not isinstance(
                        n.slice.value, bool)
                    and -n_ <= n.slice.value < n_]
                unp = [u for u in ast.walk(fn) if isinstance(u, ast.Assign)
                       and len(u.targets) == 1 and isinstance(
                           u.targets[0], (ast.Tuple, ast.List)) and isinstance(
                           u.value, ast.Name) and u.value.id == k
                       and len(u.targets[0].elts) == n_ and not any(
                           isinstance(e, ast.Starred)
                           for e in u.targets[0].elts)]
                # k[:2] / k[1:] with literal bounds: a tuple of the elements
                def _cint(e):
                    return e is None or (isinstance(e, ast.Constant)
                                         and isinstance(e.value, int)
                                         and not isinstance(e.value, bool))
                slcs = [n for n in ast.walk(fn) if isinstance(
                    n, ast.Subscript) and isinstance(n.value, ast.Name)
                    and n.value.id == k and isinstance(n.ctx, ast.Load)
                    and isinstance(n.slice, ast.Slice)
                    and n.slice.step is None and _cint(n.slice.lower)
                    and _cint(n.slice.upper)]
                if not (unp or slcs) or len(refs) != len(subs) + len(
                        unp) + len(slcs):
                    continue
                if any(isinstance(d, (ast.Lambda, ast.FunctionDef,
                                      ast.ListComp, ast.GeneratorExp,
                                      ast.SetComp, ast.DictComp))
                       and d is not fn and any(
                           isinstance(n, ast.Name) and n.id == k
                           for n in ast.walk(d)) for d in ast.walk(fn)):
                    continue
                names = [f"{k}__e{i}" for i in range(n_)]
                if any(nm in stores for nm in names):
                    continue
                for sb in subs:
                    _replace_in(fn, sb, ast.Name(
                        id=names[sb.slice.value % n_], ctx=ast.Load()))
                for sl in slcs:
                    lo = sl.slice.lower.value if sl.slice.lower else None
                    hi = sl.slice.upper.value if sl.slice.upper else None
                    _replace_in(fn, sl, ast.Tuple(elts=[
                        ast.Name(id=nm, ctx=ast.Load())
                        for nm in names[lo:hi]], ctx=ast.Load()))
                for u in unp:
                    u.value = ast.copy_location(ast.Tuple(
                        elts=[ast.Name(id=nm, ctx=ast.Load())
                              for nm in names], ctx=ast.Load()), u.value)
                new = [ast.copy_location(ast.Assign(
                    targets=[ast.Name(id=nm, ctx=ast.Store())], value=e),
                    st) for nm, e in zip(names, st.value.elts)]
                i = [j for j, x in enumerate(blk) if x is st][0]
                blk[i:i + 1] = new
                for nm in names:
                    stores[nm] = 1
                done = True
    if done:
        ast.fix_missing_locations(fn)
    return done


def inline_single_use_generators(fn):
    """`g = (<generator>)` immediately followed by the one statement that
    reads g, as the whole argument of any()/all()/sum()/list()/tuple()/
    sorted()/set()/min()/max() -> the generator at that call"""
    done = False
    counts = {}
    for n in ast.walk(fn):
        if isinstance(n, ast.Name):
            counts[n.id] = counts.get(n.id, 0) + 1
    for par in [fn] + list(_walk_own(fn)):
        for fld in ("body", "orelse", "finalbody"):
            blk = getattr(par, fld, None)
            if not isinstance(blk, list):
                continue
            i = 0
            while i + 1 < len(blk):
                st = blk[i]
                if isinstance(st, ast.Assign) and len(st.targets) == 1 and \
                        isinstance(st.targets[0], ast.Name) and isinstance(
                            st.value, ast.GeneratorExp) and counts.get(
                            st.targets[0].id) == 2:
                    g = st.targets[0].id
                    nx = blk[i + 1]
                    heads = [nx] if not isinstance(
                        nx, (ast.If, ast.While)) else [nx.test]
                    if isinstance(nx, (ast.For, ast.With, ast.Try,
                                       ast.FunctionDef, ast.ClassDef)):
                        heads = []
                    if isinstance(nx, ast.For) and isinstance(
                            nx.iter, ast.Name) and nx.iter.id == g:
                        nx.iter = st.value
                        del blk[i]
                        done = True
                        continue
                    hit = None
                    for h in heads:
                        for c in ast.walk(h):
                            if isinstance(c, ast.Call) and norm(c.func) in (
                                    "any", "all", "sum", "list", "tuple",
                                    "sorted", "set", "min", "max") and len(
                                    c.args) == 1 and isinstance(
                                    c.args[0], ast.Name) and \
                                    c.args[0].id == g:
                                hit = c
                    if hit is not None:
                        hit.args[0] = st.value
                        del blk[i]
                        done = True
                        continue
                i += 1
    if done:
        ast.fix_missing_locations(fn)
    return done


def propagate_block_function_aliases(fn):
    """`f = module.function` followed, in the same block, by calls `f(..)`
    (before f is bound again) -> `module.function(..)`; the binding goes
    once no read of f is left"""
    stored = set()
    for n in ast.walk(fn):
        if isinstance(n, ast.Name) and isinstance(
                n.ctx, (ast.Store, ast.Del)):
            stored.add(n.id)
        elif isinstance(n, ast.arg):
            stored.add(n.arg)
    if any(isinstance(n, (ast.Global, ast.Nonlocal)) for n in ast.walk(fn)):
        return False
    done = False
    defs = {}
    for par in [fn] + list(_walk_own(fn)):
        for fld in ("body", "orelse", "finalbody"):
            blk = getattr(par, fld, None)
            if not isinstance(blk, list):
                continue
            for i, st in enumerate(blk):
                if not (isinstance(st, ast.Assign) and len(st.targets) == 1
                        and isinstance(st.targets[0], ast.Name)
                        and isinstance(st.value, ast.Attribute)
                        and isinstance(st.value.value, ast.Name)
                        and st.value.value.id not in stored
                        and st.value.value.id not in ("self", "cls")):
                    continue
                x = st.targets[0].id
                if any(isinstance(d, (ast.Lambda, ast.FunctionDef))
                       and d is not fn and any(
                           isinstance(n, ast.Name) and n.id == x
                           for n in ast.walk(d)) for d in ast.walk(fn)):
                    continue
                defs.setdefault(x, []).append((blk, st))
                for later in blk[i + 1:]:
                    if isinstance(later, (ast.For, ast.While)) and any(
                            isinstance(n, ast.Name) and n.id == x
                            and isinstance(n.ctx, ast.Store)
                            for n in ast.walk(later)):
                        break
                    # reads in this statement (evaluated before a store by
                    # the same simple statement)
                    calls = [c for c in ast.walk(later) if isinstance(
                        c, ast.Call) and isinstance(c.func, ast.Name)
                        and c.func.id == x]
                    for c in calls:
                        c.func = ast.copy_location(clone(st.value), c.func)
                        done = True
                    if any(isinstance(n, ast.Name) and n.id == x
                           and isinstance(n.ctx, ast.Store)
                           for n in ast.walk(later)):
                        break
    if done:
        for x, ds in defs.items():
            if not any(isinstance(n, ast.Name) and n.id == x and isinstance(
                    n.ctx, ast.Load) for n in ast.walk(fn)):
                for blk, st in ds:
                    if st in blk:
                        if len(blk) > 1:
                            blk.remove(st)
                        else:
                            blk[0] = ast.copy_location(ast.Pass(), st)
        ast.fix_missing_locations(fn)
    return done


def split_unrolled_locals(fn):
    """scratch locals of an unrolled loop body (bound afresh in every pass
    before they are read, never read outside the unrolled statements) get
    one name per pass: `steps`, `steps__u1`, ..."""
    groups = {}
    for par in [fn] + list(_walk_own(fn)):
        for fld in ("body", "orelse", "finalbody"):
            blk = getattr(par, fld, None)
            if not isinstance(blk, list):
                continue
            for st in blk:
                tag = getattr(st, "_unroll", None)
                if tag is not None:
                    groups.setdefault((id(blk), tag[0]), {}).setdefault(
                        tag[1], []).append(st)
    done = False
    taken = {n.id for n in ast.walk(fn) if isinstance(n, ast.Name)}
    for (_, _), passes in groups.items():
        if len(passes) < 2:
            continue
        inside = {id(n) for sts in passes.values() for st in sts
                  for n in ast.walk(st)}
        stored = {}
        for k, sts in passes.items():
            for st in sts:
                for n in ast.walk(st):
                    if isinstance(n, ast.Name) and isinstance(
                            n.ctx, ast.Store):
                        stored.setdefault(n.id, set()).add(k)
        for name, ks in stored.items():
            if len(ks) < 2:
                continue
            if any(isinstance(n, ast.Name) and n.id == name
                   and id(n) not in inside for n in ast.walk(fn)):
                continue
            if any(isinstance(a, ast.arg) and a.arg == name
                   for a in ast.walk(fn)):
                continue
            # in every pass: first bound by a top-level plain assignment
            # that does not read it, before any other mention
            ok = True
            for k in ks:
                # a plain assignment (not reading the name) in some block,
                # every other mention of the pass in the statements of that
                # block that follow it
                mentions = [n for st in passes[k] for n in ast.walk(st)
                            if isinstance(n, ast.Name) and n.id == name]
                found = False
                holders = [passes[k]]
                for st in passes[k]:
                    for x in ast.walk(st):
                        for f_ in ("body", "orelse", "finalbody"):
                            b_ = getattr(x, f_, None)
                            if isinstance(b_, list) and b_ and isinstance(
                                    b_[0], ast.stmt):
                                holders.append(b_)
                for b_ in holders:
                    for i_, first in enumerate(b_):
                        if isinstance(first, ast.Assign) and len(
                                first.targets) == 1 and isinstance(
                                first.targets[0], ast.Name) and \
                                first.targets[0].id == name and not any(
                                    isinstance(n, ast.Name) and n.id == name
                                    for n in ast.walk(first.value)):
                            after = {id(n) for s_ in b_[i_ + 1:]
                                     for n in ast.walk(s_)}
                            if all(n is first.targets[0] or id(n) in after
                                   for n in mentions):
                                found = True
                            break
                    if found:
                        break
                if not found:
                    ok = False
            if not ok or any(isinstance(d, (ast.Lambda, ast.FunctionDef))
                             and any(isinstance(n, ast.Name)
                                     and n.id == name for n in ast.walk(d))
                             for sts in passes.values() for st in sts
                             for d in ast.walk(st)):
                continue
            for k in sorted(ks)[1:]:
                new = f"{name}__u{k}"
                if new in taken:
                    continue
                taken.add(new)
                for st in passes[k]:
                    for n in ast.walk(st):
                        if isinstance(n, ast.Name) and n.id == name:
                            n.id = new
                done = True
    return done


def dict_key_loops(fn):
    """`D = {"a": x, "b": y}` (bound once, only read by `for k in D:` loops
    and as `D[k]` inside them) -> `for k, D__v in [("a", x), ("b", y)]:`
    with `D[k]` spelled `D__v` (the unroller takes it from there)"""
    from .normalize import Unroll
    done = False
    for par in [fn] + list(_walk_own(fn)):
        for fld in ("body", "orelse", "finalbody"):
            blk = getattr(par, fld, None)
            if not isinstance(blk, list):
                continue
            for st in list(blk):
                if not (isinstance(st, ast.Assign) and len(st.targets) == 1
                        and isinstance(st.targets[0], ast.Name)
                        and isinstance(st.value, ast.Dict)
                        and 1 <= len(st.value.keys) <= 12
                        and all(k is not None and isinstance(k, ast.Constant)
                                for k in st.value.keys)
                        and all(Unroll._item_ok(v)
                                for v in st.value.values)):
                    continue
                D = st.targets[0].id
                nodes = [n for n in ast.walk(fn) if isinstance(n, ast.Name)
                         and n.id == D]
                if sum(1 for n in nodes if not isinstance(
                        n.ctx, ast.Load)) != 1:
                    continue
                loads = [n for n in nodes if isinstance(n.ctx, ast.Load)]
                loops = [lp for lp in ast.walk(fn) if isinstance(lp, ast.For)
                         and lp.iter in loads and isinstance(
                             lp.target, ast.Name)]
                if not loops:
                    continue
                covered = {id(lp.iter) for lp in loops}
                subs = []
                for lp in loops:
                    k = lp.target.id
                    for n in ast.walk(lp):
                        if isinstance(n, ast.Subscript) and isinstance(
                                n.ctx, ast.Load) and n.value in loads and \
                                isinstance(n.slice, ast.Name) and \
                                n.slice.id == k:
                            covered.add(id(n.value))
                            subs.append((lp, n))
                    if any(isinstance(n, ast.Name) and n.id == k
                           and isinstance(n.ctx, ast.Store)
                           and n is not lp.target for n in ast.walk(lp)):
                        covered = set()
                if {id(x) for x in loads} != covered:
                    continue
                # the values keep their meaning until the loops run
                vnames = {n.id for v in st.value.values
                          for n in ast.walk(v) if isinstance(n, ast.Name)}
                here = _from_here(fn, st)
                if any(isinstance(n, ast.Name) and n.id in vnames
                       and isinstance(n.ctx, (ast.Store, ast.Del))
                       and id(n) in here
                       for n in ast.walk(fn)):
                    continue
                vn = f"{D}__v"
                if any(isinstance(n, ast.Name) and n.id == vn
                       for n in ast.walk(fn)):
                    continue
                from .normalize import _replace_node
                for lp, sb in subs:
                    _replace_node(lp, sb, ast.Name(id=vn, ctx=ast.Load()))
                for lp in loops:
                    lp.iter = ast.copy_location(ast.List(elts=[
                        ast.Tuple(elts=[clone(k_), clone(v_)],
                                  ctx=ast.Load())
                        for k_, v_ in zip(st.value.keys, st.value.values)],
                        ctx=ast.Load()), lp.iter)
                    lp.target = ast.copy_location(ast.Tuple(elts=[
                        ast.Name(id=lp.target.id, ctx=ast.Store()),
                        ast.Name(id=vn, ctx=ast.Store())],
                        ctx=ast.Store()), lp.target)
                blk.remove(st)
                if not blk:
                    blk.append(ast.copy_location(ast.Pass(), st))
                done = True
    if done:
        ast.fix_missing_locations(fn)
    return done


def local_partials(fn):
    """`p = functools.partial(f, a, k=b)` (bound once; f, a, b plain names,
    attribute chains or literals that are not re-bound afterwards; p only
    ever called) -> `f(a, <args>, k=b)` at the calls"""
    def plain(e):
        return isinstance(e, (ast.Name, ast.Constant)) or (
            isinstance(e, ast.Attribute) and plain(e.value))
    done = False
    for par in [fn] + list(_walk_own(fn)):
        for fld in ("body", "orelse", "finalbody"):
            blk = getattr(par, fld, None)
            if not isinstance(blk, list):
                continue
            for st in list(blk):
                if not (isinstance(st, ast.Assign) and len(st.targets) == 1
                        and isinstance(st.targets[0], ast.Name)
                        and isinstance(st.value, ast.Call)
                        and norm(st.value.func) in ("functools.partial",
                                                    "partial")
                        and st.value.args and all(
                            plain(a) for a in st.value.args) and all(
                            k.arg is not None and plain(k.value)
                            for k in st.value.keywords)):
                    continue
                p_ = st.targets[0].id
                nodes = [n for n in ast.walk(fn) if isinstance(n, ast.Name)
                         and n.id == p_]
                if sum(1 for n in nodes if not isinstance(
                        n.ctx, ast.Load)) != 1:
                    continue
                loads = [n for n in nodes if isinstance(n.ctx, ast.Load)]
                calls = [c for c in ast.walk(fn) if isinstance(c, ast.Call)
                         and c.func in loads]
                if not loads or len(calls) != len(loads):
                    continue
                used = {n.id for a in list(st.value.args) + [
                    k.value for k in st.value.keywords]
                    for n in ast.walk(a) if isinstance(n, ast.Name)}
                here = _from_here(fn, st)
                if any(isinstance(n, ast.Name) and n.id in used
                       and isinstance(n.ctx, (ast.Store, ast.Del))
                       and id(n) in here
                       for n in ast.walk(fn)):
                    continue
                if any(isinstance(lp, (ast.For, ast.While)) and any(
                        x is st for x in ast.walk(lp))
                        for lp in ast.walk(fn)):
                    continue
                given = {k.arg for k in st.value.keywords}
                if any(k.arg is None or k.arg in given
                       for c in calls for k in c.keywords):
                    continue
                for c in calls:
                    c.func = ast.copy_location(clone(st.value.args[0]),
                                               c.func)
                    c.args = [clone(a) for a in st.value.args[1:]] + c.args
                    c.keywords = [clone(k) for k in st.value.keywords] + \
                        c.keywords
                blk.remove(st)
                if not blk:
                    blk.append(ast.copy_location(ast.Pass(), st))
                done = True
    if done:
        ast.fix_missing_locations(fn)
    return done


def adopt_static_functions(tree):
    """class body `name = staticmethod(f)` where f is a module-level
    function that is mentioned nowhere else -> the function moves into the
    class as `@staticmethod def name` (its own decorators stay below)"""
    funcs = {st.name: st for st in tree.body
             if isinstance(st, ast.FunctionDef)}
    done = False
    for cls in tree.body:
        if not isinstance(cls, ast.ClassDef):
            continue
        for i, st in enumerate(list(cls.body)):
            if not (isinstance(st, ast.Assign) and len(st.targets) == 1
                    and isinstance(st.targets[0], ast.Name)
                    and isinstance(st.value, ast.Call)
                    and norm(st.value.func) in ("staticmethod",
                                                "classmethod")
                    and len(st.value.args) == 1 and not st.value.keywords
                    and isinstance(st.value.args[0], ast.Name)
                    and st.value.args[0].id in funcs):
                continue
            f = funcs[st.value.args[0].id]
            if sum(1 for n in ast.walk(tree) if isinstance(n, ast.Name)
                   and n.id == f.name and isinstance(n.ctx, ast.Load)) != 1:
                continue
            if tree.body.index(f) > tree.body.index(cls):
                continue
            if any(isinstance(n, ast.Name) and n.id == f.name
                   for n in ast.walk(f)):
                continue
            tree.body.remove(f)
            funcs.pop(f.name)
            f.name = st.targets[0].id
            f.decorator_list = [ast.copy_location(ast.Name(
                id=norm(st.value.func), ctx=ast.Load()), st)] + \
                f.decorator_list
            cls.body[cls.body.index(st)] = f
            done = True
    if done:
        ast.fix_missing_locations(tree)
    return done


def fuse_collect_loops(fn):
    """`L = []; for x in IT: ... L.append(E) ...` directly followed by
    `for T in L: BODY` (L generated by the inliner from a generator helper,
    used nowhere else; one append statement) -> the first loop with
    `T = E; BODY` in place of the append - the interleaving the generator
    had (BODY runs where the generator yields).  If BODY leaves its pass
    early (`continue`/`break`), the append must be the last thing the pass
    of the first loop does."""
    done = False
    for par in [fn] + list(_walk_own(fn)):
        for fld in ("body", "orelse", "finalbody"):
            blk = getattr(par, fld, None)
            if not isinstance(blk, list):
                continue
            i = 0
            while i + 2 < len(blk):
                a, b, c = blk[i:i + 3]
                i += 1
                if not (isinstance(a, ast.Assign) and len(a.targets) == 1
                        and isinstance(a.targets[0], ast.Name)
                        and isinstance(a.value, ast.List)
                        and not a.value.elts
                        and ("__inl" in a.targets[0].id
                             or a.targets[0].id.startswith("_items"))):
                    continue
                L = a.targets[0].id
                span = 3
                X = L
                if isinstance(c, ast.Assign) and len(c.targets) == 1 and \
                        isinstance(c.targets[0], ast.Name) and isinstance(
                            c.value, ast.Name) and c.value.id == L and \
                        i + 2 < len(blk) and (
                            "__inl" in c.targets[0].id
                            or "__h" in c.targets[0].id):
                    X = c.targets[0].id
                    c = blk[i + 2]
                    span = 4
                    if sum(1 for n in ast.walk(fn) if isinstance(
                            n, ast.Name) and n.id == X) != 2:
                        continue
                if not (isinstance(b, ast.For) and not b.orelse
                        and isinstance(c, ast.For)
                        and not c.orelse and isinstance(c.iter, ast.Name)
                        and c.iter.id == X):
                    continue
                if sum(1 for n in ast.walk(fn) if isinstance(n, ast.Name)
                       and n.id == L) != 3:
                    continue
                # the one append statement and the block that holds it
                found = []

                def scan(stmts, tail):
                    for k_, s_ in enumerate(stmts):
                        last = tail and k_ == len(stmts) - 1
                        if isinstance(s_, ast.Expr) and isinstance(
                                s_.value, ast.Call) and isinstance(
                                s_.value.func, ast.Attribute) and \
                                s_.value.func.attr == "append" and \
                                isinstance(s_.value.func.value, ast.Name) \
                                and s_.value.func.value.id == L and len(
                                    s_.value.args) == 1:
                            found.append((stmts, k_, last))
                        elif isinstance(s_, ast.If):
                            scan(s_.body, last)
                            scan(s_.orelse, last)
                        elif isinstance(s_, (ast.With, ast.Try)):
                            scan(s_.body, False)
                        elif isinstance(s_, (ast.For, ast.While)):
                            scan(s_.body, False)
                scan(b.body, True)
                if len(found) != 1:
                    continue
                stmts, k_, is_tail = found[0]
                # does BODY leave its pass early?
                inner_loops = {id(y) for z in ast.walk(c) if z is not c
                               and isinstance(z, (ast.For, ast.While))
                               for y in ast.walk(z)}
                early = any(isinstance(y, (ast.Break, ast.Continue))
                            and id(y) not in inner_loops
                            for s_ in c.body for y in ast.walk(s_))
                if early and not is_tail:
                    continue
                # in a nested loop of the first loop a `break` of BODY would
                # bind to the wrong loop
                if early and stmts is not b.body and any(
                        isinstance(z, (ast.For, ast.While)) and any(
                            y is stmts[k_] for y in ast.walk(z))
                        for s_ in b.body for z in ast.walk(s_)):
                    continue
                v1 = set(target_names(b.target)) | {
                    n.id for s_ in b.body for n in ast.walk(s_)
                    if isinstance(n, ast.Name) and isinstance(
                        n.ctx, ast.Store)}
                if v1 & {n.id for n in ast.walk(c) if isinstance(
                        n, ast.Name) and isinstance(n.ctx, ast.Store)}:
                    continue
                bind = ast.Assign(targets=[c.target],
                                  value=stmts[k_].value.args[0])
                ast.copy_location(bind, c)
                stmts[k_:k_ + 1] = [bind] + c.body
                blk[i - 1:i - 1 + span] = [b]
                ast.fix_missing_locations(b)
                done = True
                i = max(0, i - 1)
    return done

def sentinel_branches(tree):
    """`if c: v = E else: v = SENTINEL` directly followed by
    `if v is SENTINEL: B [else: O]` (SENTINEL a module-level `object()`)
    -> `if c: v = E; O else: v = SENTINEL; B`"""
    sent = set()
    for st in tree.body:
        if isinstance(st, ast.Assign) and len(st.targets) == 1 and \
                isinstance(st.targets[0], ast.Name) and isinstance(
                    st.value, ast.Call) and norm(st.value.func) == "object" \
                and not st.value.args:
            sent.add(st.targets[0].id)
    if not sent:
        return False
    done = False
    for fn in [n for n in ast.walk(tree) if isinstance(n, ast.FunctionDef)]:
        for par in [fn] + list(_walk_own(fn)):
            for fld in ("body", "orelse", "finalbody"):
                blk = getattr(par, fld, None)
                if not isinstance(blk, list):
                    continue
                i = 0
                while i + 1 < len(blk):
                    a, b = blk[i], blk[i + 1]
                    i += 1
                    if not (isinstance(a, ast.If) and len(a.body) >= 1
                            and len(a.orelse) == 1 and isinstance(
                                b, ast.If)):
                        continue
                    la, lo = a.body[-1], a.orelse[0]

                    def asg(s_):
                        return isinstance(s_, ast.Assign) and len(
                            s_.targets) == 1 and isinstance(
                            s_.targets[0], ast.Name)
                    if not (asg(la) and asg(lo) and la.targets[0].id ==
                            lo.targets[0].id):
                        continue
                    v = la.targets[0].id
                    # which arm holds the sentinel
                    if isinstance(lo.value, ast.Name) and \
                            lo.value.id in sent and not (isinstance(
                                la.value, ast.Name)
                                and la.value.id in sent):
                        s_arm, S = "orelse", lo.value.id
                    else:
                        continue
                    t = b.test
                    if not (isinstance(t, ast.Compare) and len(t.ops) == 1
                            and isinstance(t.ops[0], (ast.Is, ast.IsNot))
                            and isinstance(t.left, ast.Name)
                            and t.left.id == v and isinstance(
                                t.comparators[0], ast.Name)
                            and t.comparators[0].id == S):
                        continue
                    if_sent, if_val = (b.body, b.orelse) if isinstance(
                        t.ops[0], ast.Is) else (b.orelse, b.body)
                    a.body = a.body + list(if_val)
                    a.orelse = a.orelse + list(if_sent)
                    del blk[i]
                    ast.fix_missing_locations(a)
                    done = True
                    i -= 1
    return done


def fuse_collect_into_comprehension(fn):
    """`L = []; for x in IT: [if c:] L.append(E)` directly followed by a
    statement with the only other use of L, `<comprehension> for T in L`
    (L generated by the inliner) -> the comprehension over IT with T's
    names replaced by the fields of E"""
    done = False
    for par in [fn] + list(_walk_own(fn)):
        for fld in ("body", "orelse", "finalbody"):
            blk = getattr(par, fld, None)
            if not isinstance(blk, list):
                continue
            i = 0
            while i + 2 < len(blk):
                a, b, c = blk[i:i + 3]
                i += 1
                if not (isinstance(a, ast.Assign) and len(a.targets) == 1
                        and isinstance(a.targets[0], ast.Name)
                        and isinstance(a.value, ast.List)
                        and not a.value.elts
                        and ("__inl" in a.targets[0].id
                             or a.targets[0].id.startswith("_items"))
                        and isinstance(b, ast.For) and not b.orelse
                        and len(b.body) == 1):
                    continue
                L = a.targets[0].id
                inner, guard = b.body[0], None
                if isinstance(inner, ast.If) and not inner.orelse and len(
                        inner.body) == 1:
                    guard, inner = inner.test, inner.body[0]
                if not (isinstance(inner, ast.Expr) and isinstance(
                        inner.value, ast.Call) and isinstance(
                        inner.value.func, ast.Attribute)
                        and inner.value.func.attr == "append"
                        and norm(inner.value.func.value) == L
                        and len(inner.value.args) == 1):
                    continue
                if sum(1 for n in ast.walk(fn) if isinstance(n, ast.Name)
                       and n.id == L) != 3:
                    continue
                E = inner.value.args[0]
                comp = None
                for x in ast.walk(c):
                    if isinstance(x, (ast.GeneratorExp, ast.ListComp,
                                      ast.SetComp)) and len(
                            x.generators) == 1 and isinstance(
                            x.generators[0].iter, ast.Name) and \
                            x.generators[0].iter.id == L:
                        comp = x
                if comp is None or isinstance(c, (ast.For, ast.While)):
                    continue
                g = comp.generators[0]
                if isinstance(g.target, ast.Name):
                    m = {g.target.id: E}
                elif isinstance(g.target, ast.Tuple) and isinstance(
                        E, ast.Tuple) and len(E.elts) == len(
                        g.target.elts) and all(isinstance(
                            t, ast.Name) for t in g.target.elts):
                    m = {t.id: v for t, v in zip(g.target.elts, E.elts)}
                else:
                    continue
                # each field is used at most once (no duplicated evaluation)
                cnt = {}
                for n in ast.walk(comp.elt):
                    if isinstance(n, ast.Name) and n.id in m:
                        cnt[n.id] = cnt.get(n.id, 0) + 1
                for c_ in g.ifs:
                    for n in ast.walk(c_):
                        if isinstance(n, ast.Name) and n.id in m:
                            cnt[n.id] = cnt.get(n.id, 0) + 1
                if any(v > 1 for v in cnt.values()):
                    continue
                loopvars = set(target_names(b.target))
                if loopvars & {n.id for n in ast.walk(comp)
                               if isinstance(n, ast.Name)}:
                    continue
                comp.elt = _SubstNames(m).visit(comp.elt)
                g.ifs = ([guard] if guard is not None else []) + [
                    _SubstNames(m).visit(c_) for c_ in g.ifs]
                g.iter = b.iter
                g.target = b.target
                del blk[i - 1:i + 1]
                ast.fix_missing_locations(c)
                done = True
                i = max(0, i - 1)
    return done


def sentinel_get_tests(tree):
    """after `v = D.get(k, SENTINEL)` (SENTINEL a module-level `object()`)
    and until v is bound again, `v is SENTINEL` says `k not in D`: the tests
    are spelled that way (D a plain name that is not edited in between)"""
    sent = set()
    for st in tree.body:
        if isinstance(st, ast.Assign) and len(st.targets) == 1 and \
                isinstance(st.targets[0], ast.Name) and isinstance(
                    st.value, ast.Call) and norm(st.value.func) == "object" \
                and not st.value.args:
            sent.add(st.targets[0].id)
    if not sent:
        return False
    done = [False]

    def rewrite(expr, live):
        class T(ast.NodeTransformer):
            def visit_Compare(self, node):
                self.generic_visit(node)
                # getattr(x, "a", SENTINEL) is SENTINEL -> not hasattr(x, "a")
                if len(node.ops) == 1 and isinstance(
                        node.ops[0], (ast.Is, ast.IsNot)) and isinstance(
                        node.left, ast.Call) and norm(
                        node.left.func) == "getattr" and len(
                        node.left.args) == 3 and not node.left.keywords \
                        and isinstance(node.left.args[2], ast.Name) and \
                        node.left.args[2].id in sent and isinstance(
                        node.comparators[0], ast.Name) and \
                        node.comparators[0].id == node.left.args[2].id:
                    has = ast.Call(func=ast.Name(id="hasattr",
                                                 ctx=ast.Load()),
                                   args=node.left.args[:2], keywords=[])
                    done[0] = True
                    new = has if isinstance(node.ops[0], ast.IsNot) else \
                        ast.UnaryOp(op=ast.Not(), operand=has)
                    return ast.copy_location(new, node)
                if len(node.ops) == 1 and isinstance(
                        node.ops[0], (ast.Is, ast.IsNot)) and isinstance(
                        node.left, ast.Name) and node.left.id in live and \
                        isinstance(node.comparators[0], ast.Name) and \
                        node.comparators[0].id == live[node.left.id][2]:
                    D, k, _ = live[node.left.id]
                    done[0] = True
                    return ast.copy_location(ast.Compare(
                        left=clone(k), ops=[ast.NotIn() if isinstance(
                            node.ops[0], ast.Is) else ast.In()],
                        comparators=[ast.Name(id=D, ctx=ast.Load())]), node)
                return node

            def visit_Lambda(self, node):
                return node
        return T().visit(expr)

    def stored_in(st):
        return {n.id for n in ast.walk(st) if isinstance(n, ast.Name)
                and isinstance(n.ctx, (ast.Store, ast.Del))}

    def edits(st, D):
        for n in ast.walk(st):
            if isinstance(n, ast.Call) and isinstance(
                    n.func, ast.Attribute) and isinstance(
                    n.func.value, ast.Name) and n.func.value.id == D and \
                    n.func.attr in ("pop", "update", "clear", "setdefault",
                                    "popitem"):
                return True
            if isinstance(n, ast.Subscript) and isinstance(
                    n.ctx, (ast.Store, ast.Del)) and isinstance(
                    n.value, ast.Name) and n.value.id == D:
                return True
        return False

    def block(stmts, live):
        for st in stmts:
            if isinstance(st, (ast.If, ast.While)):
                st.test = rewrite(st.test, live)
                block(st.body, dict(live))
                block(st.orelse, dict(live))
            elif isinstance(st, (ast.For, ast.With, ast.Try)):
                for fld in ("body", "orelse", "finalbody"):
                    block(getattr(st, fld, []) or [], {})
                for h in getattr(st, "handlers", []) or []:
                    block(h.body, {})
            elif isinstance(st, (ast.FunctionDef, ast.ClassDef)):
                pass
            else:
                for fld, val in ast.iter_fields(st):
                    if isinstance(val, ast.expr) and fld != "targets":
                        setattr(st, fld, rewrite(val, live))
            for v in stored_in(st):
                live.pop(v, None)
            for v in [v for v, (D, _, _) in live.items() if edits(st, D)
                      or D in stored_in(st)]:
                live.pop(v, None)
            if isinstance(st, ast.Assign) and len(st.targets) == 1 and \
                    isinstance(st.targets[0], ast.Name) and isinstance(
                        st.value, ast.Call) and isinstance(
                        st.value.func, ast.Attribute) and \
                    st.value.func.attr == "get" and isinstance(
                        st.value.func.value, ast.Name) and len(
                        st.value.args) == 2 and not st.value.keywords and \
                    isinstance(st.value.args[1], ast.Name) and \
                    st.value.args[1].id in sent and isinstance(
                        st.value.args[0], ast.Constant):
                live[st.targets[0].id] = (st.value.func.value.id,
                                          st.value.args[0],
                                          st.value.args[1].id)
    for fn in [n for n in ast.walk(tree) if isinstance(n, ast.FunctionDef)]:
        block(fn.body, {})
    if done[0]:
        ast.fix_missing_locations(tree)
    return done[0]


def drop_dead_tails(tree):
    """statements behind an unconditional return/raise/break/continue of
    the same block are never run"""
    done = False
    for par in ast.walk(tree):
        for fld in ("body", "orelse", "finalbody"):
            blk = getattr(par, fld, None)
            if not (isinstance(blk, list) and blk and isinstance(
                    blk[0], ast.stmt)):
                continue
            # `if True: A else: B` -> A
            i = 0
            while i < len(blk):
                st = blk[i]
                if isinstance(st, ast.If) and isinstance(
                        st.test, ast.Constant) and isinstance(
                        st.test.value, bool):
                    blk[i:i + 1] = (st.body if st.test.value
                                    else st.orelse) or [
                        ast.copy_location(ast.Pass(), st)]
                    done = True
                    continue
                i += 1
            for i, st in enumerate(blk[:-1]):
                if isinstance(st, (ast.Return, ast.Raise, ast.Break,
                                   ast.Continue)):
                    del blk[i + 1:]
                    done = True
                    break
    return done


def flatten_chain_lists(tree):
    """`return list(itertools.chain.from_iterable(G))` / `v = list(...)`
    -> `acc = []; for part in G: acc.extend(part)`; a call of a private
    generator function bound to a name that only feeds that expression is
    put in place first"""
    gens = {st.name for st in tree.body if isinstance(st, ast.FunctionDef)
            and any(isinstance(n, (ast.Yield, ast.YieldFrom))
                    for n in ast.walk(st))}
    done = False
    for fn in [n for n in ast.walk(tree) if isinstance(n, ast.FunctionDef)]:
        taken = {n.id for n in ast.walk(fn) if isinstance(n, ast.Name)}
        for par in [fn] + list(_walk_own(fn)):
            for fld in ("body", "orelse", "finalbody"):
                blk = getattr(par, fld, None)
                if not isinstance(blk, list):
                    continue
                i = 0
                while i < len(blk):
                    st = blk[i]
                    i += 1
                    if not isinstance(st, (ast.Return, ast.Assign)):
                        continue
                    v = st.value
                    if not (isinstance(v, ast.Call) and norm(v.func) in (
                            "list", "tuple") and len(v.args) == 1
                            and isinstance(v.args[0], ast.Call) and norm(
                                v.args[0].func) in (
                                "itertools.chain.from_iterable",
                                "chain.from_iterable")
                            and len(v.args[0].args) == 1
                            and norm(v.func) == "list"):
                        continue
                    src = v.args[0].args[0]
                    # a generator bound just before, used only here
                    if isinstance(src, ast.Name) and i >= 2:
                        prev = blk[i - 2]
                        if isinstance(prev, ast.Assign) and len(
                                prev.targets) == 1 and isinstance(
                                prev.targets[0], ast.Name) and \
                                prev.targets[0].id == src.id and isinstance(
                                    prev.value, ast.Call) and isinstance(
                                    prev.value.func, ast.Name) and \
                                prev.value.func.id in gens and sum(
                                    1 for n in ast.walk(fn) if isinstance(
                                        n, ast.Name) and n.id == src.id) == 2:
                            src = prev.value
                            del blk[i - 2]
                            i -= 1
                    acc, part = "_flat", "_part"
                    own = isinstance(st, ast.Assign) and len(
                        st.targets) == 1 and isinstance(
                        st.targets[0], ast.Name) and not any(
                        isinstance(n, ast.Name) and n.id == st.targets[0].id
                        for n in ast.walk(src))
                    if own:
                        # the target itself collects the parts
                        acc = st.targets[0].id
                    while acc in taken and not own:
                        acc += "_"
                    while part in taken:
                        part += "_"
                    taken |= {acc, part}
                    init = ast.Assign(targets=[ast.Name(id=acc,
                                                        ctx=ast.Store())],
                                      value=ast.List(elts=[], ctx=ast.Load()))
                    loop = ast.For(
                        target=ast.Name(id=part, ctx=ast.Store()), iter=src,
                        body=[ast.AugAssign(
                            target=ast.Name(id=acc, ctx=ast.Store()),
                            op=ast.Add(),
                            value=ast.Name(id=part, ctx=ast.Load()))],
                        orelse=[], type_comment=None)
                    for x in (init, loop):
                        ast.copy_location(x, st)
                        ast.fix_missing_locations(x)
                    if own:
                        blk[i - 1:i] = [init, loop]
                        i += 1
                    else:
                        st.value = ast.Name(id=acc, ctx=ast.Load())
                        blk[i - 1:i - 1] = [init, loop]
                        i += 2
                    done = True
    if done:
        ast.fix_missing_locations(tree)
    return done


def conditional_arguments(fn):
    """`f(a=<X> if flag else n)` (flag and n plain names, n not read after
    the statement) -> `if flag: n = <X>` in front and `f(a=n)`"""
    done = False
    for par in [fn] + list(_walk_own(fn)):
        for fld in ("body", "orelse", "finalbody"):
            blk = getattr(par, fld, None)
            if not isinstance(blk, list):
                continue
            i = 0
            while i < len(blk):
                st = blk[i]
                i += 1
                if not isinstance(st, (ast.Assign, ast.Return, ast.Expr)) \
                        or any(isinstance(x, (ast.For, ast.While))
                               and any(y is st for y in ast.walk(x))
                               for x in ast.walk(fn)):
                    continue
                call = st.value
                if isinstance(call, ast.Subscript):
                    call = call.value
                if not isinstance(call, ast.Call):
                    continue
                for holder, attr in [(k, "value") for k in call.keywords] + [
                        (call.args, j) for j in range(len(call.args))]:
                    e = getattr(holder, attr) if isinstance(attr, str) \
                        else holder[attr]
                    if not (isinstance(e, ast.IfExp) and isinstance(
                            e.test, ast.Name)):
                        continue
                    if isinstance(e.orelse, ast.Name):
                        n, x, neg = e.orelse, e.body, False
                    elif isinstance(e.body, ast.Name):
                        n, x, neg = e.body, e.orelse, True
                    else:
                        continue
                    if n.id == e.test.id:
                        continue
                    here = _from_here(fn, st)
                    inside = {id(y) for y in ast.walk(st)}
                    if any(isinstance(y, ast.Name) and y.id == n.id
                           and id(y) in here and id(y) not in inside
                           for y in ast.walk(fn)):
                        continue
                    # n is read once in the statement apart from the
                    # conditional expression itself
                    in_e = {id(y) for y in ast.walk(e)}
                    if any(isinstance(y, ast.Name) and y.id == n.id
                           and id(y) in inside and id(y) not in in_e
                           for y in ast.walk(st)):
                        continue
                    test = e.test if not neg else ast.UnaryOp(
                        op=ast.Not(), operand=e.test)
                    pre = ast.If(test=test, body=[ast.Assign(
                        targets=[ast.Name(id=n.id, ctx=ast.Store())],
                        value=x)], orelse=[])
                    ast.copy_location(pre, st)
                    new_arg = ast.copy_location(
                        ast.Name(id=n.id, ctx=ast.Load()), e)
                    if isinstance(attr, str):
                        setattr(holder, attr, new_arg)
                    else:
                        holder[attr] = new_arg
                    ast.fix_missing_locations(pre)
                    blk.insert(i - 1, pre)
                    i += 1
                    done = True
                    break
    return done
