"""Forward dataflow over the statement CFG: reaching definitions, definite
assignment, and a generic worklist solver."""
from __future__ import annotations

import ast
import builtins
from collections import deque

from .astutil import func_params, stmt_targets, target_names, walk_no_nested
from .cfg import CFG


def solve_forward(cfg: CFG, init, transfer, join, skip_labels=()):
    """Generic forward worklist.  `transfer(node, state, label)` gives the
    state propagated along the out-edge with that label; `join(a, b)` merges.
    Returns IN states by node id."""
    IN = {cfg.entry: init}
    dq = deque([cfg.entry])
    while dq:
        n = dq.popleft()
        st = IN[n]
        for (t, lab) in cfg.succ[n]:
            if lab in skip_labels:
                continue
            out = transfer(cfg.nodes[n], st, lab)
            if out is None:
                continue
            if t not in IN:
                IN[t] = out
                dq.append(t)
            else:
                new = join(IN[t], out)
                if new != IN[t]:
                    IN[t] = new
                    dq.append(t)
    return IN


def node_defs(node) -> list[str]:
    """Local names (re)bound when this CFG node completes normally."""
    a = node.ast
    if node.kind == "stmt":
        if isinstance(a, (ast.Assign, ast.AugAssign, ast.AnnAssign)):
            out = []
            for t in stmt_targets(a):
                out.extend(target_names(t))
            out.extend(_walrus(a))
            return out
        if isinstance(a, (ast.FunctionDef, ast.ClassDef,
                          ast.AsyncFunctionDef)):
            return [a.name]
        if isinstance(a, (ast.Import, ast.ImportFrom)):
            return [(x.asname or x.name.split(".")[0]) for x in a.names]
        return _walrus(a) if a is not None else []
    if node.kind == "for":
        return target_names(a.target)
    if node.kind == "with":
        out = []
        for i in a.items:
            if i.optional_vars is not None:
                out.extend(target_names(i.optional_vars))
        return out
    if node.kind == "except":
        return [a.name] if a.name else []
    if node.kind == "test":
        return _walrus(a)
    return []


def _walrus(a):
    return [n.target.id for n in walk_no_nested(a)
            if isinstance(n, ast.NamedExpr)
            and isinstance(n.target, ast.Name)]


def node_uses(node) -> list[ast.Name]:
    """Name loads evaluated at this CFG node (not in nested defs)."""
    a = node.ast
    if a is None or node.kind in ("entry", "exit", "raise", "finally"):
        return []
    if node.kind == "for":
        roots = [a.iter]
    elif node.kind == "with":
        roots = [i.context_expr for i in a.items]
    elif node.kind == "except":
        roots = [a.type] if a.type is not None else []
    else:
        roots = [a]
    out = []
    for r in roots:
        if isinstance(r, (ast.FunctionDef, ast.AsyncFunctionDef,
                          ast.ClassDef)):
            continue
        out.extend(_loads(r, frozenset()))
    return out


_COMP = (ast.ListComp, ast.SetComp, ast.DictComp, ast.GeneratorExp)


def _loads(n, hidden):
    """Name loads under n, excluding comprehension-bound variables and the
    bodies of nested lambdas/functions (evaluated later)."""
    out = []
    if isinstance(n, (ast.Lambda, ast.FunctionDef, ast.AsyncFunctionDef,
                      ast.ClassDef)):
        return out
    if isinstance(n, _COMP):
        bound = set()
        for g in n.generators:
            bound.update(target_names(g.target))
        hidden = hidden | bound
    if isinstance(n, ast.Name):
        if isinstance(n.ctx, ast.Load) and n.id not in hidden:
            out.append(n)
        return out
    for c in ast.iter_child_nodes(n):
        out.extend(_loads(c, hidden))
    return out


def reaching_defs(cfg: CFG):
    """IN[node] = frozenset of (var, def_node_id).  Parameters are defined
    at the entry node.  A definition takes effect only on non-exceptional
    out-edges of its node (an assignment whose right side raises binds
    nothing)."""
    params = func_params(cfg.func)
    init = frozenset((p, cfg.entry) for p in params)

    def transfer(node, state, label):
        if label == "exc":
            return state
        defs = node_defs(node)
        if node.kind == "for" and label == "exhaust":
            defs = []
        if not defs:
            return state
        kill = set(defs)
        return frozenset({(v, d) for (v, d) in state if v not in kill}
                         | {(v, node.id) for v in defs})

    return solve_forward(cfg, init, transfer, lambda a, b: a | b)


def definitely_assigned(cfg: CFG):
    """IN[node] = frozenset of names assigned on every path to node."""
    params = func_params(cfg.func)
    init = frozenset(params)

    def transfer(node, state, label):
        if label == "exc":
            return state
        defs = node_defs(node)
        if node.kind == "for" and label == "exhaust":
            defs = []
        return state | frozenset(defs)

    return solve_forward(cfg, init, transfer, lambda a, b: a & b)


def local_names(func) -> set[str]:
    """Names that are local to the function (bound somewhere in it and not
    declared global/nonlocal)."""
    bound = set(func_params(func))
    glob = set()
    for n in walk_no_nested(func, include_self=False):
        if isinstance(n, (ast.Global, ast.Nonlocal)):
            glob.update(n.names)
        elif isinstance(n, ast.Name) and isinstance(n.ctx, (ast.Store,
                                                          ast.Del)):
            if not _in_comprehension_target(n):
                bound.add(n.id)
        elif isinstance(n, (ast.FunctionDef, ast.ClassDef,
                            ast.AsyncFunctionDef)):
            bound.add(n.name)
        elif isinstance(n, (ast.Import, ast.ImportFrom)):
            for x in n.names:
                bound.add(x.asname or x.name.split(".")[0])
        elif isinstance(n, ast.ExceptHandler) and n.name:
            bound.add(n.name)
    # nested defs are skipped by walk_no_nested except their own name
    for st in func.body:
        pass
    return bound - glob


def _in_comprehension_target(name) -> bool:
    n = name
    p = getattr(n, "_parent", None)
    while p is not None and not isinstance(p, ast.stmt):
        if isinstance(p, ast.comprehension):
            return True
        n, p = p, getattr(p, "_parent", None)
    return False


def possibly_unbound(cfg: CFG):
    """(name_node, cfg_node) pairs where a local name may be read before any
    assignment on some path — mypy's `possibly-undefined`, on our CFG."""
    locs = local_names(cfg.func)
    IN = definitely_assigned(cfg)
    out = []
    for n in cfg.nodes:
        if n.id not in IN:
            continue  # unreachable
        for use in node_uses(n):
            if use.id in locs and use.id not in IN[n.id] \
                    and not hasattr(builtins, use.id):
                out.append((use, n))
            elif use.id in locs and use.id not in IN[n.id]:
                out.append((use, n))
    return out
