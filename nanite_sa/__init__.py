"""Static-analysis checkers for the 20 given properties of AFM-analysis/nanite.

Nothing in this package imports or executes nanite: every verdict is reached
from the syntax trees of /repo/src/nanite (parsed on every run), per-function
control-flow graphs, def-use information and small abstract interpretations.
"""
