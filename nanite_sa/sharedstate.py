"""Shared mutable defaults (shared rule body used by C06-R11 / C10-R7).

Object state must start from objects of its own: an instance attribute that
is bound to a module-level mutable table (or to one of its mutable entries),
or to a mutable default argument, is one object shared by every instance -
an in-place edit through one curve (`idnt.preprocessing += [...]`, an edit
of the options dictionary) silently changes every other curve and every
curve created later.  The rule follows the value through local aliases
(Resolver) and accepts any copying call in between."""
from __future__ import annotations

import ast

from .astutil import const_str, norm, walk_no_nested
from .symres import Resolver

_MUT = (ast.Dict, ast.List, ast.Set, ast.ListComp, ast.DictComp, ast.SetComp)


def _global_value(repo, m, name, depth=0):
    """AST of the module-level value `name` refers to in module m"""
    if depth > 3:
        return None
    if name in m.assigns:
        return m.assigns[name][-1]
    tgt = m.imports.get(name)
    if not tgt:
        return None
    parts = [p for p in tgt.lstrip(".").split(".") if p]
    if not parts:
        return None
    sym = parts[-1]
    for cand in (".".join(parts[:-1]), parts[-2] if len(parts) > 1 else ""):
        for mm in repo.modules.values():
            if mm.name == cand or mm.name.endswith("." + cand) or \
                    (cand and mm.name.split(".")[-1] == cand):
                if sym in mm.assigns:
                    return mm.assigns[sym][-1]
    return None


def _is_mutable_display(v):
    if isinstance(v, _MUT):
        return True
    if isinstance(v, ast.Call) and norm(v.func) in ("dict", "list", "set",
                                                    "OrderedDict"):
        return True
    return False


def shared_mutable(repo, m, fn, expr):
    """why `expr` (already resolved) denotes a module-level / default
    mutable object, or None"""
    e = expr
    path = []
    while isinstance(e, ast.Subscript):
        path.append(e.slice)
        e = e.value
    if isinstance(e, ast.Name):
        # a parameter with a mutable default
        a = fn.args
        pos = a.posonlyargs + a.args
        for p_, d in zip(pos[len(pos) - len(a.defaults):], a.defaults):
            if p_.arg == e.id and not path and _is_mutable_display(d):
                return f"the mutable default of parameter `{e.id}`"
        params = {x.arg for x in pos + a.kwonlyargs}
        if e.id in params:
            return None
        locals_ = {n.id for n in ast.walk(fn) if isinstance(n, ast.Name)
                   and isinstance(n.ctx, ast.Store)}
        if e.id in locals_:
            return None
        v = _global_value(repo, m, e.id)
        if v is None:
            return None
        for key in reversed(path):
            k = const_str(key)
            if isinstance(v, ast.Dict) and k is not None:
                hit = [vv for kk, vv in zip(v.keys, v.values)
                       if kk is not None and const_str(kk) == k]
                if not hit:
                    return None
                v = hit[0]
            elif isinstance(v, ast.Call) and norm(v.func) == "dict" and \
                    k is not None:
                hit = [kw.value for kw in v.keywords if kw.arg == k]
                if not hit:
                    return None
                v = hit[0]
            else:
                return None
        if _is_mutable_display(v):
            return f"the module-level `{norm(expr)[:50]}`"
    return None


def rule(ctx, files, classes_only=True):
    repo = ctx.repo
    n = 0
    for m in repo.modules.values():
        if m.relpath not in files:
            continue
        for q, fn in m.funcs.items():
            if getattr(fn, "_inlined_helper", False):
                continue
            if "." not in q or q.split(".")[0] not in m.classes:
                continue
            if not fn.args.args:
                continue
            s0 = fn.args.args[0].arg
            R = None
            for st in walk_no_nested(fn, False):
                if not isinstance(st, ast.Assign):
                    continue
                for t in st.targets:
                    if isinstance(t, ast.Attribute) and isinstance(
                            t.value, ast.Name) and t.value.id == s0:
                        n += 1
                        if R is None:
                            R = Resolver(fn)
                        v = st.value
                        if isinstance(v, ast.Name) and hasattr(v, "_parent"):
                            rv = R.reaching_value(v)
                            if rv is not None:
                                v = rv
                        why = shared_mutable(repo, m, fn, v)
                        ctx.check(why is None, st,
                                  f"{q}: {s0}.{t.attr} owns its value",
                                  f"{m.relpath}:{q} binds {s0}.{t.attr} to "
                                  f"{why} without a copy: every instance "
                                  "shares this one object, an in-place "
                                  "edit through one curve changes the "
                                  "state (and the results) of all others")
    return n
