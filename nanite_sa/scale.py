"""Scale types: abstract interpretation of one function under the
substitution  v -> a*v + b  (a > 0) of the force-valued inputs.

Abstract values
  S(k, c)   value -> a**k * value (+ c*b when k == 1); INV = S(0, 0),
            LIN = S(1, 0), AFF(c) = S(1, c)
  ZERO      the constant 0 / np.zeros_like (compatible with any degree)
  Lst(e)    python list / tuple-of-unknown-length with element type e
  Tup(es)   fixed tuple
  Obj       opaque deterministic object whose parts are INV (lmfit result,
            dict of details, ...)
  TOP(why)  unknown   (=> the rule cannot decide: exit 2)
  ERR(why)  provably mixed (=> violation)

Only facts about *scaling* are tracked; the interpreter visits every
statement once (loops once, branches joined)."""
from __future__ import annotations

import ast
from fractions import Fraction

from .astutil import call_name, dotted, norm, target_names


class V:
    pass


class S(V):
    __slots__ = ("k", "c", "lit")

    def __init__(self, k=0, c=0, lit=False):
        self.k = Fraction(k)
        self.c = Fraction(c)
        self.lit = lit      # a numeric literal / pure number

    def __eq__(self, o):
        return isinstance(o, S) and (self.k, self.c) == (o.k, o.c)

    def __hash__(self):
        return hash((self.k, self.c))

    def __repr__(self):
        if self.k == 0:
            return "INV"
        if self.k == 1:
            return "LIN" if self.c == 0 else f"AFF({self.c})"
        return f"S({self.k})"


class Zero(V):
    def __repr__(self):
        return "ZERO"


class Lst(V):
    def __init__(self, e):
        self.e = e

    def __repr__(self):
        return f"[{self.e}]"


class Tup(V):
    def __init__(self, es):
        self.es = list(es)

    def __repr__(self):
        return "(" + ", ".join(map(repr, self.es)) + ")"


class Obj(V):
    def __repr__(self):
        return "OBJ"


class Top(V):
    def __init__(self, why):
        self.why = why

    def __repr__(self):
        return f"TOP<{self.why}>"


class Err(V):
    def __init__(self, why, node=None):
        self.why = why
        self.node = node

    def __repr__(self):
        return f"ERR<{self.why}>"


class Mix(V):
    def __init__(self, vs):
        self.vs = vs

    def __repr__(self):
        return "MIX{" + ", ".join(sorted(map(repr, self.vs))) + "}"


INV = S(0, 0)
LIN = S(1, 0)
NUM = S(0, 0, lit=True)


def flat(v):
    if isinstance(v, Mix):
        out = []
        for x in v.vs:
            out.extend(flat(x))
        return out
    return [v]


def join(a, b):
    if a is None:
        return b
    if b is None:
        return a
    fa, fb = flat(a), flat(b)
    lists = [x for x in fa + fb if isinstance(x, Lst)]
    if len(lists) > 1:
        e = None
        for x in lists:
            e = join(e, x.e)
        merged = Lst(e)
        fa = [x for x in fa if not isinstance(x, Lst)] + [merged]
        fb = [x for x in fb if not isinstance(x, Lst)]
    out = []
    for x in fa + fb:
        if isinstance(x, Zero) and any(isinstance(y, S) for y in fa + fb):
            continue
        if not any(_same(x, y) for y in out):
            out.append(x)
    if len(out) == 1:
        return out[0]
    return Mix(out)


def _same(x, y):
    if isinstance(x, S) and isinstance(y, S):
        return x == y
    if type(x) is not type(y):
        return False
    if isinstance(x, (Zero, Obj)):
        return True
    if isinstance(x, Lst):
        return _same(x.e, y.e) if x.e is not None and y.e is not None \
            else x.e is y.e
    if isinstance(x, Tup):
        return len(x.es) == len(y.es) and all(
            _same(a, b) for a, b in zip(x.es, y.es))
    return False


def is_inv(v):
    return all((isinstance(x, S) and x.k == 0 and x.c == 0)
               or isinstance(x, (Zero, Obj)) or (
                   isinstance(x, Lst) and (x.e is None or is_inv(x.e)))
               for x in flat(v))


def first_err(v):
    for x in flat(v):
        if isinstance(x, Err):
            return x
        if isinstance(x, (Lst,)) and x.e is not None:
            e = first_err(x.e)
            if e:
                return e
        if isinstance(x, Tup):
            for y in x.es:
                e = first_err(y)
                if e:
                    return e
    return None


def first_top(v):
    for x in flat(v):
        if isinstance(x, Top):
            return x
        if isinstance(x, Lst) and x.e is not None:
            t = first_top(x.e)
            if t:
                return t
        if isinstance(x, Tup):
            for y in x.es:
                t = first_top(y)
                if t:
                    return t
    return None


# ---------------------------------------------------------------------------

KEEP = {"mean", "average", "median", "min", "max", "nanmax", "nanmin",
        "nanmean", "nanmedian", "amax", "amin", "copy", "array", "asarray",
        "atleast_1d", "atleast_2d", "flatten", "ravel", "squeeze",
        "ascontiguousarray", "sort", "flip", "flipud", "percentile",
        "quantile", "float", "real", "maximum", "minimum", "clip",
        "cumsum_"}
KEEP_FILTERS = {"uniform_filter1d", "gaussian_filter1d", "gaussian_filter",
                "median_filter", "uniform_filter", "medfilt", "savgol_filter"}
SHIFT_KILL = {"std", "nanstd", "ptp", "gradient", "diff", "ediff1d"}
TO_INDEX = {"argmax", "argmin", "nanargmax", "nanargmin", "argsort", "where",
            "nonzero", "flatnonzero", "argwhere", "searchsorted"}
TO_MASK = {"isnan", "isinf", "isfinite", "isposinf", "isneginf",
           "logical_and", "logical_or", "logical_not", "any", "all",
           "array_equal", "allclose"}
NEED_INV = {"log", "log10", "log2", "log1p", "exp", "sin", "cos", "tan",
            "arctan", "tanh", "arcsin", "arccos"}
SUMS = {"sum", "nansum", "cumsum", "trapz", "trapezoid"}
INV_RESULT = {"len", "range", "arange", "int", "bool", "round", "abs_",
              "ones", "ones_like", "eye", "shape", "enumerate", "str",
              "isinstance", "hasattr", "sorted", "zip", "list", "tuple",
              "inspect.signature", "print", "dict"}


class Interp:
    def __init__(self, func, env, accessors=None, callees=None,
                 shift=False, free_ok=None):
        """env: parameter name -> V.  accessors: 'self.attr' -> V.
        callees: name -> callable(arg values) -> V (summaries)."""
        self.func = func
        self.env = dict(env)
        self.acc = accessors or {}
        self.callees = callees or {}
        self.shift = shift
        self.returns = []
        self.errors = []      # [(Err, node)]
        self.tops = []
        self.branch_errs = []
        self.nested = {}

    # -- driver -----------------------------------------------------------
    def run(self):
        self.block(self.func.body)
        return self.returns

    def block(self, stmts):
        for st in stmts:
            self.stmt(st)

    def _note(self, v, node):
        e = first_err(v)
        if e is not None and all(e is not x[0] for x in self.errors):
            self.errors.append((e, e.node or node))
        return v

    def stmt(self, st):
        if isinstance(st, (ast.FunctionDef, ast.AsyncFunctionDef)):
            self.nested[st.name] = st
            self.env[st.name] = Obj()
            return
        if isinstance(st, ast.Assign):
            v = self._note(self.ev(st.value), st)
            for t in st.targets:
                self.bind(t, v, st)
            return
        if isinstance(st, ast.AnnAssign) and st.value is not None:
            self.bind(st.target, self._note(self.ev(st.value), st), st)
            return
        if isinstance(st, ast.AugAssign):
            cur = self.ev(st.target)
            v = self._note(self.binop(cur, st.op, self.ev(st.value), st), st)
            self.bind(st.target, v, st, aug=True)
            return
        if isinstance(st, ast.Expr):
            v = st.value
            if isinstance(v, ast.Call) and isinstance(v.func, ast.Attribute)\
                    and v.func.attr in ("append", "extend") and isinstance(
                        v.func.value, ast.Name):
                name = v.func.value.id
                el = self._note(self.ev(v.args[0]), st) if v.args else None
                cur = self.env.get(name)
                if isinstance(cur, Lst):
                    if v.func.attr == "extend" and isinstance(el, Lst):
                        el = el.e
                    self.env[name] = Lst(join(cur.e, el))
                return
            self._note(self.ev(v), st)
            return
        if isinstance(st, ast.If):
            t = self.ev(st.test)
            self._check_test(t, st.test)
            saved = dict(self.env)
            self.block(st.body)
            e1 = self.env
            self.env = dict(saved)
            self.block(st.orelse)
            e2 = self.env
            self.env = {k: join(e1.get(k), e2.get(k))
                        for k in set(e1) | set(e2)}
            return
        if isinstance(st, (ast.For, ast.AsyncFor)):
            it = self.ev(st.iter)
            el = INV
            if isinstance(it, Lst):
                el = it.e if it.e is not None else INV
            elif isinstance(it, Tup):
                el = it
            elif isinstance(it, S):
                el = it
            if isinstance(st.iter, ast.Call) and call_name(st.iter) == \
                    "enumerate" and st.iter.args:
                inner = self.ev(st.iter.args[0])
                ie = inner.e if isinstance(inner, Lst) else inner
                el = Tup([INV, ie if ie is not None else INV])
            if isinstance(st.iter, ast.Call) and call_name(st.iter) == "zip":
                parts = [self.ev(a) for a in st.iter.args]
                el = Tup([p.e if isinstance(p, Lst) else p for p in parts])
            self.bind(st.target, el, st)
            saved = dict(self.env)
            self.block(st.body)
            self.env = {k: join(saved.get(k), self.env.get(k))
                        for k in set(saved) | set(self.env)}
            self.block(st.body)   # second pass with joined state
            self.block(st.orelse)
            return
        if isinstance(st, ast.While):
            t = self.ev(st.test)
            self._check_test(t, st.test)
            self.block(st.body)
            self.block(st.body)
            return
        if isinstance(st, ast.Return):
            v = self.ev(st.value) if st.value is not None else INV
            self._note(v, st)
            self.returns.append((v, st))
            return
        if isinstance(st, (ast.With, ast.AsyncWith)):
            self.block(st.body)
            return
        if isinstance(st, ast.Try):
            self.block(st.body)
            for h in st.handlers:
                self.block(h.body)
            self.block(st.orelse)
            self.block(st.finalbody)
            return
        if isinstance(st, ast.Assert):
            self._check_test(self.ev(st.test), st.test)
            return
        # pass, raise, break, continue, import, global ...

    def _check_test(self, t, node):
        e = first_err(t)
        if e is not None:
            self._note(t, node)
            return
        if first_top(t) is not None:
            self.tops.append((first_top(t), node))
            return
        if not is_inv(t) and not all(isinstance(x, (Lst, Tup, Obj))
                                     for x in flat(t)):
            err = Err(f"branch condition `{norm(node)[:60]}` is {t}: the "
                      "decision depends on the unit/offset of the force",
                      node)
            self.errors.append((err, node))

    def bind(self, target, v, st, aug=False):
        if isinstance(target, ast.Name):
            self.env[target.id] = v
        elif isinstance(target, (ast.Tuple, ast.List)):
            parts = None
            has_tup = any(isinstance(x, Tup) and len(x.es) == len(
                target.elts) for x in flat(v))
            for x in flat(v):
                if has_tup and isinstance(x, (S, Zero)):
                    # a scalar alternative (e.g. the None of a failed
                    # look-up) cannot be unpacked: that path does not get
                    # here
                    continue
                if isinstance(x, Tup) and len(x.es) == len(target.elts):
                    parts = x.es if parts is None else [
                        join(a, b) for a, b in zip(parts, x.es)]
                elif isinstance(x, Lst):
                    e = x.e if x.e is not None else INV
                    parts = [e] * len(target.elts) if parts is None else [
                        join(a, e) for a in parts]
                elif isinstance(x, (S, Zero, Obj, Top, Err)):
                    parts = [x] * len(target.elts) if parts is None else [
                        join(a, x) for a in parts]
            if parts is None:
                parts = [Top(f"unpacking {norm(st)[:40]}")] * len(target.elts)
            for t, p in zip(target.elts, parts):
                self.bind(t, p, st)
        elif isinstance(target, ast.Subscript):
            # masked / indexed store: the array's type is joined with the
            # stored value's type
            base = target.value
            if isinstance(base, ast.Name):
                cur = self.env.get(base.id)
                idx = self.ev(target.slice) if not isinstance(
                    target.slice, ast.Slice) else INV
                self._check_index(idx, target)
                if isinstance(cur, Obj) or cur is None:
                    return
                if isinstance(v, S) and v.lit and isinstance(cur, S):
                    # x[mask] = <number>: only 0/nan-like sentinels keep the
                    # degree; a non-zero number in a scaled array mixes
                    if isinstance(st, ast.Assign) and isinstance(
                            st.value, ast.Constant) and st.value.value in (
                                0, 0.0, False):
                        return
                    if cur.k == 0:
                        return
                    if isinstance(st, ast.Assign) and norm(st.value) in (
                            "np.nan", "numpy.nan"):
                        return
                    self.env[base.id] = Err(
                        f"number stored into {cur} array", st)
                    self.errors.append((self.env[base.id], st))
                    return
                self.env[base.id] = self._store_join(cur, v, st)
        elif isinstance(target, ast.Attribute):
            pass

    def _store_join(self, cur, v, st):
        if isinstance(cur, Zero):
            return v
        if isinstance(v, Zero):
            return cur
        if isinstance(cur, S) and isinstance(v, S):
            if cur == v:
                return cur
            if cur.k == 0 and cur.c == 0 and cur.lit:
                return v
            e = Err(f"{v} stored into {cur} array", st)
            self.errors.append((e, st))
            return e
        return join(cur, v)

    def _check_index(self, idx, node):
        if first_top(idx) is not None or first_err(idx) is not None:
            return
        if not is_inv(idx):
            e = Err(f"index `{norm(node)[:50]}` is {idx}", node)
            self.errors.append((e, node))

    # -- expressions --------------------------------------------------------
    def ev(self, n):
        if n is None:
            return INV
        if isinstance(n, ast.Constant):
            if isinstance(n.value, (int, float)) and not isinstance(
                    n.value, bool) and n.value == 0:
                return Zero()
            return S(0, 0, lit=True)
        if isinstance(n, ast.Name):
            if n.id in self.env:
                return self.env[n.id]
            if n.id in ("True", "False", "None"):
                return NUM
            return Top(f"name {n.id}")
        if isinstance(n, ast.Attribute):
            d = dotted(n)
            if d in self.acc:
                return self.acc[d]
            if d in ("np.nan", "numpy.nan", "np.inf", "np.pi", "numpy.pi",
                     "np.newaxis"):
                return NUM
            base = self.ev(n.value)
            if n.attr in ("size", "shape", "ndim", "dtype", "nbytes"):
                return INV
            if n.attr in ("T", "real", "flat"):
                return base
            if isinstance(base, Obj) and n.attr in ("eps", "tiny", "max",
                                                    "min", "resolution",
                                                    "epsilon"):
                return NUM
            if isinstance(base, Obj) or n.attr in ("value", "params",
                                                   "success", "best_fit",
                                                   "stderr"):
                if isinstance(base, Obj) or is_inv(base):
                    return INV if n.attr != "params" else Obj()
            if isinstance(base, Top):
                return base
            return Top(f"attribute {norm(n)[:40]}")
        if isinstance(n, ast.UnaryOp):
            v = self.ev(n.operand)
            if isinstance(n.op, ast.Not):
                return INV if first_err(v) is None else v
            if isinstance(n.op, ast.Invert):
                return v
            if isinstance(n.op, ast.USub) and isinstance(v, S):
                return S(v.k, -v.c, v.lit)
            return v
        if isinstance(n, ast.BinOp):
            return self.binop(self.ev(n.left), n.op, self.ev(n.right), n)
        if isinstance(n, ast.BoolOp):
            out = None
            for v in n.values:
                out = join(out, self.ev(v))
            return out
        if isinstance(n, ast.Compare):
            vals = [self.ev(n.left)] + [self.ev(c) for c in n.comparators]
            res = INV
            for a, b, op in zip(vals, vals[1:], n.ops):
                r = self.compare(a, b, op, n)
                if not is_inv(r):
                    res = r
            return res
        if isinstance(n, ast.IfExp):
            self._check_test(self.ev(n.test), n.test)
            return join(self.ev(n.body), self.ev(n.orelse))
        if isinstance(n, (ast.List, ast.Tuple)):
            es = [self.ev(e) for e in n.elts]
            if isinstance(n, ast.Tuple):
                return Tup(es)
            out = None
            for e in es:
                out = join(out, e)
            return Lst(out)
        if isinstance(n, ast.ListComp):
            saved = dict(self.env)
            for g in n.generators:
                it = self.ev(g.iter)
                el = it.e if isinstance(it, Lst) and it.e is not None else (
                    it if isinstance(it, S) else INV)
                self.bind(g.target, el, n)
            v = self.ev(n.elt)
            self.env = saved
            return Lst(v)
        if isinstance(n, ast.Dict):
            return Obj()
        if isinstance(n, ast.Subscript):
            return self.subscript(n)
        if isinstance(n, ast.Call):
            return self.call(n)
        if isinstance(n, ast.JoinedStr):
            return NUM
        if isinstance(n, ast.Lambda):
            return Obj()
        if isinstance(n, ast.Starred):
            return self.ev(n.value)
        return Top(f"expression {type(n).__name__}")

    def subscript(self, n):
        base = self.ev(n.value)
        if not isinstance(n.slice, ast.Slice):
            idx = self.ev(n.slice)
            self._check_index(idx, n)
        else:
            for part in (n.slice.lower, n.slice.upper, n.slice.step):
                if part is not None:
                    self._check_index(self.ev(part), n)
        outs = None
        for b in flat(base):
            if isinstance(b, Tup):
                if isinstance(n.slice, ast.Constant) and isinstance(
                        n.slice.value, int) and -len(b.es) <= \
                        n.slice.value < len(b.es):
                    outs = join(outs, b.es[n.slice.value])
                else:
                    o = None
                    for e in b.es:
                        o = join(o, e)
                    outs = join(outs, o)
            elif isinstance(b, Lst):
                if isinstance(n.slice, ast.Slice):
                    outs = join(outs, b)
                else:
                    outs = join(outs, b.e if b.e is not None else INV)
            elif isinstance(b, Obj):
                outs = join(outs, INV)
            else:
                outs = join(outs, b)
        return outs

    def binop(self, a, op, b, node):
        res = None
        for x in flat(a):
            for y in flat(b):
                res = join(res, self._binop1(x, op, y, node))
        return res

    def _binop1(self, a, op, b, node):
        for v in (a, b):
            if isinstance(v, (Err, Top)):
                return v
        if isinstance(a, Lst) or isinstance(b, Lst):
            ea = a.e if isinstance(a, Lst) else a
            eb = b.e if isinstance(b, Lst) else b
            if ea is None or eb is None:
                return Lst(ea or eb)
            return Lst(self.binop(ea, op, eb, node))
        if isinstance(a, (Obj, Tup)) or isinstance(b, (Obj, Tup)):
            return Obj()
        if isinstance(op, (ast.Add, ast.Sub)):
            if isinstance(a, Zero):
                if isinstance(b, S) and isinstance(op, ast.Sub):
                    return S(b.k, -b.c)
                return b
            if isinstance(b, Zero):
                return a
            if a.k != b.k:
                return Err(f"`{norm(node)[:60]}` adds {a} and {b}", node)
            c = a.c + b.c if isinstance(op, ast.Add) else a.c - b.c
            return S(a.k, c)
        if isinstance(op, (ast.Mult, ast.MatMult)):
            if isinstance(a, Zero) or isinstance(b, Zero):
                return Zero()
            if a.c != 0 or b.c != 0:
                sh, ot = (a, b) if a.c != 0 else (b, a)
                if ot.k == 0 and ot.c == 0 and ot.lit:
                    return S(sh.k, sh.c)   # (v+b)*number: still one offset
                return Err(f"`{norm(node)[:60]}` multiplies the offset-"
                           f"carrying {sh} by {ot}", node)
            return S(a.k + b.k, 0)
        if isinstance(op, (ast.Div, ast.FloorDiv, ast.Mod)):
            if isinstance(a, Zero):
                return Zero()
            if isinstance(b, Zero):
                return Err("division by zero constant", node)
            if b.c != 0:
                return Err(f"`{norm(node)[:60]}` divides by the offset-"
                           f"carrying {b}", node)
            if a.c != 0:
                if b.k == 0 and b.lit:
                    return S(a.k, a.c)
                return Err(f"`{norm(node)[:60]}` divides the offset-"
                           f"carrying {a} by {b}", node)
            return S(a.k - b.k, 0)
        if isinstance(op, ast.Pow):
            if isinstance(a, Zero):
                return Zero()
            if isinstance(b, Zero):
                return NUM
            if b.k != 0:
                return Err(f"`{norm(node)[:60]}`: exponent is {b}", node)
            if a.k == 0 and a.c == 0:
                return INV
            if a.c != 0:
                return Err(f"`{norm(node)[:60]}`: power of offset-carrying "
                           f"{a}", node)
            e = None
            if isinstance(node, ast.BinOp):
                try:
                    e = Fraction(str(ast.literal_eval(node.right)))
                except Exception:
                    e = None
            if e is None:
                return Top(f"power with non-literal exponent {norm(node)}")
            return S(a.k * e, 0)
        if isinstance(op, (ast.BitAnd, ast.BitOr, ast.BitXor)):
            return INV if (is_inv(a) and is_inv(b)) else Err(
                f"`{norm(node)[:60]}` combines {a} and {b} bitwise", node)
        return Top(f"operator {type(op).__name__}")

    def compare(self, a, b, op, node):
        res = INV
        for x in flat(a):
            for y in flat(b):
                r = self._cmp1(x, y, op, node)
                if not is_inv(r):
                    res = r
        return res

    def _cmp1(self, a, b, op, node):
        for v in (a, b):
            if isinstance(v, (Err, Top)):
                return v
        if isinstance(op, (ast.In, ast.NotIn, ast.Is, ast.IsNot)):
            return INV
        if isinstance(a, (Lst, Tup, Obj)) or isinstance(b, (Lst, Tup, Obj)):
            return INV
        if isinstance(a, Zero) or isinstance(b, Zero):
            o = b if isinstance(a, Zero) else a
            if isinstance(o, Zero) or (isinstance(o, S) and o.c == 0):
                return INV        # sign test: scale invariant
            return Err(f"`{norm(node)[:60]}` compares offset-carrying {o} "
                       "with 0", node)
        if a.k == b.k and a.c == b.c:
            return INV
        return Err(f"`{norm(node)[:60]}` compares {a} with {b}: the outcome "
                   "changes with the unit/offset of the force", node)

    # -- calls ----------------------------------------------------------------
    def call(self, n):
        cn = call_name(n) or ""
        short = cn.split(".")[-1]
        args = [self.ev(a) for a in n.args]
        kws = {k.arg: self.ev(k.value) for k in n.keywords if k.arg}
        recv = None
        is_method = False
        if not cn and isinstance(n.func, ast.Attribute):
            short = n.func.attr
        if isinstance(n.func, ast.Attribute) and not cn.startswith(
                ("np.", "numpy.", "ndimage.", "scipy.", "lmfit.", "im.",
                 "spsig.", "math.", "warnings.", "copy.")):
            recv = self.ev(n.func.value)
            is_method = True
        for v in args + list(kws.values()) + ([recv] if recv else []):
            e = first_err(v)
            if e is not None:
                return e
        if cn in self.callees:
            return self.callees[cn](args, kws, n)
        if short in self.nested and not is_method:
            return Obj()
        a0 = recv if is_method else (args[0] if args else None)
        if isinstance(a0, Mix):
            out = None
            for x in flat(a0):
                out = join(out, self._apply(n, cn, short, x, args, kws,
                                            is_method))
            return out
        return self._apply(n, cn, short, a0, args, kws, is_method)

    def _apply(self, n, cn, short, a0, args, kws, is_method):
        if not is_method and args:
            args = [a0] + list(args[1:])
        if cn in ("np.linspace", "numpy.linspace"):
            if len(args) >= 2:
                r = self.compare(args[0], args[1], ast.Lt(), n)
                if isinstance(r, Err):
                    return Err(f"linspace between {args[0]} and {args[1]}",
                               n)
                return join(args[0], args[1]) if not isinstance(
                    args[0], Zero) else args[1]
        if cn in ("np.zeros_like", "np.zeros", "numpy.zeros_like"):
            return Zero()
        if cn in ("np.full_like", "np.full") and len(args) >= 2:
            return args[1]
        if cn in ("np.convolve", "numpy.convolve", "np.correlate"):
            x, kern = args[0], args[1] if len(args) > 1 else INV
            out = self.binop(x, ast.Mult(), kern, n)
            mode = next((norm(k.value) for k in n.keywords
                         if k.arg == "mode"), "'full'")
            if isinstance(x, S) and x.c != 0:
                return Err(f"`{norm(n)[:60]}`: convolution zero-pads the "
                           "edges, which is not invariant under a constant "
                           "offset of the signal", n)
            return out
        if cn in ("np.linalg.lstsq", "numpy.linalg.lstsq") and len(args) >= 2:
            A, y = args[0], args[1]
            if is_inv(A):
                return Tup([y, y, INV, INV])
            return Top("lstsq with non-invariant design matrix")
        if cn in ("np.polyfit", "numpy.polyfit") and len(args) >= 2:
            if is_inv(args[0]):
                return args[1]
            return Top("polyfit with scaled abscissa")
        if cn in ("np.vstack", "np.hstack", "np.concatenate", "np.stack",
                  "np.column_stack"):
            v = args[0] if args else INV
            return v.e if isinstance(v, Lst) and v.e is not None else v
        if cn in ("lmfit.minimize", "minimize"):
            every = list(args) + list(kws.values())
            for a in every:
                for x in flat(a):
                    if isinstance(x, Tup):
                        every.extend(x.es)
            bad = [a for a in every if not isinstance(a, Tup)
                   and not is_inv(a) and first_top(a) is None]
            if bad:
                return Err(f"`{norm(n)[:50]}`: the inner fit receives "
                           f"{bad[0]} data (not normalised)", n)
            return Obj()
        if cn == "lmfit.Parameters" or short in ("Parameters",):
            return Obj()
        if cn in ("np.finfo", "np.iinfo", "numpy.finfo", "numpy.iinfo",
                  "sys.float_info"):
            return Obj()
        if short in KEEP_FILTERS:
            # scipy.ndimage edge handling: every mode but "constant" pads
            # with samples of the signal itself (affine-equivariant);
            # "constant" pads with cval (default 0.0), which does not follow
            # a constant offset of the signal
            mk = next((k.value for k in n.keywords if k.arg == "mode"), None)
            if mk is not None and short not in ("medfilt", "savgol_filter"):
                ms = mk.value if isinstance(mk, ast.Constant) else None
                if not isinstance(ms, str):
                    return Top(f"edge mode of `{norm(n)[:50]}` is not a "
                               "literal")
                if ms in ("constant", "grid-constant") and \
                        isinstance(a0, S) and a0.c != 0 and \
                        not any(k.arg == "cval" for k in n.keywords):
                    return Err(f"`{norm(n)[:60]}`: the filter pads the "
                               "edges with zeros, which is not invariant "
                               "under a constant offset of the signal", n)
            if short == "savgol_filter" and mk is not None and \
                    isinstance(mk, ast.Constant) and mk.value == "constant" \
                    and isinstance(a0, S) and a0.c != 0 and \
                    not any(k.arg == "cval" for k in n.keywords):
                return Err(f"`{norm(n)[:60]}`: the filter pads the edges "
                           "with zeros, which is not invariant under a "
                           "constant offset of the signal", n)
            return a0 if a0 is not None else Top(cn)
        if short in ("max", "min") and not is_method and len(args) >= 2 \
                and cn in ("max", "min"):
            out = args[0]
            for other in args[1:]:
                r = self.compare(out, other, ast.Lt(), n)
                if isinstance(r, Err):
                    return Err(f"`{norm(n)[:60]}` takes the {short} of "
                               f"{out} and {other}: the outcome changes "
                               "with the unit/offset of the force", n)
                out = join(out, other)
            return out
        if short in KEEP:
            if short in ("maximum", "minimum") and len(args) >= 2:
                r = self.compare(args[0], args[1], ast.Lt(), n)
                if isinstance(r, Err):
                    return r
                return join(args[0], args[1])
            return a0 if a0 is not None else INV
        if short in ("abs", "absolute", "fabs"):
            if isinstance(a0, S) and a0.c != 0:
                return Err(f"`{norm(n)[:60]}`: absolute value of the "
                           f"offset-carrying {a0}", n)
            return a0
        if short in SHIFT_KILL:
            if isinstance(a0, S):
                return S(a0.k, 0)
            return a0
        if short == "var":
            if isinstance(a0, S):
                return S(2 * a0.k, 0)
            return a0
        if short in TO_INDEX:
            if len(args) >= 3 and short == "where":
                return join(args[1], args[2])
            return Lst(INV) if short in ("where", "nonzero") else INV
        if short in TO_MASK:
            return INV
        if short == "sign":
            if isinstance(a0, S) and a0.c != 0:
                return Err(f"sign of offset-carrying {a0}", n)
            return INV
        if short == "sqrt":
            if isinstance(a0, S):
                if a0.c != 0:
                    return Err(f"sqrt of offset-carrying {a0}", n)
                return S(a0.k / 2, 0)
            return a0
        if short in NEED_INV:
            if a0 is not None and first_top(a0) is None and not is_inv(a0):
                return Err(f"`{norm(n)[:60]}`: {short} of the {a0} "
                           "quantity (depends on the unit of the force)", n)
            return a0 if isinstance(a0, Top) else INV
        if short in SUMS:
            if isinstance(a0, S) and a0.c != 0:
                return Err(f"`{norm(n)[:60]}`: sum of offset-carrying {a0} "
                           "grows with the offset times the length", n)
            if isinstance(a0, Lst):
                return a0.e if a0.e is not None else INV
            return a0 if a0 is not None else INV
        if short == "count_nonzero":
            # a count of non-zero entries: unit-free only for masks and
            # unit-free data (x != 0 is scale invariant for S(k, 0) too)
            if isinstance(a0, S) and a0.c != 0:
                return Err(f"`{norm(n)[:60]}`: zero test of offset-carrying "
                           f"{a0}", n)
            return INV
        if short in INV_RESULT or cn in INV_RESULT:
            return INV
        if short in ("add", "valuesdict", "guess", "fit", "eval", "get",
                     "items", "keys", "values", "format", "warn", "index",
                     "copy_", "update"):
            return Obj() if short not in ("index",) else INV
        if short in ("bincount", "unique", "histogram"):
            return a0 if a0 is not None else INV
        if cn in ("np.nan_to_num",):
            return a0
        return Top(f"call {cn or norm(n.func)[:30]}")
