"""Clauses about IndentationFitter._fit / fit / compute_emodulus_vs_mindelta
and model.residuals, shared by C01, C04, C05, C11, C13.

All clauses work on *resolved* expressions (single-assignment locals
inlined, commutative operands sorted), so renaming or hoisting locals and
reordering factors does not change a verdict."""
from __future__ import annotations

import ast
import re

from . import facts, fitrules
from .astutil import (call_name, calls_in, const_str, dotted, kwarg, norm,
                      walk_no_nested, arg_or_kw)
from .cfg import CFG
from .guards import conditions_at
from .loader import AnchorError, Undecided
from .symres import Resolver, canon_text, factors

K = "self.fp['gcf_k']"


class FitFacts:
    """Structured facts of IndentationFitter._fit (anchors vanish => exit 2)."""

    def __init__(self, repo):
        self.mod = repo.mod("fit")
        self.fn = self.mod.func("IndentationFitter._fit")
        self.res = Resolver(self.fn)
        self.cfg = CFG(self.fn)
        mins = [c for c in calls_in(self.fn)
                if call_name(c) in ("lmfit.minimize", "minimize",
                                    "lmfit.minimizer.minimize")]
        if len(mins) != 1:
            raise AnchorError("IndentationFitter._fit must contain exactly "
                              f"one lmfit.minimize call (found {len(mins)})")
        self.minimize = mins[0]
        self.min_node = self.cfg.node_containing(self.minimize)
        st = self.minimize
        while not isinstance(st, ast.stmt):
            st = st._parent
        self.min_stmt = st
        self.fitvar = None
        if isinstance(st, ast.Assign) and isinstance(st.targets[0], ast.Name):
            self.fitvar = st.targets[0].id
        if self.fitvar is None:
            raise Undecided("result of lmfit.minimize is not bound to a name")
        self.res = Resolver(self.fn, keep={self.fitvar})
        # the enclosing branch
        br = st._parent
        if not isinstance(br, ast.If):
            # guard-clause form: `if <too few points>: <failure>; return`
            # followed by the fit
            blk = None
            for fld in ("body", "orelse", "finalbody"):
                b_ = getattr(br, fld, None)
                if isinstance(b_, list) and any(x is st for x in b_):
                    blk = b_
            guard = None
            if blk is not None:
                i = [k for k, x in enumerate(blk) if x is st][0]
                for x in reversed(blk[:i]):
                    if isinstance(x, ast.If) and not x.orelse and x.body \
                            and isinstance(x.body[-1], ast.Return):
                        guard = x
                        break
            if guard is None:
                raise Undecided("lmfit.minimize is not inside the "
                                "too-few-points branch")
            self.branch = guard
            gi = [k for k, x in enumerate(blk) if x is guard][0]
            self.success_body = blk[gi + 1:]
            self.failure_body = guard.body[:-1]
            self.success_pol = False
            return
        self.branch = br
        self.success_body = br.body if any(s is st for s in br.body) \
            else br.orelse
        self.failure_body = br.orelse if self.success_body is br.body \
            else br.body
        self.success_pol = self.success_body is br.body

    def r(self, expr) -> str:
        return self.res.text(expr)

    def kw(self, name, idx=None):
        return arg_or_kw(self.minimize, idx, name)


def _stores_in(body, recv_pred):
    """[(target, value, stmt)] item stores in a statement list"""
    out = []
    for st in body:
        for n in ast.walk(st):
            if isinstance(n, ast.Assign):
                for t in n.targets:
                    if isinstance(t, ast.Subscript) and recv_pred(t.value):
                        out.append((t, n.value, n))
    return out


# ---------------------------------------------------------------------------

def clause_minimize_inputs(ctx):
    """one model, one mask; settings reach the optimiser"""
    F = FitFacts(ctx.repo)
    ctx.analysed(F.fn)
    md = "model.models_available[self.fp['model_key']]"
    fcn = F.kw("fcn", 0)
    ctx.check(fcn is not None and F.r(fcn) == f"{md}.residual", F.minimize,
              f"objective = {F.r(fcn) if fcn is not None else None}",
              "lmfit.minimize does not minimise the residual function of "
              "the model selected by the 'model_key' setting")
    params = F.kw("params", 1)
    ptxt = F.r(params) if params is not None else "None"
    ctx.check(ptxt in ("copy.deepcopy(self.fp['params_initial'])",
                       "self.fp['params_initial']"), F.minimize,
              f"params = {ptxt}",
              "the optimisation does not start from the stored initial "
              "parameters: a supplied initial guess never reaches the "
              "optimiser")
    meth = F.kw("method", 2)
    ctx.check(meth is not None and F.r(meth) == "self.fp['method']",
              F.minimize, f"method = {F.r(meth) if meth is not None else None}",
              "the 'method' setting does not reach lmfit.minimize")
    star = [kw for kw in F.minimize.keywords if kw.arg is None]
    ctx.check(any(F.r(kw.value) == "self.fp['method_kws']" for kw in star),
              F.minimize, "**self.fp['method_kws']",
              "the 'method_kws' setting does not reach lmfit.minimize")
    args = F.kw("args", 3)
    if not isinstance(args, ast.Tuple) or len(args.elts) != 3:
        raise Undecided("lmfit.minimize args is not a 3-tuple (x, y, "
                        "weight_cp)")
    x, y, w = [F.r(e) for e in args.elts]
    mask = "self.fit_range"
    ctx.check(x == canon_text(ast.parse(
        f"self.x_axis[{mask}] * {K}", mode="eval").body), F.minimize,
        f"abscissa = {x}",
        "the fitted abscissa is not the x axis restricted to the fit range "
        "and scaled by the geometrical correction factor")
    ctx.check(y == f"self.y_axis[{mask}]", F.minimize, f"ordinate = {y}",
              "the fitted ordinate is not the y axis restricted to the same "
              "fit-range mask as the abscissa: points of the other segment "
              "or outside the interval enter the optimisation")
    ctx.check(w == "self.fp['weight_cp']", F.minimize, f"weight = {w}",
              "the 'weight_cp' setting does not reach the residual function")
    # the arrays the fitter works on are the curve's columns selected by
    # the settings, the segment mask compares with the 'segment' setting
    init = F.mod.func("IndentationFitter.__init__")
    want = {"self.segment": "idnt['segment'] == self.fp['segment']",
            "self.x_axis": "idnt[self.fp['x_axis']]",
            "self.y_axis": "idnt[self.fp['y_axis']]"}
    got = {}
    for st_ in walk_no_nested(init, False):
        if isinstance(st_, ast.Assign) and dotted(st_.targets[0]) in want:
            got.setdefault(dotted(st_.targets[0]), []).append(norm(st_.value))
    for k, v in want.items():
        ctx.check(got.get(k) == [v], init, f"{k} = {got.get(k)}",
                  f"the fitter's {k} is not `{v}`: points of the wrong "
                  "segment / a column other than the selected axis are "
                  "fitted")
    for k in ("self.fit_range", "self.fit_curve", "self.fit_residuals"):
        vals = got.get(k)
    # the guard compares varied parameters with the number of points used
    t = F.r(F.branch.test)
    ok = "x_axis[self.fit_range]" in t and ".vary" in t
    ctx.check(ok, F.branch, "too-few-points guard counts the fitted points",
              "the guard that decides whether a fit is possible does not "
              "compare the varied parameters with the number of fitted "
              "points")


def clause_nan_unless_written(ctx):
    F = FitFacts(ctx.repo)
    cfg = F.cfg
    cols = {"self.fit_curve": "fit", "self.fit_residuals": "fit residuals"}
    branch_node = cfg.node_of_stmt(F.branch)
    for col, name in cols.items():
        resets = []
        for n in cfg.nodes:
            a = n.ast
            if n.kind == "stmt" and isinstance(a, ast.Assign):
                for t in a.targets:
                    if isinstance(t, ast.Subscript) and F.r(t.value) == col \
                            and norm(t.slice) in (":", "...") and \
                            F.r(a.value) in ("np.nan", "numpy.nan",
                                             "float('nan')", "math.nan"):
                        resets.append(n)
                if (isinstance(a.targets[0], ast.Attribute)
                        and dotted(a.targets[0]) == col
                        and "nan" in norm(a.value)):
                    resets.append(n)
            if n.kind == "stmt" and isinstance(a, ast.Expr) and isinstance(
                    a.value, ast.Call) and isinstance(
                        a.value.func, ast.Attribute) and \
                    a.value.func.attr == "fill" and \
                    F.r(a.value.func.value) == col and "nan" in norm(a.value):
                resets.append(n)
        good = branch_node is not None and any(
            cfg.dominates(r.id, branch_node.id) for r in resets)
        ctx.check(good, F.fn, f"column '{name}' reset to NaN before fitting",
                  f"_fit does not reset the whole '{name}' array to NaN on "
                  "every path before deciding whether to fit: after a "
                  "multi-pass fit whose last pass cannot be fitted the "
                  "column shows the curve of an earlier pass while "
                  "success is False")
        # the arrays are private to the fitter (allocated in __init__)
    recv = lambda v: F.r(v) in cols
    ok_stores = _stores_in(F.success_body, recv)
    names = {F.r(t.value) for t, v, s in ok_stores}
    ctx.check(names == set(cols), F.branch,
              f"success branch writes {sorted(cols.values())}",
              "the branch that optimises does not write both result columns")
    for t, v, s in ok_stores:
        idx = F.r(t.slice)
        ctx.check(idx == "self.segment", s,
                  f"{cols[F.r(t.value)]}[{idx}] written through the segment "
                  "mask",
                  f"the '{cols[F.r(t.value)]}' column is written through "
                  f"`{idx}` instead of the segment mask: it is not NaN "
                  "outside the fitted segment (or not defined on all of it)")
    bad = _stores_in(F.failure_body, recv)
    ctx.check(not bad, F.branch, "failure branch writes no column",
              "the branch that does not fit writes a result column")
    # success flags
    succ_true = []
    for body, want in ((F.success_body, True), (F.failure_body, False)):
        found = None
        for st in body:
            for n in ast.walk(st):
                if isinstance(n, ast.Assign) and norm(n.targets[0]) == \
                        "self.fp['success']" and isinstance(
                            n.value, ast.Constant):
                    found = n.value.value
                if isinstance(n, ast.Dict):
                    for k, v in zip(n.keys, n.values):
                        if const_str(k) == "success" and isinstance(
                                v, ast.Constant):
                            found = v.value
        ctx.check(found is want, F.branch,
                  f"success={want} in the {'fitting' if want else 'non-fitting'} branch",
                  f"the {'fitting' if want else 'non-fitting'} branch of _fit "
                  f"stores success={found!r}")
    # nobody but the fitting branch of _fit announces success
    inside = {id(n) for st in F.success_body for n in ast.walk(st)}
    for q, f in F.mod.funcs.items():
        if not q.startswith("IndentationFitter.") or getattr(
                f, "_inlined_helper", False):
            continue
        for n in walk_no_nested(f, False):
            hit = None
            if isinstance(n, ast.Assign) and isinstance(
                    n.targets[0], ast.Subscript) and const_str(
                    n.targets[0].slice) == "success" and isinstance(
                    n.value, ast.Constant) and n.value.value is True:
                hit = n
            if isinstance(n, ast.Dict):
                for k, v in zip(n.keys, n.values):
                    if k is not None and const_str(k) == "success" and \
                            isinstance(v, ast.Constant) and v.value is True:
                        hit = n
            if hit is not None and id(hit) not in inside:
                ctx.fail(hit, f"success=True stored in {q}",
                         f"fit.py:{q} stores success=True outside the "
                         "fitting branch of _fit: success is announced "
                         "without the fit column, residuals and parameters "
                         "of that pass having been written (e.g. after a "
                         "pass that left NaN columns)")


def clause_writeback_consistent(ctx):
    F = FitFacts(ctx.repo)
    md = "model.models_available[self.fp['model_key']]"
    fv = F.fitvar
    xs = canon_text(ast.parse(f"self.x_axis[self.segment] * {K}",
                              mode="eval").body)
    recv = lambda v: F.r(v) in ("self.fit_curve", "self.fit_residuals")
    stores = _stores_in(F.success_body, recv)
    minargs = F.kw("args", 3)
    wmin = F.r(minargs.elts[2]) if isinstance(minargs, ast.Tuple) and len(
        minargs.elts) == 3 else None
    seen = set()
    for t, v, s in stores:
        col = F.r(t.value)
        seen.add(col)
        if not isinstance(v, ast.Call):
            ctx.fail(s, f"{col} <- {norm(v)[:60]}",
                     "result column is not computed by the model's "
                     "function")
            continue
        callee = F.r(v.func)
        args = [F.r(a) for a in v.args]
        if col == "self.fit_curve":
            ok = callee == f"{md}.model" and len(args) == 2 and \
                args[0] == f"{fv}.params" and args[1] == xs
            ctx.check(ok, s, f"fit column = {callee}({', '.join(args)})",
                      "the 'fit' column is not the selected model evaluated "
                      "with the fitted parameters on the (k-scaled) abscissa "
                      "of the whole segment")
        else:
            ok = callee == f"{md}.residual" and len(args) == 4 and \
                args[0] == f"{fv}.params" and args[1] == xs and \
                args[2] == "self.y_axis[self.segment]" and args[3] == wmin
            ctx.check(ok, s, f"residual column = {callee}({', '.join(args)})",
                      "the 'fit residuals' column is not the residual "
                      "function that was minimised, evaluated with the "
                      "fitted parameters, the same abscissa domain and the "
                      "same weighting distance (chi-square and the column "
                      "would disagree)")
    # unscale happens after both evaluations
    cfg = F.cfg
    uns = [n for n in cfg.nodes if n.kind == "stmt" and any(
        isinstance(c.func, ast.Attribute) and c.func.attr == "set"
        and F.r(c.func.value) == f"{fv}.params['contact_point']"
        for c in fitrules.node_calls(n))]
    ctx.floor("unscaling of the fitted contact point", len(uns), 1)
    for t, v, s in stores:
        n = cfg.node_of_stmt(s)
        for u in uns:
            ctx.check(cfg.dominates(n.id, u.id), s,
                      f"{F.r(t.value)} evaluated before the contact point is "
                      "converted back",
                      "a result column is evaluated after the fitted contact "
                      "point was divided by the correction factor while the "
                      "abscissa is still k-scaled")
    # result dictionary
    upd = [c for c in calls_in(F.fn) if isinstance(c.func, ast.Attribute)
           and c.func.attr in ("update", "restore") and F.r(c.func.value) == "self.fp"
           and c.args and isinstance(c.args[0], ast.Dict)]
    ctx.floor("result update in _fit", len(upd), 1)
    d = {const_str(k): v for k, v in zip(upd[0].args[0].keys,
                                         upd[0].args[0].values)}
    want = {"params_fitted": f"{fv}.params", "chi_sqr": f"{fv}.chisqr"}
    for k, w in want.items():
        got = F.r(d[k]) if k in d else None
        ctx.check(got == w, upd[0], f"result '{k}' = {got}",
                  f"reported '{k}' is {got}, not the optimiser's {w}")
    for u in uns:
        un = cfg.node_containing(upd[0])
        ctx.check(un is not None and cfg.dominates(u.id, un.id), upd[0],
                  "results stored after the contact point is converted back",
                  "params_fitted is stored before the contact point is "
                  "converted back to measured units")


def clause_gcf_pairing(ctx):
    """scale before / unscale after, once each, nothing else scaled"""
    F = FitFacts(ctx.repo)
    fv = F.fitvar
    fn = F.fn
    # initial contact point: scaled once on a private copy
    sets = [c for c in calls_in(fn) if isinstance(c.func, ast.Attribute)
            and c.func.attr == "set" and "contact_point" in F.r(c.func.value)]
    ini = [c for c in sets if not F.r(c.func.value).startswith(f"{fv}.")]
    fin = [c for c in sets if F.r(c.func.value).startswith(f"{fv}.")]
    ctx.check(len(ini) == 1, fn, f"{len(ini)} scaling(s) of the initial "
              "contact point",
              f"the initial contact point is rescaled {len(ini)} times "
              "before the optimisation (exactly one multiplication by the "
              "correction factor is needed)")
    for c in ini:
        base = F.r(c.func.value)
        ctx.check(base.startswith("copy.deepcopy(self.fp['params_initial'])"),
                  c, f"scaled object: {base}",
                  "the contact point is rescaled on the stored initial "
                  "parameters themselves, not on a private copy: the "
                  "stored guess is no longer in measured units and is "
                  "scaled again in every further pass")
        v = kwarg(c, "value") or (c.args[0] if c.args else None)
        num, den = factors(F.res.resolve(v)) if v is not None else ([], [])
        cpv = "copy.deepcopy(self.fp['params_initial'])['contact_point'].value"
        ok = sorted(num) == sorted([K, cpv]) and not den
        ctx.check(ok, c, f"initial contact point := {F.r(v)}",
                  "the initial contact point handed to the optimiser is not "
                  "(stored guess) x gcf_k")
        extra = [kw.arg for kw in c.keywords if kw.arg not in ("value",)]
        ctx.check(not extra, c, "only the value is rescaled",
                  f"the rescaling also alters {extra} of the contact point")
        pm = kwarg(F.minimize, "params") or F.minimize.args[1]
        ctx.check(F.r(pm) + "['contact_point']" == base, c,
                  "the rescaled object is the one handed to lmfit.minimize",
                  "the rescaled parameters are not the ones optimised")
        mn = F.cfg.node_containing(F.minimize)
        cn = F.cfg.node_containing(c)
        ctx.check(cn is not None and F.cfg.dominates(cn.id, mn.id), c,
                  "rescaling precedes the optimisation on every path",
                  "the optimisation can run with an unscaled contact point")
    ctx.check(len(fin) == 1, fn, f"{len(fin)} back-conversion(s) of the "
              "fitted contact point",
              f"the fitted contact point is converted back {len(fin)} times")
    for c in fin:
        v = kwarg(c, "value") or (c.args[0] if c.args else None)
        num, den = factors(F.res.resolve(v)) if v is not None else ([], [])
        ok = num == [f"{fv}.params['contact_point'].value"] and den == [K]
        ctx.check(ok, c, f"fitted contact point := {F.r(v)}",
                  "the reported contact point is not (fitted value) / gcf_k")
        ctx.check(not [kw for kw in c.keywords if kw.arg != "value"], c,
                  "only the value is converted back",
                  "the back-conversion alters other attributes")
    # xmin / xmax
    upd = [c for c in calls_in(fn) if isinstance(c.func, ast.Attribute)
           and c.func.attr in ("update", "restore") and c.args
           and isinstance(c.args[0], ast.Dict)]
    if upd:
        d = {const_str(k): v for k, v in zip(upd[0].args[0].keys,
                                             upd[0].args[0].values)}
        xk = canon_text(ast.parse(f"self.x_axis[self.fit_range] * {K}",
                                  mode="eval").body)
        for key, red in (("xmin", "min"), ("xmax", "max")):
            if key not in d:
                ctx.fail(upd[0], f"result '{key}'", f"'{key}' not reported")
                continue
            num, den = factors(F.res.resolve(d[key]))
            alt = [f"({xk}).{red}()", f"np.{red}({xk})"]
            plain = [f"self.x_axis[self.fit_range].{red}()",
                     f"np.{red}(self.x_axis[self.fit_range])"]
            ok = (len(num) == 1 and num[0] in alt and den == [K]) or (
                len(num) == 1 and num[0] in plain and not den)
            ctx.check(ok, d[key], f"'{key}' = {F.r(d[key])}",
                      f"reported '{key}' is not the extreme fitted abscissa "
                      "in measured (uncorrected) units")
    # lengths are compared in one unit system: both sides corrected or
    # both measured
    def k_degree(e):
        r_ = F.res.resolve(e)
        txt = norm(r_)
        if "x_axis" not in txt and "contact_point" not in txt:
            return None
        try:
            num, den = factors(r_)
        except Exception:
            return None
        return sum(1 for x in num if x == K) - sum(1 for x in den if x == K)
    for n in walk_no_nested(fn, False):
        if isinstance(n, ast.Compare) and len(n.ops) == 1 and isinstance(
                n.ops[0], (ast.Lt, ast.LtE, ast.Gt, ast.GtE, ast.Eq,
                           ast.NotEq)):
            da, db = k_degree(n.left), k_degree(n.comparators[0])
            if da is None or db is None:
                continue
            ctx.check(da == db, n, f"{norm(n)[:40]}: both sides in the same "
                      "units",
                      f"_fit compares `{norm(n.left)[:40]}` (correction "
                      f"factor applied {da}x) with "
                      f"`{norm(n.comparators[0])[:40]}` ({db}x): a corrected "
                      "length is compared with a measured one, so the "
                      "outcome depends on gcf_k and the fit is no longer "
                      "the k=1 fit on rescaled lengths")
    # no other use of the correction factor in the fitter
    allowed = {"IndentationFitter._fit"}
    for q, f in F.mod.funcs.items():
        if not q.startswith("IndentationFitter.") or q in allowed or \
                q == "IndentationFitter._hash" or getattr(
                    f, "_inlined_helper", False):
            continue
        for n in walk_no_nested(f, False):
            if isinstance(n, ast.Subscript) and const_str(n.slice) == \
                    "gcf_k":
                ctx.fail(n, f"use of gcf_k in {q}",
                         f"{q} applies the geometrical correction factor; "
                         "ranges, scan depths and reported extremes are in "
                         "measured units and only _fit converts")
    # ... and nowhere else in the package: guesses, ancillaries, features
    # and maps work in measured units
    for m_ in ctx.repo.modules.values():
        for q, f in m_.funcs.items():
            if (m_.name == "fit" and q.startswith((
                    "IndentationFitter.", "FitProperties."))) or getattr(
                        f, "_inlined_helper", False):
                continue
            for n in walk_no_nested(f, False):
                hit = False
                if isinstance(n, ast.Subscript) and const_str(
                        n.slice) == "gcf_k" and isinstance(n.ctx, ast.Load):
                    hit = True
                elif isinstance(n, ast.Call) and isinstance(
                        n.func, ast.Attribute) and n.func.attr == "get" \
                        and n.args and const_str(n.args[0]) == "gcf_k":
                    hit = True
                if hit and not m_.name.startswith("cli."):
                    ctx.fail(n, f"use of gcf_k in {m_.name}.{q}",
                             f"{m_.relpath}:{q} applies the geometrical "
                             "correction factor; only "
                             "IndentationFitter._fit converts between "
                             "measured and corrected units (once in each "
                             "direction), every other quantity - initial "
                             "guesses, ranges, reported values, map "
                             "features - is in measured units")
    # _fit converts the *value* of the contact point only: a bound the
    # library itself puts on it (in measured units) is not converted and
    # clips the corrected value
    for m_ in ctx.repo.modules.values():
        if m_.name.startswith("cli."):
            continue
        for q, f in m_.funcs.items():
            if getattr(f, "_inlined_helper", False):
                continue
            for n in walk_no_nested(f, False):
                if isinstance(n, ast.Call) and isinstance(
                        n.func, ast.Attribute) and n.func.attr == "set" \
                        and isinstance(n.func.value, ast.Subscript) and \
                        const_str(n.func.value.slice) == "contact_point":
                    bad = [k.arg for k in n.keywords
                           if k.arg in ("min", "max", "expr")]
                    if len(n.args) > 2:
                        bad.append("positional bound")
                    ctx.check(not bad, n,
                              f"{m_.name}.{q}: contact_point.set(value) only",
                              f"{m_.relpath}:{q} sets {bad} of the contact "
                              "point in measured units, but "
                              "IndentationFitter._fit converts only its "
                              "value with the geometrical correction "
                              "factor: for gcf_k != 1 the corrected contact "
                              "point is clipped to the unconverted bound")
    # segment and fitted abscissa both scaled
    for name, mask in (("segment abscissa", "self.segment"),
                       ("fitted abscissa", "self.fit_range")):
        want = canon_text(ast.parse(f"self.x_axis[{mask}] * {K}",
                                    mode="eval").body)
        found = False
        for n in ast.walk(fn):
            if isinstance(n, ast.BinOp) and F.r(n) == want:
                found = True
        ctx.check(found, fn, f"{name} scaled by gcf_k",
                  f"the {name} is not multiplied by the correction factor")


# ---------------------------------------------------------------------------
# IndentationFitter.fit

class FitLoopFacts:
    def __init__(self, repo):
        self.mod = repo.mod("fit")
        self.fn = self.mod.func("IndentationFitter.fit")
        self.res = Resolver(self.fn, keep=())
        self.cfg = CFG(self.fn)

    def r(self, e):
        return self.res.text(e)

    def branch(self, text_pred):
        """the If node whose test satisfies pred (top-level if/elif chain)"""
        for n in walk_no_nested(self.fn, False):
            if isinstance(n, ast.If) and text_pred(norm(n.test)):
                return n
        return None


def _strip_copy(text):
    for suf in (".copy()",):
        if text.endswith(suf):
            return text[:-len(suf)]
    for pre in ("np.copy(", "copy.copy(", "np.array("):
        if text.startswith(pre) and text.endswith(")"):
            return text[len(pre):-1].split(",")[0]
    return text


class _Mask:
    def __init__(self, base, fresh, clears=None, ands=None):
        self.base = base          # resolved text of the array it started as
        self.fresh = fresh        # private copy?
        self.clears = list(clears or [])   # [(Compare node, stmt)]

    def copy(self):
        return _Mask(self.base, self.fresh, self.clears)


def _mask_paths(stmts, state, conds, L, out):
    """Enumerate paths through an if-structured block; at each `self._fit()`
    call record (conds, mask of self.fit_range)."""
    for i, st in enumerate(stmts):
        if isinstance(st, ast.If):
            for body, pol in ((st.body, True), (st.orelse, False)):
                s2 = {k: v.copy() for k, v in state.items()}
                _mask_paths(list(body) + list(stmts[i + 1:]), s2,
                            conds + [(st.test, pol)], L, out)
            return
        if isinstance(st, ast.Assign) and len(st.targets) == 1:
            t, v = st.targets[0], st.value
            if isinstance(t, (ast.Tuple, ast.List)):
                continue    # e.g. rmin, rmax = ...
            # np.where(C, False, S) == S & ~C ; np.where(C, S, False) == S & C
            if isinstance(v, ast.Call) and call_name(v) in (
                    "np.where", "numpy.where") and len(v.args) == 3 and \
                    not v.keywords:
                c_, a_, b_ = v.args
                if isinstance(a_, ast.Constant) and a_.value is False:
                    v = ast.copy_location(ast.BinOp(
                        left=b_, op=ast.BitAnd(), right=ast.UnaryOp(
                            op=ast.Invert(), operand=c_)), v)
                elif isinstance(b_, ast.Constant) and b_.value is False:
                    v = ast.copy_location(ast.BinOp(
                        left=a_, op=ast.BitAnd(), right=c_), v)
                ast.fix_missing_locations(v)
            tt = norm(t)
            if isinstance(t, ast.Name) or tt == "self.fit_range":
                vt = canon_text(v)
                if isinstance(v, ast.Name) and v.id in state:
                    state[tt] = state[v.id]          # alias
                elif _strip_copy(vt) != vt:
                    src = _strip_copy(vt)
                    if src in state:
                        m = state[src].copy()
                        m.fresh = True
                        state[tt] = m
                    else:
                        state[tt] = _Mask(L.r(ast.parse(
                            src, mode="eval").body), True)
                elif isinstance(v, (ast.Attribute, ast.Name)):
                    state[tt] = _Mask(L.r(v), False)
                elif (isinstance(v, ast.BinOp) and isinstance(
                        v.op, ast.BitAnd)) or (
                        isinstance(v, ast.Call) and call_name(v) in (
                            "np.logical_and", "numpy.logical_and")
                        and len(v.args) == 2 and not v.keywords):
                    parts_ = []

                    def conj_(e_):
                        if isinstance(e_, ast.BinOp) and isinstance(
                                e_.op, ast.BitAnd):
                            conj_(e_.left)
                            conj_(e_.right)
                        elif isinstance(e_, ast.Call) and call_name(e_) in (
                                "np.logical_and", "numpy.logical_and"):
                            for a_ in e_.args:
                                conj_(a_)
                        else:
                            parts_.append(e_)
                    conj_(v)
                    state[tt] = _Mask(
                        "self.segment" if any(L.r(p_) == "self.segment"
                                              for p_ in parts_)
                        else "<and>", True)
                    state[tt].clears = [("and", v, st)]
                continue
            if isinstance(t, ast.Subscript):
                recv = norm(t.value)
                if recv == "self.fit_range" and norm(t.slice) in (":", "..."):
                    if isinstance(v, ast.Name) and v.id in state:
                        m = state[v.id].copy()
                    else:
                        vt = canon_text(v)
                        src = _strip_copy(vt)
                        if src in state:
                            m = state[src].copy()
                        else:
                            m = _Mask(L.r(ast.parse(src, mode="eval").body),
                                      True)
                    m.fresh = True    # copied into the fitter's own array
                    state["self.fit_range"] = m
                    continue
                if recv in state or recv == "self.fit_range":
                    if recv not in state:
                        state[recv] = _Mask("<left over from earlier pass>",
                                            False)
                    if isinstance(v, ast.Constant) and v.value is False:
                        state[recv].clears.append(("clear", t.slice, st))
                    else:
                        state[recv].clears.append(("other", t.slice, st))
                    continue
        if isinstance(st, ast.AugAssign) and isinstance(st.op, ast.BitAnd):
            recv = norm(st.target)
            if recv in state or recv == "self.fit_range":
                if recv not in state:
                    state[recv] = _Mask("<left over from earlier pass>",
                                        False)
                state[recv].clears.append(("and", st.value, st))
                continue
        for c in ast.walk(st):
            if isinstance(c, ast.Call) and call_name(c) == "self._fit":
                m = state.get("self.fit_range")
                out.append((list(conds), m.copy() if m else None, c))
    return


def _bound_kind(text, rx):
    if text in (f"np.min({rx})", f"min({rx})"):
        return "lo"
    if text in (f"np.max({rx})", f"max({rx})"):
        return "hi"
    return None


def clause_absolute_mask(ctx):
    L = FitLoopFacts(ctx.repo)
    ctx.analysed(L.fn)
    br = L.branch(lambda t: "'absolute'" in t and "range_type" in t)
    if br is None:
        raise AnchorError("fit() has no branch for range_type 'absolute'")
    rx = "copy.copy(self.range_x)"
    out = []
    _mask_paths(list(br.body), {}, [], L, out)
    ctx.floor("paths to self._fit() in the absolute branch", len(out), 2)
    seen_zero = seen_iv = False
    for conds, m, call in out:
        zw = None
        for test, pol in conds:
            t = L.r(test).replace(" ", "")
            if t in (f"{rx}[0]!={rx}[1]", f"{rx}[1]!={rx}[0]",
                     "self.range_x[0]!=self.range_x[1]"):
                zw = not pol
            elif t in (f"{rx}[0]=={rx}[1]", f"{rx}[1]=={rx}[0]",
                       "self.range_x[0]==self.range_x[1]"):
                zw = pol
            elif "isclose" in t or "allclose" in t:
                ctx.fail(test, f"zero-width test {norm(test)[:50]}",
                         "the zero-width test of the absolute range uses a "
                         "tolerance: abscissae are in metres, so every "
                         "interval narrower than numpy's absolute tolerance "
                         "(1e-8 m) is treated as 'whole segment' instead of "
                         "selecting exactly the points inside it")
                zw = pol if "not" not in t[:4] else (not pol)
            else:
                raise Undecided("unrecognised condition in the absolute "
                                f"branch: {norm(test)}")
        if m is None:
            ctx.fail(call, "fit range before _fit()",
                     "the fit-range mask is not set before fitting: the "
                     "mask of an earlier pass is used")
            continue
        if zw is True:
            seen_zero = True
            ctx.check(m.base == "self.segment" and not m.clears, call,
                      "zero-width interval selects the whole segment",
                      f"for a zero-width interval the mask is {m.base} with "
                      f"{len(m.clears)} restriction(s), not the segment "
                      "mask")
            continue
        seen_iv = True
        ctx.check(m.base == "self.segment" and m.fresh, call,
                  f"interval mask starts from a copy of {m.base}",
                  f"the range mask starts from `{m.base}`"
                  + ("" if m.fresh else " (not copied)")
                  + " instead of a fresh copy of the segment mask: points "
                  "of the other segment, or the narrower mask of an earlier "
                  "pass, leak into the fit")
        kinds = {}
        for kind, cond, st in m.clears:
            comps = []
            if kind == "clear":
                c0 = cond
                if isinstance(c0, ast.Name):
                    v = L.res.reaching_value(c0) if hasattr(
                        c0, "_parent") else None
                    if v is not None:
                        c0 = v
                ors = []

                def flat_or(e):
                    if isinstance(e, ast.BinOp) and isinstance(
                            e.op, ast.BitOr):
                        flat_or(e.left)
                        flat_or(e.right)
                    elif isinstance(e, ast.Call) and call_name(e) in (
                            "np.logical_or", "numpy.logical_or"):
                        for a_ in e.args:
                            flat_or(a_)
                    else:
                        ors.append(e)
                flat_or(c0)
                for o_ in ors:
                    if isinstance(o_, ast.Compare) and len(o_.ops) == 1:
                        comps.append((o_, True))
                    else:
                        raise Undecided(f"unrecognised clear {norm(o_)}")
            elif kind == "and":
                parts = []

                def flat(e):
                    if isinstance(e, ast.BinOp) and isinstance(
                            e.op, ast.BitAnd):
                        flat(e.left)
                        flat(e.right)
                    elif isinstance(e, ast.Call) and call_name(e) in (
                            "np.logical_and",):
                        for a_ in e.args:
                            flat(a_)
                    else:
                        parts.append(e)
                flat(cond)

                def term(p_, neg, depth=0):
                    if depth > 6:
                        raise Undecided(f"unrecognised mask term {norm(p_)}")
                    if isinstance(p_, ast.Name) and hasattr(p_, "_parent"):
                        v_ = L.res.reaching_value(p_)
                        if v_ is not None:
                            return term(v_, neg, depth + 1)
                    if isinstance(p_, ast.UnaryOp) and isinstance(
                            p_.op, ast.Invert):
                        return term(p_.operand, not neg, depth + 1)
                    if isinstance(p_, ast.Call) and call_name(p_) in (
                            "np.logical_not", "np.invert") and len(
                            p_.args) == 1:
                        return term(p_.args[0], not neg, depth + 1)
                    is_or = (isinstance(p_, ast.BinOp) and isinstance(
                        p_.op, ast.BitOr)) or (isinstance(
                            p_, ast.Call) and call_name(p_) in (
                            "np.logical_or", "numpy.logical_or"))
                    is_and = (isinstance(p_, ast.BinOp) and isinstance(
                        p_.op, ast.BitAnd)) or (isinstance(
                            p_, ast.Call) and call_name(p_) in (
                            "np.logical_and", "numpy.logical_and"))
                    if (is_or and neg) or (is_and and not neg):
                        # ~(a | b) = ~a & ~b ;  a & b
                        for q_ in ([p_.left, p_.right] if isinstance(
                                p_, ast.BinOp) else p_.args):
                            term(q_, neg, depth + 1)
                        return
                    if isinstance(p_, ast.Compare) and len(p_.ops) == 1:
                        comps.append((p_, neg))
                        return
                    if not neg and L.r(p_) in ("self.segment",):
                        return
                    raise Undecided(f"unrecognised mask term {norm(p_)}")
                for p_ in parts:
                    term(p_, False)
            else:
                ctx.fail(st, f"mask store {norm(st)[:50]}",
                         "points are switched on in the range mask")
                continue
            for c, is_clear in comps:
                left = _strip_copy(L.r(c.left))
                right = L.r(c.comparators[0])
                op = type(c.ops[0]).__name__
                if _bound_kind(left, rx) and not _bound_kind(right, rx):
                    left, right = right, left
                    op = {"Lt": "Gt", "Gt": "Lt", "LtE": "GtE",
                          "GtE": "LtE"}.get(op, op)
                    left = _strip_copy(left)
                ctx.check(left == "self.x_axis", st,
                          f"interval compared on {left}",
                          f"the interval is compared with `{left}` instead "
                          "of the unscaled fit abscissa (requested ranges "
                          "are in measured units)")
                bk = _bound_kind(right, rx)
                if bk is None:
                    ctx.fail(st, f"bound {right}",
                             f"bound `{right}` is not min/max of the "
                             "requested range (an inverted range would "
                             "select nothing)")
                    continue
                # removed set: clear keeps the complement
                want = {("lo", True): "Lt", ("hi", True): "Gt",
                        ("lo", False): "GtE", ("hi", False): "LtE"}[
                            (bk, is_clear)]
                kinds[bk] = op
                ctx.check(op == want, st,
                          f"{'lower' if bk == 'lo' else 'upper'} bound "
                          f"applied with {op}",
                          f"points equal to the "
                          f"{'lower' if bk == 'lo' else 'upper'} bound are "
                          "excluded or the comparison is reversed (the "
                          f"requested interval is closed): {norm(c)}")
        ctx.check(set(kinds) == {"lo", "hi"}, call, "both bounds applied",
                  f"only {sorted(kinds)} of the interval bounds are applied")
    ctx.check(seen_zero and seen_iv, br,
              "zero-width and interval cases both handled",
              "the absolute branch no longer distinguishes a zero-width "
              "interval (whole segment) from a proper interval")


def clause_relative_cp(ctx):
    L = FitLoopFacts(ctx.repo)
    br = L.branch(lambda t: "'relative cp'" in t and "range_type" in t)
    if br is None:
        raise AnchorError("fit() has no branch for range_type 'relative cp'")
    rx = "copy.copy(self.range_x)"
    loops = [n for n in br.body if isinstance(n, ast.For)]
    ctx.floor("passes loop in the relative-cp branch", len(loops), 1)
    lp = loops[0]
    # first pass: absolute, whole segment
    pre = br.body[:br.body.index(lp)]
    rt = [s for s in pre if isinstance(s, ast.Assign)
          and norm(s.targets[0]) == "self.range_type"]
    ctx.check(bool(rt) and const_str(rt[-1].value) == "absolute", br,
              "passes run as absolute fits",
              "the relative-cp passes do not run as absolute fits")
    r0 = [s for s in pre if isinstance(s, ast.Assign)
          and norm(s.targets[0]) == "self.range_x"]
    v0 = Resolver(L.fn).resolve(r0[-1].value) if r0 else None
    zero = bool(r0) and isinstance(v0, (ast.List, ast.Tuple)) and \
        len(v0.elts) == 2 and norm(v0.elts[0]) == norm(v0.elts[1])
    ctx.check(zero, br, "first pass uses the whole segment",
              "the first pass (contact-point estimate) does not use the "
              "whole segment")
    f0 = [c for s in pre for c in ast.walk(s) if isinstance(c, ast.Call)
          and call_name(c) in ("self.fit", "self._fit")]
    ctx.check(len(f0) >= 1, br, "first pass fitted",
              "no fit before the anchored passes")
    # the loop
    n_iter = None
    if isinstance(lp.iter, ast.Call) and call_name(lp.iter) == "range" and \
            lp.iter.args and isinstance(lp.iter.args[0], ast.Constant):
        n_iter = lp.iter.args[0].value
    ctx.check(isinstance(n_iter, int) and n_iter >= 1, lp,
              f"{n_iter} anchored passes",
              "no anchored pass is performed")
    res = Resolver(L.fn)
    assigns = [s for s in lp.body if isinstance(s, ast.Assign)
               and norm(s.targets[0]) == "self.range_x"]
    ctx.floor("range assignment in the passes loop", len(assigns), 1)
    a = assigns[-1]
    txt = res.text(a.value)
    cp = "self.fp['params_fitted']['contact_point'].value"
    good = [f"list({cp} + np.array({rx}))", f"list(np.array({rx}) + {cp})",
            f"[{cp} + {rx}[0], {cp} + {rx}[1]]",
            f"[{rx}[0] + {cp}, {rx}[1] + {cp}]"]
    ctx.check(txt in good, a, f"pass interval = {txt}",
              "the interval of the anchored passes is not the requested "
              "interval shifted by the fitted contact point ([cp+a, cp+b])")
    fl = [c for s in lp.body for c in ast.walk(s) if isinstance(c, ast.Call)
          and call_name(c) == "self.fit"]
    idx_a = lp.body.index(a)
    after = [c for s in lp.body[idx_a + 1:] for c in ast.walk(s)
             if isinstance(c, ast.Call) and call_name(c) in (
                 "self.fit", "self._fit")]
    ctx.check(len(after) >= 1, lp, "fit after anchoring",
              "the anchored interval of the last pass is never fitted")
    # the passes are not cut short by a tolerance test
    for x in ast.walk(lp):
        if not isinstance(x, (ast.Break, ast.Return)):
            continue
        conds = conditions_at(x, stop=lp)
        txt = " and ".join(repr(c) for c in conds)
        tol = any(isinstance(n_, ast.Call) and (call_name(n_) or "").split(
            ".")[-1] in ("allclose", "isclose") for c in conds
            for n_ in ast.walk(c.node)) or any(
            isinstance(n_, ast.Compare) and isinstance(
                n_.ops[0], (ast.Lt, ast.LtE)) and "abs(" in norm(n_)
            for c in conds for n_ in ast.walk(c.node))
        exact = bool(conds) and all(isinstance(c.node, ast.Compare)
                                    and isinstance(c.node.ops[0], ast.Eq)
                                    and c.pol for c in conds)
        if tol:
            ctx.fail(x, f"early exit of the anchored passes under {txt[:60]}",
                     f"the anchored passes stop as soon as `{txt[:80]}`: a "
                     f"tolerance (numpy's default atol is 1e-8 m, several "
                     f"samples) decides that the contact point has "
                     f"converged, the final interval is then anchored at "
                     f"the contact point of an earlier pass, not at the "
                     f"reported one")
        elif not exact:
            raise Undecided(f"relative-cp passes can stop early under "
                            f"{txt[:60]}")
    # re-anchoring: between the fit of one pass and the interval of the
    # next, the contact point is read again from the fitted parameters
    cfg = L.cfg
    an = cfg.node_of_stmt(a)
    fit_nodes = [n for n in cfg.nodes if n.kind == "stmt" and any(
        x is n.ast for s in lp.body for x in ast.walk(s)) and any(
        call_name(c) in ("self.fit", "self._fit")
        for c in fitrules.node_calls(n))]
    reads = {n.id for n in cfg.nodes if n.kind == "stmt" and isinstance(
        n.ast, ast.Assign) and any(x is n.ast for s in lp.body
                                   for x in ast.walk(s))
        and "self.fp['params_fitted']['contact_point']" in norm(n.ast.value)}
    if cp in norm(a.value) and not reads:
        # the interval expression reads the fitted value directly
        reads = {an.id} if an is not None else set()
    stale = False
    if an is not None and fit_nodes and n_iter and n_iter > 1:
        for fnode in fit_nodes:
            r_ = cfg.reach([fnode.id], avoid=reads, skip_labels=("exc",))
            if an.id in r_ and an.id not in reads:
                stale = True
    ctx.check(not stale, a, "every pass is anchored at the contact point of "
              "the previous pass",
              "the passes after the first are anchored at a contact point "
              "that is not re-read after the previous pass was fitted: all "
              "passes use the estimate of the full-segment fit, the final "
              "interval is not [cp+a, cp+b] of the fitted contact point")


def _is_grid(R, e):
    """e is the np.linspace(...) grid itself (not a filtered/sliced view)"""
    r = R.resolve(e)
    return isinstance(r, ast.Call) and call_name(r) in ("np.linspace",
                                                        "numpy.linspace")


def clause_plateau_scan(ctx):
    mod = ctx.repo.mod("fit")
    fn = mod.func("IndentationFitter.compute_emodulus_vs_mindelta")
    ctx.analysed(fn)
    R = Resolver(fn)
    lin = [c for c in calls_in(fn) if call_name(c) in ("np.linspace",
                                                       "numpy.linspace")]
    if not lin:
        # a grid with a float step has no fixed number of points
        for a_ in calls_in(fn):
            if call_name(a_) in ("np.arange", "numpy.arange") and len(
                    a_.args) == 3 and not isinstance(
                    R.resolve(a_.args[2]), ast.Constant):
                ctx.fail(a_, "the scan grid has the requested number of "
                         "samples",
                         "the depth grid of the plateau scan is built with "
                         f"`{norm(a_)[:70]}`: the length of an arange with a "
                         "floating-point step depends on rounding, the scan "
                         "arrays do not have `optimal_fit_num_samples` "
                         "entries for every sample count")
                return
    if len(lin) != 1:
        raise Undecided("compute_emodulus_vs_mindelta: expected one "
                        "np.linspace")
    c = lin[0]
    a0, a1 = R.text(c.args[0]), R.text(c.args[1])
    num = arg_or_kw(c, 2, "num")
    xmin = "self.x_axis[self.segment].min()"
    alt = "np.min(self.x_axis[self.segment])"
    ctx.check(a0 in (xmin, alt), c, f"scan starts at {a0}",
              "the scan does not start at the deepest point of the segment "
              "in measured units")
    n1, d1 = factors(R.resolve(c.args[1]))
    same_sign = (len([x for x in n1 if x in (xmin, alt)]) == 1 and not d1
                 and all(_is_pos_number(x) for x in n1
                         if x not in (xmin, alt)))
    ctx.check(same_sign, c, f"scan ends at {a1}",
              "the scan end is not a positive multiple of the deepest point "
              "(the depth grid would not be monotonic inside the "
              "indentation)")
    ctx.check(num is not None and R.text(num) ==
              "self.fp['optimal_fit_num_samples']", c,
              f"number of samples = {R.text(num) if num is not None else None}",
              "the scan does not have the requested number of samples")
    ep = kwarg(c, "endpoint")
    ctx.check(ep is None or (isinstance(ep, ast.Constant) and ep.value is
                             True), c, "endpoint included", "grid changed")
    # emoduli has the grid's shape
    em = [s for s in walk_no_nested(fn, False) if isinstance(s, ast.Assign)
          and isinstance(s.value, ast.Call)
          and call_name(s.value) in ("np.zeros_like", "np.empty_like",
                                     "np.full_like")
          and _is_grid(R, s.value.args[0])]
    ctx.check(len(em) == 1, fn, "modulus array shaped like the depth grid",
              "the modulus array does not have the shape of the depth grid")
    # the loop: range_x = [grid[i], xmax]; fit; emoduli[i] = E
    loops = [n for n in walk_no_nested(fn, False) if isinstance(n, ast.For)]
    ctx.floor("scan loop", len(loops), 1)
    lp = loops[0]
    ok_iter = isinstance(lp.iter, ast.Call) and call_name(lp.iter) == \
        "enumerate" and _is_grid(R, lp.iter.args[0])
    if not ok_iter:
        # the loop runs over an object that is handed the grid (an iterator
        # of the package's own making): what it does per item is not seen
        src_ = lp.iter.args[0] if isinstance(lp.iter, ast.Call) and \
            lp.iter.args else lp.iter
        v_ = R.resolve(src_)
        if isinstance(v_, ast.Call) and isinstance(v_.func, ast.Name) and \
                v_.func.id.lstrip("_")[:1].isupper() and any(
                    _is_grid(R, a_) for a_ in v_.args):
            raise Undecided("compute_emodulus_vs_mindelta: the scan runs "
                            f"through the iterator `{v_.func.id}`, whose "
                            "passes are not understood")
    ctx.check(ok_iter, lp, "loop enumerates the whole depth grid",
              "the scan loop does not enumerate the depth grid as it comes "
              "from np.linspace (a filtered or sliced grid no longer has "
              "the requested number of samples)")
    ra = [s for s in lp.body if isinstance(s, ast.Assign)
          and norm(s.targets[0]) == "self.range_x"]
    if ra and isinstance(ra[0].value, (ast.List, ast.Tuple)) and len(
            ra[0].value.elts) == 2 and isinstance(lp.target, ast.Tuple):
        lo = norm(ra[0].value.elts[0])
        ctx.check(lo == norm(lp.target.elts[1]), ra[0],
                  "lower bound of each scan fit is the grid depth",
                  "scan fits do not use the grid depth as lower bound")
        hi_e = ra[0].value.elts[1]
        hi = R.text(hi_e)
        if isinstance(hi_e, ast.Name) and R.single(hi_e.id) is None:
            hi = " | ".join(R.text(d) for d in R.defs.get(hi_e.id, [])
                            if d is not None)
        ctx.check("self.fp['range_x']" in hi, ra[0],
                  f"upper bound {hi[:60]}",
                  "scan fits do not keep the requested upper bound")
    else:
        ctx.fail(lp, "scan range assignment",
                 "the scan loop does not set [depth, xmax] as fit range")
    st = [s for s in lp.body if isinstance(s, ast.Assign)
          and isinstance(s.targets[0], ast.Subscript)
          and isinstance(lp.target, ast.Tuple)
          and norm(s.targets[0].slice) == norm(lp.target.elts[0])]
    ok = bool(st) and norm(st[0].value) == \
        "self.fp['params_fitted']['E'].value"
    ctx.check(ok, lp, "modulus of each scan fit stored at its grid index",
              "the fitted modulus is not stored at the index of its depth")
    fits = [c for s in lp.body for c in ast.walk(s) if isinstance(c, ast.Call)
            and call_name(c) == "self.fit"]
    ctx.check(len(fits) == 1, lp, "one fit per grid depth",
              f"{len(fits)} fits per grid depth")
    rets = [r for r in walk_no_nested(fn, False) if isinstance(r, ast.Return)]
    ok = bool(rets) and isinstance(rets[-1].value, ast.Tuple) and len(
        rets[-1].value.elts) == 2 and R.text(
            rets[-1].value.elts[0])[:12] == "np.zeros_lik" and _is_grid(
                R, rets[-1].value.elts[1])
    ctx.check(ok, fn, "returns (moduli, depths)",
              "the scan does not return (moduli, depths) in this order")
    # plateau selection returns a value inside the scanned depths
    om = mod.func("IndentationFitter.compute_opt_mindelta")
    ctx.analysed(om)
    R2 = Resolver(om)
    for r in [r for r in walk_no_nested(om, False)
              if isinstance(r, ast.Return)]:
        v = r.value
        defs = R2.defs.get(v.id, []) if isinstance(v, ast.Name) else [v]
        for d in defs:
            t = norm(d) if d is not None else "?"
            hull = t.startswith("indentations[") or t.startswith(
                ("np.average(indentations[", "np.mean(indentations[",
                 "np.median(indentations["))
            ctx.check(hull, d if d is not None else r,
                      f"optimal depth := {t[:60]}",
                      "the reported optimal indentation is not an element "
                      "or average of the scanned depths (it can lie outside "
                      "the scan)")
    # an average over [first:last] of the selected run is empty for a run
    # of one sample (NaN): needs the one-sample case handled or an
    # inclusive upper end
    for c in calls_in(om):
        if call_name(c) not in ("np.average", "np.mean", "np.median",
                                "np.nanmean") or not c.args:
            continue
        a0 = c.args[0]
        if not (isinstance(a0, ast.Subscript) and isinstance(
                a0.slice, ast.Slice) and a0.slice.lower is not None
                and a0.slice.upper is not None):
            continue
        def one_(e):
            # the bound itself, or the one definition of a local bound
            if isinstance(e, ast.Name):
                ds = [d for d in R2.defs.get(e.id, []) if d is not None]
                if len(ds) == 1:
                    return norm(ds[0])
            return norm(e)
        lo_, hi_ = one_(a0.slice.lower), one_(a0.slice.upper)
        m1 = re.fullmatch(r"(\w+)\[0\]", lo_)
        m2 = re.fullmatch(r"(\w+)\[-1\]", hi_)
        if not (m1 and m2 and m1.group(1) == m2.group(1)):
            continue
        arr = m1.group(1)
        guarded = any(
            (f"len({arr})" in a.text or f"{arr}.size" in a.text
             or f"len({arr})" in R2.text(a.node))
            for a in conditions_at(c))
        ctx.check(guarded, c, f"average over the selected run only when it "
                  "has more than one sample",
                  f"compute_opt_mindelta averages `{norm(a0)[:50]}` - the "
                  f"slice from the first to the last index of the selected "
                  f"run, exclusive - without handling a run of one sample: "
                  "the slice is empty, the optimal indentation is NaN and "
                  "the final fit silently uses the whole segment")
    # fit(): final fit uses [dopt, max(range_x)] and stores the scan
    L = FitLoopFacts(ctx.repo)
    br = L.branch(lambda t: t == "self.optimal_fit_edelta")
    if br is None:
        raise AnchorError("fit() has no plateau-search branch")
    want = {"optimal_fit_E_array": 0, "optimal_fit_delta_array": 1}
    tup = None
    for s in br.body:
        if isinstance(s, ast.Assign) and isinstance(s.value, ast.Call) and \
                call_name(s.value) == "self.compute_emodulus_vs_mindelta" \
                and isinstance(s.targets[0], ast.Tuple):
            tup = [norm(e) for e in s.targets[0].elts]
    if tup is None:
        raise Undecided("fit() does not unpack compute_emodulus_vs_mindelta")
    for s in br.body:
        if isinstance(s, ast.Assign) and isinstance(
                s.targets[0], ast.Subscript) and \
                norm(s.targets[0].value) == "self.fp":
            k = const_str(s.targets[0].slice)
            if k in want:
                ctx.check(norm(s.value) == tup[want[k]], s,
                          f"'{k}' <- {norm(s.value)}",
                          f"'{k}' stores the wrong scan array")
    ra = [s for s in br.body if isinstance(s, ast.Assign)
          and norm(s.targets[0]) == "self.range_x"]
    br_fn_ = br
    while not isinstance(br_fn_, ast.FunctionDef):
        br_fn_ = br_fn_._parent
    dvar = None
    for s in br.body:
        if isinstance(s, ast.Assign) and isinstance(s.value, ast.Call) and \
                call_name(s.value) == "self.compute_opt_mindelta":
            dvar = norm(s.targets[0])
            ctx.check([norm(a) for a in s.value.args] == tup, s,
                      "plateau selected from (moduli, depths)",
                      "compute_opt_mindelta receives the arrays in the "
                      "wrong order")
    ok = bool(ra) and isinstance(ra[-1].value, (ast.List, ast.Tuple)) and \
        norm(ra[-1].value.elts[0]) == dvar and \
        Resolver(br_fn_).text(ra[-1].value.elts[1]) in (
            "np.max(self.fp['range_x'])", "max(self.fp['range_x'])")
    ctx.check(ok, br, "final fit uses [optimal depth, max(range_x)]",
              "the final fit of the plateau search does not use the "
              "reported optimal indentation as lower bound")
    for s in br.body:
        if isinstance(s, ast.Assign) and norm(s.targets[0]) == \
                "self.fp['optimal_fit_delta']":
            ctx.check(norm(s.value) == dvar, s,
                      "'optimal_fit_delta' is the depth used",
                      "the reported optimal depth is not the one used")


def _is_pos_number(text):
    try:
        return float(text) > 0
    except ValueError:
        return False


# ---------------------------------------------------------------------------

def clause_guess_delivery(ctx):
    repo = ctx.repo
    ind = repo.mod("indent")
    fn = ind.func("Indentation.fit_model")
    ctx.analysed(fn)
    cfg = CFG(fn)
    loops = [n for n in cfg.nodes if n.kind == "for"
             and "kwargs" in norm(n.ast.iter)]
    ctx.floor("kwargs loop in fit_model", len(loops), 1)
    lp = loops[0]
    it = norm(lp.ast.iter)
    ctx.check(it.startswith("sorted("), lp.ast, f"kwargs iterated as {it}",
              "fit_model stores its keyword arguments in call order: "
              "'params_initial' can be stored before 'model_key', whose "
              "change then discards the supplied initial parameters")
    # kills of params_initial after the loop (setting model_key)
    kills = []
    for n in cfg.nodes:
        a = n.ast
        if n.kind == "stmt" and isinstance(a, ast.Assign):
            for t in a.targets:
                if isinstance(t, ast.Subscript) and "fit_properties" in norm(
                        t.value) and const_str(t.slice) == "model_key":
                    kills.append(n)
    after = cfg.reach([lp.id], via_first=("exhaust",), skip_labels=("exc",))
    for k in kills:
        ctx.check(k.id not in after, k.ast,
                  f"{norm(k.ast)[:60]} before the keyword arguments",
                  "fit_model writes 'model_key' after the keyword arguments "
                  "were stored; setting the model resets the initial "
                  "parameters, so a supplied params_initial is discarded on "
                  "a curve without a stored model")
    # default params only when absent/None
    gs = [n for n in cfg.nodes if n.kind == "stmt"
          and isinstance(n.ast, ast.Assign)
          and norm(n.ast.targets[0]).endswith("['params_initial']")]
    for g in gs:
        conds = conditions_at(g.ast)
        tx = [repr(a) for a in conds]
        ok = any("params_initial" in a.text for a in conds)
        ctx.check(ok, g.ast, "guessed parameters only when none are stored",
                  "fit_model overwrites stored initial parameters with "
                  "guessed ones")
    # IndentationFitter.__init__: sorted iteration, kwargs after dataset
    init = repo.mod("fit").func("IndentationFitter.__init__")
    ctx.analysed(init)
    ls = [n for n in walk_no_nested(init, False) if isinstance(n, ast.For)
          and any(isinstance(s, ast.Assign) and norm(
              s.targets[0]).startswith("self.fp[") for s in ast.walk(n))]
    ctx.floor("settings loops in IndentationFitter.__init__", len(ls), 2)
    for lp_ in ls:
        it = norm(lp_.iter)
        ctx.check(it.startswith("sorted("), lp_, f"settings copied in "
                  f"{it[:50]} order",
                  "IndentationFitter.__init__ copies settings in unsorted "
                  "order: 'params_initial' may be stored before 'model_key', "
                  "whose change resets it to None and the supplied guess is "
                  "replaced by defaults")
    # None -> guessed
    ok = False
    for s in walk_no_nested(init, False):
        if isinstance(s, ast.Assign) and norm(s.targets[0]) == \
                "self.fp['params_initial']":
            conds = conditions_at(s)
            if any(a.pol and a.text == "self.fp['params_initial'] is None"
                   for a in conds):
                ok = True
            else:
                ctx.fail(s, norm(s)[:60], "initial parameters are replaced "
                         "even when given")
    ctx.check(ok, init, "initial parameters guessed only when None",
              "missing initial parameters are not filled in")
    # guess_initial_parameters seeds the contact point from the POC estimate
    g = repo.mod("fit").func("guess_initial_parameters")
    ctx.analysed(g)
    R = Resolver(g)
    sets = [c for c in calls_in(g) if isinstance(c.func, ast.Attribute)
            and c.func.attr == "set"
            and norm(c.func.value) == "params['contact_point']"]
    ctx.floor("contact point seeding", len(sets), 1)
    for c in sets:
        v = kwarg(c, "value") or (c.args[0] if c.args else None)
        t = R.text(v)
        ctx.check(t == "idnt['tip position'][idnt.estimate_contact_point_"
                  "index()]", c, f"initial contact point := {t}",
                  "the initial contact point is not the tip position at the "
                  "estimated contact index")


def store_order_constraints(repo):
    """[(first, second, why)]: pairs of settings whose stores do not commute
    in FitProperties.__setitem__, derived from its branches on `key`:
    a branch for key K that writes another setting K2 (K must come first,
    otherwise K2's new value is overwritten) or reads another setting K2
    (K2 must come first, otherwise K is judged against the old K2)."""
    fn = repo.mod("fit").func("FitProperties.__setitem__")
    out = []
    for node in ast.walk(fn):
        other = None
        kind = None
        if isinstance(node, ast.Subscript) and isinstance(
                node.value, ast.Name) and node.value.id == "self":
            other = const_str(node.slice)
            kind = "write" if isinstance(node.ctx, ast.Store) else "read"
        elif isinstance(node, ast.Compare) and len(node.ops) == 1 and \
                isinstance(node.ops[0], (ast.In, ast.NotIn)) and isinstance(
                    node.comparators[0], ast.Name) and \
                node.comparators[0].id == "self":
            other = const_str(node.left)
            kind = "read"
        elif isinstance(node, ast.Call) and isinstance(
                node.func, ast.Attribute) and node.func.attr == "get" and \
                isinstance(node.func.value, ast.Name) and \
                node.func.value.id == "self" and node.args:
            other = const_str(node.args[0])
            kind = "read"
        if other is None:
            continue
        ks = [a.text.split("==")[1].strip().strip("'\"")
              for a in conditions_at(node)
              if a.pol and a.text.startswith("key == ")]
        if len(set(ks)) > 1:
            continue        # `key` equals two different names: dead code
        for K in ks:
            if K == other:
                continue
            pair = (K, other, f"storing '{K}' rewrites '{other}'") \
                if kind == "write" else \
                (other, K, f"storing '{K}' consults the stored '{other}'")
            if pair[:2] not in [p[:2] for p in out]:
                out.append(pair)
    return out


def _order_of(iter_node, a, b):
    """does iterating `iter_node` visit key a before key b whenever both are
    present?  True / False / None (cannot tell)"""
    it = iter_node
    if not (isinstance(it, ast.Call) and norm(it.func) == "sorted"
            and len(it.args) == 1):
        return False       # call order, dict order, set order
    kws = {k.arg: k.value for k in it.keywords}
    if "reverse" in kws:
        rv = kws["reverse"]
        if not (isinstance(rv, ast.Constant) and rv.value is False):
            return None
    if "key" not in kws:
        return a < b
    kf = kws["key"]
    if not (isinstance(kf, ast.Lambda) and len(kf.args.args) == 1):
        return None
    arg = kf.args.args[0].arg

    def ev(e, v):
        if isinstance(e, ast.Name) and e.id == arg:
            return v
        if isinstance(e, ast.Constant):
            return e.value
        if isinstance(e, ast.Tuple):
            return tuple(ev(x, v) for x in e.elts)
        if isinstance(e, ast.UnaryOp) and isinstance(e.op, ast.Not):
            return not ev(e.operand, v)
        if isinstance(e, ast.Compare) and len(e.ops) == 1:
            l, r = ev(e.left, v), ev(e.comparators[0], v)
            op = e.ops[0]
            if isinstance(op, ast.Eq):
                return l == r
            if isinstance(op, ast.NotEq):
                return l != r
            if isinstance(op, ast.In):
                return l in r
            if isinstance(op, ast.NotIn):
                return l not in r
        if isinstance(e, (ast.List, ast.Set)):
            return [ev(x, v) for x in e.elts]
        raise ValueError
    try:
        ka, kb = ev(kf.body, a), ev(kf.body, b)
        if ka == kb:
            return False     # ties keep the caller's order
        return ka < kb
    except (ValueError, TypeError):
        return None


def clause_store_order(ctx):
    """The loops that copy a whole request into FitProperties (fit_model's
    keyword loop, the fitter's two settings loops) visit non-commuting
    settings in the order their dependencies demand."""
    repo = ctx.repo
    cons = store_order_constraints(repo)
    ctx.floor("non-commuting setting pairs in __setitem__", len(cons), 2)
    sites = []
    fm = repo.mod("indent").func("Indentation.fit_model")
    for n in walk_no_nested(fm, False):
        if isinstance(n, ast.For) and "kwargs" in norm(n.iter) and any(
                isinstance(s, ast.Assign) and isinstance(
                    s.targets[0], ast.Subscript) for s in ast.walk(n)):
            sites.append(("fit_model", n))
    init = repo.mod("fit").func("IndentationFitter.__init__")
    for n in walk_no_nested(init, False):
        if isinstance(n, ast.For) and any(
                isinstance(s, ast.Assign) and norm(
                    s.targets[0]).startswith("self.fp[")
                for s in ast.walk(n)):
            sites.append(("IndentationFitter.__init__", n))
    ctx.floor("request-copying loops", len(sites), 3)
    for where, lp in sites:
        for a, b, why in cons:
            v = _order_of(lp.iter, a, b)
            if v is None:
                raise Undecided(f"{where}: cannot tell in which order "
                                f"`{norm(lp.iter)[:60]}` visits '{a}' and "
                                f"'{b}'")
            ctx.check(v, lp, f"{where}: '{a}' stored before '{b}'",
                      f"{where} copies the request in the order of "
                      f"`{norm(lp.iter)[:60]}`, which does not put '{a}' "
                      f"before '{b}' for every call; {why}, so the request "
                      "is then judged against (or overwritten by) the old "
                      "value and the fit does not use the requested "
                      "settings")


def clause_no_dead_setting(ctx):
    repo = ctx.repo
    dflt = facts.fp_default(repo)
    reads = {}
    for m, q, f in repo.all_funcs():
        if not ((m.name == "fit" and q.startswith("IndentationFitter.")
                 and q != "IndentationFitter._hash")
                or (m.name == "indent")):
            continue
        for u in facts.fp_key_uses(f):
            if u.kind in ("read", "get") and u.key in dflt:
                reads.setdefault(u.key, []).append((m.name, q))
    fitter_keys = {"x_axis", "y_axis", "segment", "model_key",
                   "params_initial", "range_x", "range_type", "weight_cp",
                   "gcf_k", "method", "method_kws", "optimal_fit_edelta",
                   "optimal_fit_num_samples"}
    for k in dflt:
        users = reads.get(k, [])
        if k in fitter_keys:
            users = [u for u in users if u[0] == "fit"]
        ctx.check(bool(users), repo.mod("fit").assign("FP_DEFAULT"),
                  f"setting '{k}' is read by {sorted(set(q for _, q in users))[:3]}",
                  f"setting '{k}' is never read on the fitting path: it "
                  "changes the hash but not the result")


# ---------------------------------------------------------------------------
# model.residuals

def clause_residual_shape(ctx):
    rm = ctx.repo.mod("model.residuals")
    fn = rm.func("residual")
    ctx.analysed(fn)
    R = Resolver(fn)
    rets = [r for r in walk_no_nested(fn, False) if isinstance(r, ast.Return)]
    if not rets or not all(isinstance(r.value, ast.Name) for r in rets) or \
            len({r.value.id for r in rets}) != 1:
        raise Undecided("residual() does not return a single local")
    rv = rets[0].value.id
    base = [s for s in walk_no_nested(fn, False) if isinstance(s, ast.Assign)
            and norm(s.targets[0]) == rv]
    if len(base) != 1:
        raise Undecided("residual value assigned more than once")
    bt = R.text(base[0].value)
    ctx.check(bt == "force - model(params, delta)", base[0],
              f"residual = {bt}",
              "the residual is not (data - model(params, delta))")
    aug = [s for s in walk_no_nested(fn, False) if isinstance(s, ast.AugAssign)
           and norm(s.target) == rv]
    ctx.check(len(aug) == 1 and isinstance(aug[0].op, ast.Mult), fn,
              "residual multiplied by the weights once",
              "the residual is not multiplied by the contact-point weights "
              "exactly once")
    for a in aug:
        conds = conditions_at(a)
        ok = len(conds) == 1 and conds[0].pol and conds[0].text == "weight_cp"
        ctx.check(ok, a, "weights applied iff weight_cp is truthy",
                  "weights are not applied exactly when weight_cp is set")
        w = a.value
        wcall = None
        if isinstance(w, ast.Name):
            ds = R.defs.get(w.id, [])
            wcall = ds[0] if len(ds) == 1 else None
        elif isinstance(w, ast.Call):
            wcall = w
        if not (isinstance(wcall, ast.Call) and call_name(wcall) ==
                "compute_contact_point_weights"):
            ctx.fail(a, f"weights = {norm(w)}",
                     "weights are not compute_contact_point_weights(...)")
            continue
        got = {kw.arg: R.text(kw.value) for kw in wcall.keywords}
        for i, nm in enumerate(("cp", "delta", "weight_dist")):
            if i < len(wcall.args):
                got[nm] = R.text(wcall.args[i])
        want = {"cp": "params['contact_point'].value", "delta": "delta",
                "weight_dist": "weight_cp"}
        for k, v in want.items():
            ctx.check(got.get(k) == v, wcall, f"weights({k}={got.get(k)})",
                      f"the weights are computed with {k}={got.get(k)} "
                      f"instead of {v} (weights on the wrong abscissa / "
                      "contact point / distance)")
    # weights formula: min(|delta - cp| / weight_dist, 1)
    wf = rm.func("compute_contact_point_weights")
    ctx.analysed(wf)
    R2 = Resolver(wf)
    rets = [r for r in walk_no_nested(wf, False) if isinstance(r, ast.Return)]
    # early returns that do not go through the distance formula
    wparams = [a.arg for a in wf.args.args]
    early = [r for r in rets[:-1]] if len(rets) > 1 else []
    for r in early:
        conds = conditions_at(r)
        names = {n.id for a in conds for n in ast.walk(a.node)
                 if isinstance(n, ast.Name)}
        data_dep = names & set(wparams[:2])      # cp, delta
        uses_dist = len(wparams) > 2 and wparams[2] in names
        # (a shortcut chosen without looking at the weighting distance
        # cannot agree with min(|delta - cp| / dist, 1) for every dist)
        if data_dep and not uses_dist:
            ctx.fail(r, f"early return {norm(r)[:40]} of the weights",
                     f"compute_contact_point_weights returns "
                     f"`{norm(r.value)[:40]}` on a path selected by "
                     f"{sorted(data_dep)} without computing min(|delta - "
                     f"cp| / weight_dist, 1): points closer to the contact "
                     f"point than the weighting distance keep the full "
                     f"weight there, the residuals are no longer (data - "
                     f"model) x weights")
        else:
            raise Undecided("weights function has an early return that "
                            "does not depend on the data")
    rets = rets[-1:]
    if len(rets) != 1 or not isinstance(rets[0].value, ast.Name):
        raise Undecided("weights function does not return a single local")
    xv = rets[0].value.id
    d0 = [s for s in walk_no_nested(wf, False) if isinstance(s, ast.Assign)
          and norm(s.targets[0]) == xv]
    ok = len(d0) == 1 and R2.text(d0[0].value).replace(
        "np.absolute", "np.abs") in ("np.abs(delta - cp)",
                                     "np.abs(cp - delta)",
                                     "abs(delta - cp)", "abs(cp - delta)")
    ctx.check(ok, wf, "weights start from |delta - cp| (fresh array)",
              "weights are not proportional to the distance from the contact "
              "point (or are computed in place on the caller's array)")
    div = [s for s in walk_no_nested(wf, False) if isinstance(s, ast.AugAssign)
           and norm(s.target) == xv]
    ok = len(div) == 1 and isinstance(div[0].op, ast.Div) and \
        norm(div[0].value) == "weight_dist"
    ctx.check(ok, wf, "distance normalised by weight_dist",
              "the distance is not divided by the weighting distance")
    # ... the distance the caller gave, not a re-bound one
    rebound = [s_ for s_ in walk_no_nested(wf, False)
               if isinstance(s_, (ast.Assign, ast.AugAssign)) and any(
                   isinstance(n_, ast.Name) and n_.id in wparams[2:3]
                   and isinstance(n_.ctx, ast.Store)
                   for t_ in (s_.targets if isinstance(s_, ast.Assign)
                              else [s_.target]) for n_ in ast.walk(t_))]
    for s_ in rebound:
        ctx.fail(s_, f"weighting distance re-bound: {norm(s_)[:50]}",
                 f"compute_contact_point_weights replaces the weighting "
                 f"distance it was given (`{norm(s_)[:60]}`): the weights "
                 "are no longer min(|delta - cp| / weight_dist, 1) for "
                 "the distance of the setting (e.g. a distance larger "
                 "than the data's extent is shortened), so the default "
                 "residuals are not (data - model) x the contact-point "
                 "weights")
    clip = [s for s in walk_no_nested(wf, False) if isinstance(s, ast.Assign)
            and isinstance(s.targets[0], ast.Subscript)
            and norm(s.targets[0].value) == xv]
    ok = len(clip) == 1 and R2.text(clip[0].targets[0].slice) in (
        f"{xv} > 1", f"{xv} >= 1", f"1 < {xv}", f"1 <= {xv}") and \
        norm(clip[0].value) in ("1", "1.0")
    ctx.check(ok, wf, "weights clipped to 1 beyond the weighting distance",
              "weights are not clipped to 1 beyond the weighting distance")


def clause_default_wrappers(ctx):
    """default residual/model wrappers route through the direction-agnostic
    call and the generic residual (C13-R2/R4)."""
    rm = ctx.repo.mod("model.residuals")
    gw = rm.func("get_default_residuals_wrapper")
    gm = rm.func("get_default_modeling_wrapper")
    ctx.analysed(gw)
    ctx.analysed(gm)
    def returned_inner(outer):
        rets = [r for r in outer.body if isinstance(r, ast.Return)]
        if len(rets) != 1 or not isinstance(rets[0].value, ast.Name):
            raise Undecided(f"{outer.name} does not return a nested function")
        q = f"{outer.name}.{rets[0].value.id}"
        if q not in rm.funcs:
            raise Undecided(f"{outer.name} does not return a nested function")
        return rm.funcs[q]
    inner_m = [returned_inner(gm)]
    inner_r = [returned_inner(gw)]
    im, ir = inner_m[0], inner_r[0]
    calls = [c for c in calls_in(im)]
    ok = len(calls) == 1 and call_name(calls[0]) == \
        "model_direction_agnostic"
    ctx.check(ok, im, "default model wrapper -> model_direction_agnostic",
              "the default model wrapper calls the user function directly: "
              "it no longer always sees approach-ordered data")
    if ok:
        got = {kw.arg: norm(kw.value) for kw in calls[0].keywords}
        for i, nm in enumerate(("model_function", "params", "delta")):
            if i < len(calls[0].args):
                got[nm] = norm(calls[0].args[i])
        ctx.check(got == {"model_function": "model_function",
                          "params": "params", "delta": "delta"}, calls[0],
                  f"arguments {got}", "wrapper arguments are mixed up")
    calls = [c for c in calls_in(ir)]
    ok = len(calls) == 1 and call_name(calls[0]) == "residual"
    ctx.check(ok, ir, "default residual wrapper -> residual(...)",
              "the default residual wrapper does not use the generic "
              "residual function")
    if ok:
        got = {kw.arg: norm(kw.value) for kw in calls[0].keywords}
        for i, nm in enumerate(("params", "delta", "force", "model",
                                "weight_cp")):
            if i < len(calls[0].args):
                got[nm] = norm(calls[0].args[i])
        mv = got.get("model")
        R = Resolver(gw)
        mt = R.text(ast.Name(id=mv, ctx=ast.Load())) if mv else None
        if mv and f"{gw.name}.{mv}" in rm.funcs:
            # a locally defined model wrapper: it must itself go through the
            # direction-agnostic call
            loc = rm.funcs[f"{gw.name}.{mv}"]
            lc = [c for c in calls_in(loc)]
            if len(lc) == 1 and call_name(lc[0]) == \
                    "model_direction_agnostic":
                mt = "get_default_modeling_wrapper(model_function)"
            else:
                mt = f"local {mv}: " + ", ".join(
                    call_name(c) or "?" for c in lc)
        ctx.check(mt == "get_default_modeling_wrapper(model_function)",
                  calls[0], f"residual uses model = {mt}",
                  "the default residuals are not computed with the "
                  "direction-agnostic default model wrapper: an "
                  "order-sensitive user model sees ascending data, and "
                  "residuals differ from data minus model")
        ctx.check({k: got.get(k) for k in ("params", "delta", "force",
                                           "weight_cp")} ==
                  {"params": "params", "delta": "delta", "force": "force",
                   "weight_cp": "weight_cp"}, calls[0],
                  "residual arguments forwarded",
                  "residual arguments are mixed up")
    rets_ok = all(isinstance(f.body[-1], ast.Return) for f in (im, ir))
    ctx.check(rets_ok, gw, "wrappers return the computed value",
              "a default wrapper does not return its result")


def clause_upper_bound_agreement(ctx, who="hash"):
    """With the plateau search on, the lower range bound is a documented
    don't-care.  The fit takes max(range_x) as upper bound; the hash and
    FitProperties.__setitem__ must key on the same function of range_x,
    otherwise an inverted request changes the fit without changing the hash
    (or is ignored)."""
    mod = ctx.repo.mod("fit")
    L = FitLoopFacts(ctx.repo)
    br = L.branch(lambda t: t == "self.optimal_fit_edelta")
    if br is None:
        raise AnchorError("fit() has no plateau-search branch")
    ra = [s for s in br.body if isinstance(s, ast.Assign)
          and norm(s.targets[0]) == "self.range_x"
          and isinstance(s.value, (ast.List, ast.Tuple))
          and len(s.value.elts) == 2]
    if not ra:
        raise Undecided("final range of the plateau search not found")
    used = L.r(ra[-1].value.elts[1])

    def kind(text):
        t = text.replace(" ", "")
        if t.startswith(("np.max(", "max(", "np.amax(")):
            return "max"
        if t.endswith("[1]"):
            return "index1"
        return "?"
    if who == "hash":
        fn = mod.func("IndentationFitter._hash")
        exprs = []
        from .symres import Resolver as _Res
        res_ = _Res(fn, keep=("key",))
        for n in ast.walk(fn):
            if isinstance(n, ast.Call) and isinstance(n.func, ast.Attribute) \
                    and n.func.attr == "append" and n.args:
                conds = conditions_at(n)
                if any(a.pol and a.text == "key == 'range_x'"
                       for a in conds) and any(
                           a.pol and "optimal_fit_edelta" in (
                               a.text + res_.text(a.node))
                           for a in conds):
                    exprs.append(n.args[0])
        if not exprs:
            raise Undecided("partial hash of range_x not found")
        for e in exprs:
            ctx.check(kind(norm(e)) == kind(used), e,
                      f"hash keys range_x on {norm(e)}; the fit uses {used}",
                      f"with the plateau search on, the hash covers "
                      f"`{norm(e)}` but the fit uses `{used}` as upper "
                      "bound: for an inverted range (upper bound first) two "
                      "requests with different effective upper bounds have "
                      "the same hash")
    else:
        fn = mod.func("FitProperties.__setitem__")
        found = False
        for n in walk_no_nested(fn, False):
            for _once in (1,):
                if isinstance(n, ast.Compare) and len(n.ops) == 1 and \
                        isinstance(n.ops[0], (ast.Eq, ast.NotEq)) and \
                        "range_x" in norm(n.left) \
                        and not isinstance(n.comparators[0], ast.Constant) \
                        and "value" in norm(n.comparators[0]) and \
                        "self[key]" not in norm(n.left):
                    found = True
                    ctx.check(kind(norm(n.left)) == kind(used), n,
                              f"don't-care keyed on {norm(n)}; the fit uses "
                              f"{used}",
                              f"with the plateau search on, a new range is "
                              f"ignored when `{norm(n)}`, but the fit uses "
                              f"`{used}` as upper bound: an inverted request "
                              "with a new upper bound is silently dropped "
                              "by the fitter")
        if not found:
            raise Undecided("don't-care comparison of range_x not found")
    # the don't-care is only justified if nothing on the plateau-search
    # path reads the range other than through its maximum
    sites = [(mod.func("IndentationFitter.compute_emodulus_vs_mindelta"),
              None), (L.fn, br)]
    n_reads = 0
    for fn_, scope in sites:
        nodes = [n for st in (scope.body if scope is not None else fn_.body)
                 for n in ast.walk(st)]
        for n in nodes:
            if not (isinstance(n, ast.Subscript) and isinstance(
                    n.ctx, ast.Load) and const_str(n.slice) == "range_x"
                    and norm(n.value) in ("self.fp", "self.fit_properties")):
                continue
            n_reads += 1
            par = getattr(n, "_parent", None)
            ok = isinstance(par, ast.Call) and (call_name(par) or "") in (
                "max", "np.max", "np.amax", "numpy.max") and par.args and \
                par.args[0] is n
            ctx.check(ok, n, "the plateau search reads range_x through its "
                      "maximum only",
                      f"{fn_._qualname} reads `{norm(par)[:50] if par is not None else norm(n)}` "
                      "while the plateau search is on: the lower range "
                      "bound influences the result, but the hash and "
                      "FitProperties.__setitem__ treat it as a don't-care "
                      "in that mode - two requests that differ in it share "
                      "a hash, and a stale cached fit is shown")
    ctx.floor("reads of range_x on the plateau-search path", n_reads, 2)
