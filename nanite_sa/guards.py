"""Path conditions from the syntactic structure around a node.

`conditions_at(node)` returns the atomic tests known to hold (with polarity)
whenever `node` executes, derived from

* enclosing `if`/`elif`/`else`, `while` bodies, conditional expressions and
  short-circuit operands (`a and <node>`: a is true; `a or <node>`: a false);
* earlier statements in the enclosing blocks of the form
  `if T: <block that always leaves>` (then `not T` holds afterwards) or
  `if T: ... else: <block that always leaves>` (then `T` holds);
* `assert T`.

Tests are split into atoms: `a and b` (true) -> a, b; `a or b` (false) ->
not a, not b; `not a` flips; `x not in y` -> (x in y, False); `!=` ->
(==, False); `is not` -> (is, False).
Atoms are keyed by normalised source text, so the result is position
independent.  Re-assignment of a tested variable between the test and the
node is checked by the caller where it matters (`killed_between`).
"""
from __future__ import annotations

import ast

from .astutil import norm, walk_no_nested


class Atom:
    __slots__ = ("text", "pol", "node", "origin", "expanded")

    def __init__(self, node, pol, origin=None):
        self.node = node
        self.text = norm(node)
        self.pol = pol
        self.origin = origin  # the statement/expression providing the fact
        self.expanded = False  # a boolean temporary whose definition is
        #                        also present as atoms of its own

    def __repr__(self):
        return ("" if self.pol else "not ") + self.text


def atoms(test, pol=True, origin=None) -> list[Atom]:
    if isinstance(test, ast.UnaryOp) and isinstance(test.op, ast.Not):
        return atoms(test.operand, not pol, origin)
    if isinstance(test, ast.Call) and isinstance(test.func, ast.Name) and \
            test.func.id == "bool" and len(test.args) == 1 and \
            not test.keywords:
        return atoms(test.args[0], pol, origin)
    if isinstance(test, ast.BoolOp):
        if (isinstance(test.op, ast.And) and pol) or (
                isinstance(test.op, ast.Or) and not pol):
            out = []
            for v in test.values:
                out.extend(atoms(v, pol, origin))
            return out
        return [Atom(test, pol, origin)]
    if isinstance(test, ast.Compare) and len(test.ops) == 1:
        op = test.ops[0]
        flip = {ast.NotIn: ast.In, ast.NotEq: ast.Eq, ast.IsNot: ast.Is}
        if type(op) in flip:
            new = ast.Compare(left=test.left, ops=[flip[type(op)]()],
                              comparators=test.comparators)
            ast.copy_location(new, test)
            return [Atom(new, not pol, origin)]
    return [Atom(test, pol, origin)]


def always_leaves(block) -> bool:
    """True if the statement list cannot complete normally."""
    if not block:
        return False
    last = block[-1]
    if isinstance(last, (ast.Return, ast.Raise, ast.Continue, ast.Break)):
        return True
    if isinstance(last, ast.If) and last.orelse:
        return always_leaves(last.body) and always_leaves(last.orelse)
    return False


def _block_of(parent, child):
    for fld in ("body", "orelse", "finalbody"):
        blk = getattr(parent, fld, None)
        if isinstance(blk, list) and any(s is child for s in blk):
            return fld, blk
    if isinstance(parent, ast.Try):
        for h in parent.handlers:
            if h is child:
                return "handlers", parent.handlers
    return None, None


def _resolver_for(node):
    fn = node
    while fn is not None and not isinstance(fn, (ast.FunctionDef,
                                                 ast.AsyncFunctionDef)):
        fn = getattr(fn, "_parent", None)
    if fn is None:
        return None
    r = getattr(fn, "_sa_resolver", None)
    if r is None:
        from .symres import Resolver
        try:
            r = Resolver(fn)
        except Exception:
            r = False
        fn._sa_resolver = r
    return r or None


def _expand(atom_list, node):
    """a condition held in a local boolean (`flag = a or b; if flag:`) is
    replaced by the atoms of its single reaching definition"""
    R = None
    out = []
    for a in atom_list:
        n = a.node
        if isinstance(n, ast.Name) and hasattr(n, "_parent"):
            if R is None:
                R = _resolver_for(node)
            v = R.reaching_value(n) if R is not None else None
            if v is not None and isinstance(v, (ast.BoolOp, ast.Compare,
                                                ast.UnaryOp, ast.Call,
                                                ast.Name)) and not (
                    isinstance(v, ast.Call) and not (
                        isinstance(v.func, ast.Name)
                        and v.func.id in ("bool", "hasattr", "isinstance",
                                          "callable"))):
                sub = atoms(v, a.pol, a.origin)
                if not (len(sub) == 1 and sub[0].text == a.text):
                    out.extend(_expand(sub, node))
                    a.expanded = True
                    out.append(a)
                    continue
        # a flag kept on the object: `self.x = <test>` (the only store of
        # self.x in this function, in front of the use) ... `if self.x:`
        if isinstance(n, ast.Attribute) and isinstance(
                n.value, ast.Name) and n.value.id == "self" and hasattr(
                n, "_parent"):
            fn_ = n
            while fn_ is not None and not isinstance(
                    fn_, (ast.FunctionDef, ast.AsyncFunctionDef)):
                fn_ = getattr(fn_, "_parent", None)
            sts = [s_ for s_ in ast.walk(fn_) if isinstance(s_, ast.Assign)
                   and len(s_.targets) == 1 and isinstance(
                       s_.targets[0], ast.Attribute) and isinstance(
                       s_.targets[0].value, ast.Name)
                   and s_.targets[0].value.id == "self"
                   and s_.targets[0].attr == n.attr] if fn_ else []
            if len(sts) == 1 and sts[0].lineno < getattr(n, "lineno", 0) \
                    and isinstance(sts[0].value, (ast.Compare, ast.BoolOp,
                                                  ast.UnaryOp, ast.Call)) \
                    and not (isinstance(sts[0].value, ast.Call) and not (
                        isinstance(sts[0].value.func, ast.Name)
                        and sts[0].value.func.id in ("bool", "hasattr",
                                                     "isinstance"))):
                sub = atoms(sts[0].value, a.pol, a.origin)
                if not (len(sub) == 1 and sub[0].text == a.text):
                    out.extend(_expand(sub, node))
                    a.expanded = True
                    out.append(a)
                    continue
        if isinstance(n, ast.BoolOp) and any(
                isinstance(v, ast.Name) and hasattr(v, "_parent")
                for v in n.values):
            if R is None:
                R = _resolver_for(node)
            vals, changed = [], False
            for v in n.values:
                rv = R.reaching_value(v) if (
                    R is not None and isinstance(v, ast.Name)
                    and hasattr(v, "_parent")) else None
                if rv is not None and isinstance(rv, (ast.BoolOp, ast.Compare,
                                                      ast.UnaryOp)):
                    vals.append(rv)
                    changed = True
                else:
                    vals.append(v)
            if changed:
                new = ast.BoolOp(op=n.op, values=vals)
                ast.copy_location(new, n)
                out.append(Atom(new, a.pol, a.origin))
        out.append(a)
    return out


def conditions_at(node, stop=None) -> list[Atom]:
    return _expand(_conditions_at(node, stop), node)


def _conditions_at(node, stop=None) -> list[Atom]:
    out: list[Atom] = []
    child = node
    parent = getattr(node, "_parent", None)
    while parent is not None and child is not stop:
        if parent is stop:
            # conditions established inside the stop node's own block still
            # count (early exits before `child`), its own test does not
            fld, blk = _block_of(parent, child)
            if blk is not None and fld != "handlers":
                out.extend(_earlier(blk, child))
            break
        if isinstance(parent, (ast.FunctionDef, ast.AsyncFunctionDef,
                               ast.Lambda, ast.ClassDef, ast.Module)):
            # earlier siblings in the function body still count
            fld, blk = _block_of(parent, child)
            if blk is not None:
                out.extend(_earlier(blk, child))
            break
        if isinstance(parent, ast.If):
            if any(s is child for s in parent.body):
                out.extend(atoms(parent.test, True, parent))
            elif any(s is child for s in parent.orelse):
                out.extend(atoms(parent.test, False, parent))
        elif isinstance(parent, ast.While):
            if any(s is child for s in parent.body):
                out.extend(atoms(parent.test, True, parent))
        elif isinstance(parent, ast.IfExp):
            if child is parent.body:
                out.extend(atoms(parent.test, True, parent))
            elif child is parent.orelse:
                out.extend(atoms(parent.test, False, parent))
        elif isinstance(parent, ast.BoolOp):
            idx = [i for i, v in enumerate(parent.values) if v is child]
            if idx:
                for v in parent.values[:idx[0]]:
                    out.extend(atoms(v, isinstance(parent.op, ast.And),
                                     parent))
        elif isinstance(parent, (ast.ListComp, ast.SetComp, ast.GeneratorExp,
                                 ast.DictComp)):
            for g in parent.generators:
                if child is not g:
                    for c in g.ifs:
                        out.extend(atoms(c, True, parent))
        fld, blk = _block_of(parent, child)
        if blk is not None and fld != "handlers":
            out.extend(_earlier(blk, child))
        child = parent
        parent = getattr(parent, "_parent", None)
    return out


def _earlier(block, child) -> list[Atom]:
    out = []
    for st in block:
        if st is child:
            break
        if isinstance(st, ast.If):
            if always_leaves(st.body) and not always_leaves(st.orelse):
                out.extend(atoms(st.test, False, st))
            elif st.orelse and always_leaves(st.orelse) \
                    and not always_leaves(st.body):
                out.extend(atoms(st.test, True, st))
        elif isinstance(st, ast.Assert):
            out.extend(atoms(st.test, True, st))
    return out


def from_early_exit(atom, node) -> bool:
    """the fact comes from an earlier `if c: <leave>` sibling (it holds on
    every path that gets as far as `node`), not from a test enclosing
    `node`"""
    o = atom.origin
    if not isinstance(o, (ast.If, ast.Assert)):
        return False
    p = getattr(node, "_parent", None)
    while p is not None:
        if p is o:
            return False
        p = getattr(p, "_parent", None)
    return True


def holds(conds, text, pol=True) -> bool:
    return any(a.text == text and a.pol == pol for a in conds)


def find_atoms(conds, pred):
    return [a for a in conds if pred(a)]
