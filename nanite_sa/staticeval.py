"""Static evaluation of module-level data (constant folding, nothing is run).

Module-level tables are often assembled at import time: lists concatenated
from shared pieces, a table of rows transposed with `zip(*ROWS)`, dictionaries
merged with `{**a, **b}`, the values of a private `enum.Enum`, the field
defaults of a private frozen dataclass of which one instance is created.
The rules read such tables as literals.  This pass evaluates a small, closed
expression language over the module-level assignments (in source order) and
rewrites an assignment whose value it can compute into the equivalent literal.
It also reports attribute constants (`_Enum.MEMBER.value`, `_HOLDER.field`)
for the constant inliner.

Only data are evaluated: constants, displays, names of values computed before,
`+` on sequences, constant subscripts, comprehensions over computed iterables
and a fixed list of builtins (list, tuple, dict, zip, map(list|tuple|str, ..),
sorted, len, enumerate, range, reversed).  Anything else leaves the assignment
as it is.
"""
from __future__ import annotations

import ast


class _No(Exception):
    pass


class _AstConst:
    """a constant arithmetic expression kept as written (2/3 stays exact)"""
    def __init__(self, node):
        self.node = node


class _Member:
    def __init__(self, name, value, strlike):
        self.name, self.value, self.strlike = name, value, strlike


class _Enum:
    def __init__(self, members, strlike, methods=None):
        self.members = members          # ordered {name: _Member}
        self.strlike = strlike
        self.methods = methods or {}    # classmethods: name -> return expr


class _Holder:
    def __init__(self, fields):
        self.fields = fields


_PLAIN = (str, int, float, bool, type(None))


def _is_data(v, depth=0):
    if depth > 6:
        return False
    if isinstance(v, (_AstConst,) + _PLAIN):
        return True
    if isinstance(v, (list, tuple)):
        return all(_is_data(x, depth + 1) for x in v)
    if isinstance(v, dict):
        return all(isinstance(k, _PLAIN) and _is_data(x, depth + 1)
                   for k, x in v.items())
    return False


def _ev(e, env):
    if isinstance(e, ast.Constant):
        if isinstance(e.value, _PLAIN):
            return e.value
        raise _No
    if isinstance(e, ast.Name):
        if e.id in env:
            return env[e.id]
        raise _No
    if isinstance(e, (ast.List, ast.Tuple)):
        out = []
        for x in e.elts:
            if isinstance(x, ast.Starred):
                out.extend(_seq(_ev(x.value, env)))
            else:
                out.append(_ev(x, env))
        return out if isinstance(e, ast.List) else tuple(out)
    if isinstance(e, ast.Dict):
        out = {}
        for k, v in zip(e.keys, e.values):
            if k is None:
                m = _ev(v, env)
                if not isinstance(m, dict):
                    raise _No
                out.update(m)
            else:
                out[_ev(k, env)] = _ev(v, env)
        return out
    if isinstance(e, ast.UnaryOp) and isinstance(e.op, ast.USub):
        v = _ev(e.operand, env)
        if isinstance(v, (int, float)) and not isinstance(v, bool):
            return -v
        raise _No
    if isinstance(e, ast.BinOp) and isinstance(e.op, ast.Add):
        a, b = _ev(e.left, env), _ev(e.right, env)
        if isinstance(a, list) and isinstance(b, list):
            return a + b
        if isinstance(a, tuple) and isinstance(b, tuple):
            return a + b
        if isinstance(a, str) and isinstance(b, str):
            return a + b
        raise _No
    if isinstance(e, ast.BinOp) and isinstance(e.op, ast.BitOr):
        a, b = _ev(e.left, env), _ev(e.right, env)
        if isinstance(a, dict) and isinstance(b, dict):
            return {**a, **b}
        raise _No
    if isinstance(e, ast.Attribute):
        base = _ev(e.value, env)
        if isinstance(base, _Enum) and e.attr in base.members:
            return base.members[e.attr]
        if isinstance(base, _Member) and e.attr in ("value", "name"):
            return getattr(base, e.attr)
        if isinstance(base, _Holder) and e.attr in base.fields:
            return base.fields[e.attr]
        raise _No
    if isinstance(e, ast.Subscript):
        base = _ev(e.value, env)
        if isinstance(e.slice, ast.Slice):
            lo = _ev(e.slice.lower, env) if e.slice.lower else None
            hi = _ev(e.slice.upper, env) if e.slice.upper else None
            st = _ev(e.slice.step, env) if e.slice.step else None
            if isinstance(base, (list, tuple, str)):
                return base[lo:hi:st]
            raise _No
        k = _ev(e.slice, env)
        try:
            if isinstance(base, (list, tuple, str, dict)):
                return base[k]
        except (KeyError, IndexError, TypeError):
            pass
        raise _No
    if isinstance(e, (ast.ListComp, ast.GeneratorExp, ast.SetComp,
                      ast.DictComp)):
        if isinstance(e, ast.SetComp):
            raise _No
        out = []

        def gen(i, scope):
            if i == len(e.generators):
                if isinstance(e, ast.DictComp):
                    out.append((_ev(e.key, scope), _ev(e.value, scope)))
                else:
                    out.append(_ev(e.elt, scope))
                return
            g = e.generators[i]
            if g.is_async:
                raise _No
            for item in _seq(_ev(g.iter, scope)):
                s2 = dict(scope)
                _bind(g.target, item, s2)
                if all(_truth(_ev(c, s2)) for c in g.ifs):
                    gen(i + 1, s2)
        gen(0, env)
        if isinstance(e, ast.DictComp):
            return dict(out)
        return out
    if isinstance(e, ast.Compare) and len(e.ops) == 1:
        a, b = _ev(e.left, env), _ev(e.comparators[0], env)
        a = a.value if isinstance(a, _Member) and a.strlike else a
        b = b.value if isinstance(b, _Member) and b.strlike else b
        op = e.ops[0]
        try:
            if isinstance(op, ast.Eq):
                return a == b
            if isinstance(op, ast.NotEq):
                return a != b
            if isinstance(op, ast.In):
                return a in b
            if isinstance(op, ast.NotIn):
                return a not in b
        except TypeError:
            pass
        raise _No
    if isinstance(e, ast.Call) and not any(k.arg is None
                                           for k in e.keywords):
        fn = ast.unparse(e.func)
        if isinstance(e.func, ast.Attribute) and not e.args and \
                not e.keywords:
            try:
                recv = _ev(e.func.value, env)
            except _No:
                recv = None
            if isinstance(recv, _Enum) and e.func.attr in recv.methods:
                cname, rexpr = recv.methods[e.func.attr]
                return _ev(rexpr, dict(env, **{cname: recv}))
        if fn == "map" and len(e.args) == 2 and not e.keywords and \
                isinstance(e.args[0], ast.Name) and e.args[0].id in (
                    "list", "tuple", "str"):
            conv = {"list": list, "tuple": tuple, "str": str}[e.args[0].id]
            return [conv(_seq(x)) if conv is not str else str(x)
                    for x in _seq(_ev(e.args[1], env))]
        args = []
        for a in e.args:
            if isinstance(a, ast.Starred):
                args.extend(_seq(_ev(a.value, env)))
            else:
                args.append(_ev(a, env))
        kw = {k.arg: _ev(k.value, env) for k in e.keywords}
        if fn in ("list", "tuple") and len(args) <= 1 and not kw:
            v = _seq(args[0]) if args else []
            return list(v) if fn == "list" else tuple(v)
        if fn == "dict" and not args:
            return dict(kw)
        if fn == "dict" and len(args) == 1 and not kw:
            v = args[0]
            if isinstance(v, dict):
                return dict(v)
            return dict(tuple(p) for p in _seq(v))
        if fn == "zip" and not kw:
            return [tuple(t) for t in zip(*[_seq(a) for a in args])]
        if fn == "map" and len(e.args) == 2 and not kw and isinstance(
                e.args[0], ast.Name) and e.args[0].id in ("list", "tuple",
                                                          "str"):
            conv = {"list": list, "tuple": tuple, "str": str}[e.args[0].id]
            return [conv(_seq(x) if conv is not str else x)
                    for x in _seq(_ev(e.args[1], env))]
        if fn == "sorted" and len(args) == 1 and not kw:
            try:
                return sorted(_seq(args[0]))
            except TypeError:
                raise _No
        if fn == "len" and len(args) == 1:
            return len(_seq(args[0]))
        if fn == "enumerate" and 1 <= len(args) <= 2:
            return [tuple(t) for t in enumerate(_seq(args[0]), *args[1:])]
        if fn == "range" and args and all(isinstance(a, int) for a in args):
            r = range(*args)
            if len(r) > 1000:
                raise _No
            return list(r)
        if fn == "reversed" and len(args) == 1:
            return list(reversed(_seq(args[0])))
        if isinstance(e.func, ast.Attribute) and e.func.attr in (
                "keys", "values", "items") and not args and not kw:
            d = _ev(e.func.value, env)
            if isinstance(d, dict):
                return [tuple(x) if e.func.attr == "items" else x
                        for x in getattr(d, e.func.attr)()]
        # _Holder() : one instance of a private constant holder
        if isinstance(e.func, ast.Name) and isinstance(
                env.get(e.func.id), _HolderClass) and not args and not kw:
            return _Holder(dict(env[e.func.id].defaults))
        raise _No
    raise _No


class _HolderClass:
    def __init__(self, defaults):
        self.defaults = defaults


def _truth(v):
    if isinstance(v, (_Member, _Enum, _Holder)):
        return True
    return bool(v)


def _seq(v):
    if isinstance(v, _Enum):
        return list(v.members.values())
    if isinstance(v, (list, tuple)):
        return list(v)
    if isinstance(v, dict):
        return list(v)
    if isinstance(v, str):
        return list(v)
    raise _No


def _bind(target, value, scope):
    if isinstance(target, ast.Name):
        scope[target.id] = value
        return
    if isinstance(target, (ast.Tuple, ast.List)):
        items = _seq(value)
        if len(items) != len(target.elts) or any(
                isinstance(t, ast.Starred) for t in target.elts):
            raise _No
        for t, v in zip(target.elts, items):
            _bind(t, v, scope)
        return
    raise _No


def _literal(v):
    if isinstance(v, _AstConst):
        import copy
        return copy.deepcopy(v.node)
    return ast.parse(repr(v), mode="eval").body


def _enum_class(cls):
    bases = [ast.unparse(b) for b in cls.bases]
    if not any(b.split(".")[-1] in ("Enum", "IntEnum", "StrEnum")
               for b in bases):
        return None
    strlike = any(b in ("str", "int") or b.endswith(("IntEnum", "StrEnum"))
                  for b in bases)
    members = {}
    methods = {}
    for st in cls.body:
        if isinstance(st, ast.Assign) and len(st.targets) == 1 and isinstance(
                st.targets[0], ast.Name):
            try:
                v = _ev(st.value, {})
            except _No:
                return None
            if not isinstance(v, _PLAIN):
                return None
            members[st.targets[0].id] = _Member(st.targets[0].id, v, strlike)
        elif isinstance(st, ast.FunctionDef):
            body = [b for b in st.body if not (isinstance(b, ast.Expr)
                                               and isinstance(b.value,
                                                              ast.Constant))]
            if any(ast.unparse(d) == "classmethod"
                   for d in st.decorator_list) and len(
                    st.args.args) == 1 and len(body) == 1 and isinstance(
                    body[0], ast.Return) and body[0].value is not None:
                methods[st.name] = (st.args.args[0].arg, body[0].value)
            continue
        elif isinstance(st, ast.Pass) or (
                isinstance(st, ast.Expr) and isinstance(st.value,
                                                        ast.Constant)):
            continue
        else:
            return None
    return _Enum(members, strlike, methods) if members else None


def _holder_class(cls):
    """a private class that only declares fields with constant defaults
    (dataclass / NamedTuple style)"""
    if not cls.name.startswith("_"):
        return None
    defaults = {}
    for st in cls.body:
        if isinstance(st, ast.AnnAssign) and isinstance(
                st.target, ast.Name) and st.value is not None:
            try:
                v = _ev(st.value, {})
            except _No:
                from .normalize import _scalar_const
                if not _scalar_const(st.value):
                    return None
                v = _AstConst(st.value)
            if not _is_data(v):
                return None
            defaults[st.target.id] = v
        elif isinstance(st, ast.Expr) and isinstance(st.value, ast.Constant):
            continue
        elif isinstance(st, ast.Pass):
            continue
        else:
            return None
    return _HolderClass(defaults) if defaults else None


def _merge_displays(v, displays):
    import copy
    if isinstance(v, ast.Dict) and any(k is None for k in v.keys):
        keys, vals = [], []
        for k, x in zip(v.keys, v.values):
            if k is None:
                if not (isinstance(x, ast.Name) and isinstance(
                        displays.get(x.id), ast.Dict) and not any(
                        kk is None for kk in displays[x.id].keys)):
                    return None
                d = displays[x.id]
                for kk, vv in zip(d.keys, d.values):
                    # a later entry with the same key replaces the earlier
                    txt = ast.unparse(kk)
                    for j, ek in enumerate(keys):
                        if ast.unparse(ek) == txt:
                            vals[j] = copy.deepcopy(vv)
                            break
                    else:
                        keys.append(copy.deepcopy(kk))
                        vals.append(copy.deepcopy(vv))
            else:
                keys.append(k)
                vals.append(x)
        return ast.Dict(keys=keys, values=vals)
    if isinstance(v, ast.BinOp) and isinstance(v.op, ast.Add):
        parts = []
        for side in (v.left, v.right):
            if isinstance(side, ast.Name) and isinstance(
                    displays.get(side.id), (ast.List, ast.Tuple)):
                parts.append(displays[side.id])
            elif isinstance(side, (ast.List, ast.Tuple)):
                parts.append(side)
            else:
                return None
        if type(parts[0]) is not type(parts[1]):
            return None
        return type(parts[0])(elts=[copy.deepcopy(e) for p_ in parts
                                    for e in p_.elts], ctx=ast.Load())
    return None


def fold_module_tables(tree):
    """-> {dotted attribute text: constant AST} for the constant inliner;
    rewrites computable module-level assignments into literals."""
    env = {}
    attrs = {}
    rebound = {}
    displays = {}
    for st in tree.body:
        for t in getattr(st, "targets", []) or []:
            for n in ast.walk(t):
                if isinstance(n, ast.Name):
                    rebound[n.id] = rebound.get(n.id, 0) + 1
    new_body = []
    for st in tree.body:
        if isinstance(st, ast.ClassDef) and st.name.startswith("_"):
            en = _enum_class(st)
            if en is not None:
                env[st.name] = en
                for mname, m in en.members.items():
                    attrs[f"{st.name}.{mname}.value"] = _literal(m.value)
                    attrs[f"{st.name}.{mname}.name"] = _literal(m.name)
                    if en.strlike:
                        attrs[f"{st.name}.{mname}"] = _literal(m.value)
            else:
                hc = _holder_class(st)
                if hc is not None:
                    env[st.name] = hc
            new_body.append(st)
            continue
        if isinstance(st, ast.Assign) and len(st.targets) == 1:
            tgt = st.targets[0]
            names = [n.id for n in ast.walk(tgt) if isinstance(n, ast.Name)]
            if any(rebound.get(n, 0) > 1 for n in names) or not isinstance(
                    tgt, (ast.Name, ast.Tuple, ast.List)):
                new_body.append(st)
                continue
            try:
                v = _ev(st.value, env)
                scope = {}
                _bind(tgt, v, scope)
            except (_No, RecursionError):
                # displays merged from other module-level displays whose
                # entries are not plain data (classes, functions):
                # {**A, **B} / A + B at the level of the syntax tree
                merged = _merge_displays(st.value, displays)
                if merged is not None and isinstance(tgt, ast.Name):
                    a = ast.Assign(targets=[tgt], value=merged)
                    ast.copy_location(a, st)
                    ast.fix_missing_locations(a)
                    new_body.append(a)
                    displays[tgt.id] = merged
                    continue
                if isinstance(tgt, ast.Name) and isinstance(
                        st.value, (ast.Dict, ast.List, ast.Tuple)) and \
                        rebound.get(tgt.id, 0) == 1:
                    displays[tgt.id] = st.value
                new_body.append(st)
                continue
            env.update(scope)
            if isinstance(v, _Holder) and isinstance(tgt, ast.Name):
                for fname, fv in v.fields.items():
                    attrs[f"{tgt.id}.{fname}"] = _literal(fv)
                new_body.append(st)
                continue
            if not all(_is_data(x) for x in scope.values()):
                new_body.append(st)
                continue
            already = isinstance(tgt, ast.Name) and isinstance(
                st.value, (ast.Constant, ast.List, ast.Tuple, ast.Dict)) \
                and not any(isinstance(n, (ast.Name, ast.Call, ast.Starred,
                                           ast.BinOp, ast.Attribute))
                            for n in ast.walk(st.value)) and not any(
                                k is None for d in ast.walk(st.value)
                                if isinstance(d, ast.Dict) for k in d.keys)
            if already:
                new_body.append(st)
                continue
            for nm, val in scope.items():
                a = ast.Assign(targets=[ast.Name(id=nm, ctx=ast.Store())],
                               value=_literal(val))
                ast.copy_location(a, st)
                ast.fix_missing_locations(a)
                a._folded = True
                new_body.append(a)
            continue
        new_body.append(st)
    tree.body = new_body
    tree._static_env = env
    return attrs
