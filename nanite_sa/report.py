"""Rule-instance bookkeeping, evidence files, known findings, exit codes."""
from __future__ import annotations

import ast
import json
import os
import pathlib
import time

from .astutil import norm
from .loader import where, enclosing_function

VERIF = pathlib.Path(__file__).resolve().parent.parent
EVIDENCE = VERIF / "evidence"
KNOWN = VERIF / "known_findings.json"


class Instance:
    def __init__(self, rule, status, file, line, function, construct,
                 message, path=None):
        self.rule = rule
        self.status = status        # "ok" | "fail"
        self.file = file
        self.line = line
        self.function = function
        self.construct = construct  # normalised text, position independent
        self.message = message
        self.path = path or []

    def key(self, pid):
        return (pid, self.rule, self.file, self.function, self.construct)

    def as_dict(self):
        d = {"rule": self.rule, "verdict": self.status,
             "site": f"{self.file}:{self.line}", "function": self.function,
             "construct": self.construct, "message": self.message}
        if self.path:
            d["path"] = self.path
        return d


def _locate(node):
    if isinstance(node, tuple):
        return node
    f, line = where(node)
    fn = enclosing_function(node)
    if isinstance(node, (ast.FunctionDef, ast.AsyncFunctionDef)):
        fn = node
    q = getattr(fn, "_qualname", None) if fn is not None else None
    return f, line, q or "<module>"


class Ctx:
    """Collects the verdict of every rule instance of one property run."""

    def __init__(self, pid, tier, repo, seed=0):
        self.pid = pid
        self.tier = tier
        self.repo = repo
        self.seed = seed
        self.instances: list[Instance] = []
        self.notes: list[str] = []
        self.assumptions: list[str] = []
        self.analysed_functions: set[str] = set()
        self.rule = "?"

    # rule authors call these -------------------------------------------
    def ok(self, node, what, message=""):
        f, line, fn = _locate(node)
        self.instances.append(
            Instance(self.rule, "ok", f, line, fn, what, message))

    def fail(self, node, what, message, path=None):
        f, line, fn = _locate(node)
        self.instances.append(
            Instance(self.rule, "fail", f, line, fn, what, message, path))

    def check(self, cond, node, what, message_fail, message_ok=""):
        if cond:
            self.ok(node, what, message_ok)
        else:
            self.fail(node, what, message_fail)
        return bool(cond)

    def note(self, text):
        self.notes.append(f"{self.rule}: {text}")

    def assume(self, text):
        if text not in self.assumptions:
            self.assumptions.append(text)

    def analysed(self, func):
        q = getattr(func, "_qualname", None)
        m = getattr(func, "_modname", "?")
        if q:
            self.analysed_functions.add(f"{m}:{q}")

    def floor(self, what, count, minimum):
        from .loader import AnchorError
        if count < minimum:
            raise AnchorError(
                f"{self.rule}: only {count} instance(s) of {what} found, "
                f"expected at least {minimum} (rule would pass vacuously)")

    # ---------------------------------------------------------------------
    def failures(self):
        return [i for i in self.instances if i.status == "fail"]


def load_known():
    if not KNOWN.exists():
        return [], []
    data = json.loads(KNOWN.read_text())
    return data.get("findings", []), data.get("fixed", [])


def match_known(pid, inst, findings):
    for k in findings:
        if (k.get("property") == pid and k.get("rule") == inst.rule
                and k.get("file") == inst.file
                and k.get("function") == inst.function
                and k.get("construct") == inst.construct):
            return k
    return None


def write_evidence(pid, tier, seed, ctx, prop_mod, wall, violations,
                   known_hits, extra=None):
    EVIDENCE.mkdir(exist_ok=True)
    insts = ctx.instances
    distinct = {(i.rule, i.file, i.function, i.construct) for i in insts}
    rules = sorted({i.rule for i in insts})
    samples = [i.as_dict() for i in insts[:60]]
    cov = {
        "explanation": prop_mod.EXPLANATION,
        "decided_clauses": [f"{rid}: {title}" for rid, title, _ in
                            prop_mod.RULES],
        "not_decided": prop_mod.NOT_DECIDED,
        "obligations": len(insts),
        "discharged": sum(1 for i in insts if i.status == "ok"),
        "evaluations": len(insts),
        "distinct_nontrivial": len(distinct),
        "rule": ("one evaluation = one rule instance (a call site, key, "
                 "branch, function or table row the rule quantifies over) "
                 "found in the current /repo source; distinct = distinct "
                 "(rule, file, function, normalised construct) tuples; every "
                 "instance needs the rule's analysis (dominance, dataflow, "
                 "table comparison, abstract value), none is an existence "
                 "test only"),
        "samples": samples,
        "rules_run": rules,
        "units_parsed": ctx.repo.stats(),
        "functions_analysed": sorted(ctx.analysed_functions),
        "known_findings_matched": known_hits,
        "notes": ctx.notes,
        "exhaustive": False,
    }
    if extra:
        cov.update(extra)
    ev = {
        "property_id": pid,
        "tier": tier,
        "seed": seed,
        "level": "other",
        "coverage": cov,
        "assumptions": ctx.assumptions + getattr(prop_mod, "ASSUMPTIONS", []),
        "wall_s": round(wall, 3),
        "violations": violations,
    }
    (EVIDENCE / f"{pid}.json").write_text(json.dumps(ev, indent=1))


def write_replay(pid, n, inst):
    d = EVIDENCE / "replay"
    d.mkdir(parents=True, exist_ok=True)
    p = d / f"{pid}-{n}.json"
    p.write_text(json.dumps({"property": pid, **inst.as_dict(),
                             "file": inst.file}, indent=1))
    return p
