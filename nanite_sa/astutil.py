"""Small AST helpers shared by all rules."""
from __future__ import annotations

import ast
from fractions import Fraction

from .loader import Undecided


def dotted(node) -> str | None:
    """'a.b.c' for Name/Attribute chains, else None."""
    parts = []
    while isinstance(node, ast.Attribute):
        parts.append(node.attr)
        node = node.value
    if isinstance(node, ast.Name):
        parts.append(node.id)
        return ".".join(reversed(parts))
    return None


def norm(node) -> str:
    """Normalised source text of a node (position independent)."""
    if node is None:
        return "None"
    try:
        return ast.unparse(node).strip()
    except Exception:  # pragma: no cover
        return ast.dump(node)


def const_str(node) -> str | None:
    if isinstance(node, ast.Constant) and isinstance(node.value, str):
        return node.value
    return None


def is_const(node, value) -> bool:
    return (isinstance(node, ast.Constant)
            and type(node.value) is type(value) and node.value == value)


def sub_key(node):
    """For `X["k"]` return (X, "k"); else None."""
    if isinstance(node, ast.Subscript):
        k = const_str(node.slice)
        if k is not None:
            return node.value, k
    return None


def walk_no_nested(node, include_self=True):
    """ast.walk that does not enter nested function/lambda/class bodies."""
    stack = [node]
    first = True
    while stack:
        n = stack.pop()
        if not first and isinstance(n, (ast.FunctionDef, ast.Lambda,
                                        ast.AsyncFunctionDef, ast.ClassDef)):
            continue
        if not first or include_self:
            yield n
        first = False
        stack.extend(reversed(list(ast.iter_child_nodes(n))))


def calls_in(node, nested=False):
    it = ast.walk(node) if nested else walk_no_nested(node)
    for n in it:
        if isinstance(n, ast.Call):
            yield n


def call_name(call: ast.Call) -> str | None:
    return dotted(call.func)


def kwarg(call: ast.Call, name: str):
    for kw in call.keywords:
        if kw.arg == name:
            return kw.value
    return None


def bound_args(call: ast.Call, fdef) -> dict:
    """parameter name -> argument expression, binding positional arguments
    through the callee's signature (`self`/`cls` of methods skipped)"""
    params = [a.arg for a in fdef.args.posonlyargs + fdef.args.args]
    if params and params[0] in ("self", "cls"):
        params = params[1:]
    out = {}
    for i, a in enumerate(call.args):
        if isinstance(a, ast.Starred):
            break
        if i < len(params):
            out[params[i]] = a
    for kw in call.keywords:
        if kw.arg is not None:
            out[kw.arg] = kw.value
    return out


def arg_or_kw(call: ast.Call, idx: int, name: str):
    v = kwarg(call, name)
    if v is not None:
        return v
    if idx is not None and idx < len(call.args):
        a = call.args[idx]
        if not isinstance(a, ast.Starred):
            return a
    return None


def names_loaded(node) -> set[str]:
    return {n.id for n in ast.walk(node)
            if isinstance(n, ast.Name) and isinstance(n.ctx, ast.Load)}


def target_names(target) -> list[str]:
    """Plain names bound by an assignment target (tuples flattened)."""
    out = []
    if isinstance(target, ast.Name):
        out.append(target.id)
    elif isinstance(target, (ast.Tuple, ast.List)):
        for e in target.elts:
            out.extend(target_names(e))
    elif isinstance(target, ast.Starred):
        out.extend(target_names(target.value))
    return out


def stmt_targets(st) -> list:
    if isinstance(st, ast.Assign):
        return list(st.targets)
    if isinstance(st, (ast.AugAssign, ast.AnnAssign)):
        return [st.target]
    if isinstance(st, (ast.For, ast.AsyncFor)):
        return [st.target]
    if isinstance(st, (ast.With, ast.AsyncWith)):
        return [i.optional_vars for i in st.items if i.optional_vars]
    return []


def all_statements(func, nested=False):
    """Every statement node inside a function body (pre-order)."""
    it = ast.walk(func) if nested else walk_no_nested(func, False)
    for n in it:
        if isinstance(n, ast.stmt):
            yield n


def func_params(func) -> list[str]:
    a = func.args
    names = [x.arg for x in a.posonlyargs + a.args]
    if a.vararg:
        names.append(a.vararg.arg)
    names += [x.arg for x in a.kwonlyargs]
    if a.kwarg:
        names.append(a.kwarg.arg)
    return names


def decorator_calls(func):
    for d in func.decorator_list:
        if isinstance(d, ast.Call):
            yield d


def docstring(func) -> str:
    return ast.get_docstring(func, clean=False) or ""


# ---------------------------------------------------------------------------
# safe evaluation of literal tables

_BIN = {
    ast.Add: lambda a, b: a + b, ast.Sub: lambda a, b: a - b,
    ast.Mult: lambda a, b: a * b, ast.Div: lambda a, b: a / b,
    ast.Pow: lambda a, b: a ** b, ast.FloorDiv: lambda a, b: a // b,
    ast.Mod: lambda a, b: a % b,
}


class Opaque:
    """A value the evaluator does not interpret (kept by source text)."""

    def __init__(self, node):
        self.node = node
        self.text = norm(node)

    def __repr__(self):
        return f"<{self.text}>"

    def __eq__(self, other):
        return isinstance(other, Opaque) and other.text == self.text

    def __hash__(self):
        return hash(self.text)


def literal(node, env: dict | None = None, opaque=True):
    """Evaluate a literal expression (dict/list/tuple/set/const, `dict(k=v)`,
    `sorted(x)`, `list(x)`, +,-,*,/ on numbers, names from `env`).  Anything
    else becomes `Opaque` (or raises Undecided when opaque=False)."""
    env = env or {}

    def ev(n):
        if isinstance(n, ast.Constant):
            return n.value
        if isinstance(n, ast.List):
            return [ev(e) for e in n.elts]
        if isinstance(n, ast.Tuple):
            return tuple(ev(e) for e in n.elts)
        if isinstance(n, ast.Set):
            return {ev(e) for e in n.elts}
        if isinstance(n, ast.Dict):
            out = {}
            for k, v in zip(n.keys, n.values):
                if k is None:
                    d = ev(v)
                    if isinstance(d, dict):
                        out.update(d)
                        continue
                    return fail(n)
                out[ev(k)] = ev(v)
            return out
        if isinstance(n, ast.Name) and n.id in env:
            return env[n.id]
        if isinstance(n, ast.UnaryOp) and isinstance(n.op, ast.USub):
            v = ev(n.operand)
            if isinstance(v, (int, float)):
                return -v
            return fail(n)
        if isinstance(n, ast.BinOp) and type(n.op) in _BIN:
            a, b = ev(n.left), ev(n.right)
            if isinstance(a, (int, float)) and isinstance(b, (int, float)):
                try:
                    return _BIN[type(n.op)](a, b)
                except Exception:
                    return fail(n)
            if (isinstance(n.op, ast.Add) and isinstance(a, list)
                    and isinstance(b, list)):
                return a + b
            if (isinstance(n.op, ast.Add) and isinstance(a, str)
                    and isinstance(b, str)):
                return a + b
            return fail(n)
        if isinstance(n, ast.Call):
            cn = dotted(n.func)
            if cn == "dict" and not n.args:
                return {kw.arg: ev(kw.value) for kw in n.keywords
                        if kw.arg is not None}
            if cn in ("sorted", "list", "tuple") and len(n.args) == 1 \
                    and not n.keywords:
                v = ev(n.args[0])
                if isinstance(v, dict):
                    v = list(v)
                if isinstance(v, (list, tuple, set)):
                    try:
                        return (sorted(v) if cn == "sorted"
                                else tuple(v) if cn == "tuple" else list(v))
                    except TypeError:
                        return fail(n)
            if (isinstance(n.func, ast.Attribute) and n.func.attr == "keys"
                    and not n.args):
                v = ev(n.func.value)
                if isinstance(v, dict):
                    return list(v)
            return fail(n)
        return fail(n)

    def fail(n):
        if opaque:
            return Opaque(n)
        raise Undecided(f"cannot evaluate literal {norm(n)}")

    return ev(node)


def number_fraction(node) -> Fraction | None:
    """Exact rational value of a numeric literal, from its source text."""
    if isinstance(node, ast.Constant) and isinstance(node.value, (int, float)) \
            and not isinstance(node.value, bool):
        if isinstance(node.value, int):
            return Fraction(node.value)
        # exact decimal value of the literal as written (repr round-trips)
        return Fraction(repr(node.value))
    return None


def clone(node):
    """Structural copy of an AST (fields only; no _parent back-links)."""
    if isinstance(node, list):
        return [clone(x) for x in node]
    if not isinstance(node, ast.AST):
        return node
    new = type(node)()
    for f in node._fields:
        if hasattr(node, f):
            setattr(new, f, clone(getattr(node, f)))
    for a in ("lineno", "col_offset", "end_lineno", "end_col_offset"):
        if hasattr(node, a):
            setattr(new, a, getattr(node, a))
    return new


def str_template(node):
    """'train_{}.txt' for f-strings, "..".format(..) and plain constants;
    None otherwise.  Placeholders are rendered as {} (or {name} for simple
    names: see `str_template_named`)."""
    if isinstance(node, ast.Constant) and isinstance(node.value, str):
        return node.value
    if isinstance(node, ast.JoinedStr):
        out = ""
        for v in node.values:
            if isinstance(v, ast.Constant):
                out += str(v.value)
            else:
                out += "{}"
        return out
    if isinstance(node, ast.Call) and isinstance(node.func, ast.Attribute) \
            and node.func.attr == "format" and isinstance(
                node.func.value, ast.Constant):
        return node.func.value.value
    return None


def str_template_args(node):
    """the expressions filling the placeholders of a template (texts)"""
    if isinstance(node, ast.JoinedStr):
        return [norm(v.value) for v in node.values
                if isinstance(v, ast.FormattedValue)]
    if isinstance(node, ast.Call) and isinstance(node.func, ast.Attribute) \
            and node.func.attr == "format":
        return [norm(a) for a in node.args]
    return []
