"""Variant self-test (thorough tier): seeded breaks must fire, benign
refactorings must stay silent.  Variants are in-memory source edits of the
*current* tree; nothing is written to disk."""
from __future__ import annotations


def run(pid, repo, seed=0):
    from . import variant_defs
    return variant_defs.run(pid, repo, seed)
