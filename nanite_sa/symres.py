"""Resolve local names to their defining expressions (single-assignment
locals are inlined recursively) and canonicalise expressions, so that rules
can compare *what is computed* independent of local naming, hoisting and
operand order of commutative operators."""
from __future__ import annotations

import ast

from .astutil import clone, norm, target_names, walk_no_nested


class Resolver:
    def __init__(self, func, keep=()):
        self.func = func
        self.defs: dict[str, list] = {}
        self.keep = set(keep)
        params = {a.arg for a in func.args.args + func.args.kwonlyargs}
        if func.args.vararg:
            params.add(func.args.vararg.arg)
        if func.args.kwarg:
            params.add(func.args.kwarg.arg)
        self.params = params
        for st in walk_no_nested(func, include_self=False):
            if isinstance(st, ast.Assign):
                for t in st.targets:
                    self._bind(t, st.value, st)
            elif isinstance(st, ast.AnnAssign) and st.value is not None:
                self._bind(st.target, st.value, st)
            elif isinstance(st, ast.AugAssign):
                for nm in target_names(st.target):
                    self.defs.setdefault(nm, []).append(None)
            elif isinstance(st, ast.For):
                self._bind_iter(st.target, st.iter)
            elif isinstance(st, ast.comprehension):
                # comprehension variables are scoped: never inlined
                for nm in target_names(st.target):
                    self.defs.setdefault(nm, []).append(None)
            elif isinstance(st, ast.Call) and isinstance(
                    st.func, ast.Attribute) and isinstance(
                        st.func.value, ast.Name) and st.func.attr in (
                            "append", "extend", "insert", "remove", "pop",
                            "update", "add", "clear", "sort", "reverse",
                            "setdefault", "fill", "set"):
                # a local that is mutated is not its initial value
                self.defs.setdefault(st.func.value.id, []).append(None)
            elif isinstance(st, ast.With):
                for i in st.items:
                    if i.optional_vars is not None:
                        for nm in target_names(i.optional_vars):
                            self.defs.setdefault(nm, []).append(None)
            elif isinstance(st, ast.NamedExpr):
                self._bind(st.target, st.value, st)

    def _bind(self, target, value, st):
        if isinstance(target, ast.Name):
            self.defs.setdefault(target.id, []).append(value)
        elif isinstance(target, (ast.Tuple, ast.List)):
            if isinstance(value, (ast.Tuple, ast.List)) and \
                    len(value.elts) == len(target.elts):
                for t, v in zip(target.elts, value.elts):
                    self._bind(t, v, st)
            else:
                for i, t in enumerate(target.elts):
                    if isinstance(t, ast.Name):
                        sub = ast.Subscript(value=value,
                                            slice=ast.Constant(value=i),
                                            ctx=ast.Load())
                        self.defs.setdefault(t.id, []).append(sub)
                    else:
                        for nm in target_names(t):
                            self.defs.setdefault(nm, []).append(None)

    def _bind_iter(self, target, it):
        # `for ii, x0 in enumerate(A)`: x0 is an element of A
        if isinstance(it, ast.Call) and norm(it.func) == "enumerate" and \
                isinstance(target, ast.Tuple) and len(target.elts) == 2:
            idx, el = target.elts
            if isinstance(idx, ast.Name):
                self.defs.setdefault(idx.id, []).append(
                    ast.Name(id=f"<index of {norm(it.args[0])}>",
                             ctx=ast.Load()))
            if isinstance(el, ast.Name):
                self.defs.setdefault(el.id, []).append(
                    ast.Subscript(value=it.args[0],
                                  slice=ast.Name(id="<i>", ctx=ast.Load()),
                                  ctx=ast.Load()))
            return
        # plain loop variables are never inlined
        for nm in target_names(target):
            self.defs.setdefault(nm, []).append(None)

    # -- flow-sensitive resolution ------------------------------------------
    def _flow(self):
        if getattr(self, "_cfg", None) is None:
            from .cfg import CFG
            from .dataflow import reaching_defs
            try:
                self._cfg = CFG(self.func)
                self._rdin = reaching_defs(self._cfg)
            except Exception:
                self._cfg = False
                self._rdin = {}
        return self._cfg

    def reaching_value(self, name_node):
        """the single simple definition of this name reaching this use"""
        cfg = self._flow()
        if not cfg:
            return None
        if name_node.id in self.params and name_node.id not in self.defs:
            return None
        if name_node.id in self.keep:
            return None
        cn = cfg.node_containing(name_node)
        if cn is None:
            # inside a comprehension / lambda of a statement: locate the stmt
            st = name_node
            while st is not None and not isinstance(st, ast.stmt):
                st = getattr(st, "_parent", None)
            cn = cfg.node_of_stmt(st) if st is not None else None
            if cn is None:
                return None
        defs = {d for (v, d) in self._rdin.get(cn.id, ()) if
                v == name_node.id}
        if len(defs) != 1:
            return None
        dn = cfg.nodes[next(iter(defs))]
        a = dn.ast
        if dn.kind != "stmt" or not isinstance(a, (ast.Assign,
                                                    ast.AnnAssign)):
            return None
        if isinstance(a, ast.AnnAssign):
            return a.value if isinstance(a.target, ast.Name) else None
        if len(a.targets) != 1:
            return None
        t = a.targets[0]
        if isinstance(t, ast.Name) and t.id == name_node.id:
            # a local that is mutated afterwards is not its initial value
            if any(d is None for d in self.defs.get(name_node.id, [])):
                if not all(d is None or d is a.value
                           for d in self.defs.get(name_node.id, [])):
                    pass
                muts = [d for d in self.defs.get(name_node.id, [])
                        if d is None]
                if muts and not _access_path(a.value):
                    # (an alias of an access path still denotes the same
                    # object after a mutating method call)
                    return None
            return a.value
        if isinstance(t, (ast.Tuple, ast.List)) and isinstance(
                a.value, (ast.Tuple, ast.List)) and len(t.elts) == len(
                    a.value.elts):
            for tt, vv in zip(t.elts, a.value.elts):
                if isinstance(tt, ast.Name) and tt.id == name_node.id:
                    return vv
        return None

    def reaching_values(self, name_node):
        """values of all simple definitions of this name reaching this use
        (None when one of them is not a plain `name = expr`)"""
        cfg = self._flow()
        if not cfg:
            return None
        cn = cfg.node_containing(name_node)
        if cn is None:
            return None
        out = []
        for (v, d) in self._rdin.get(cn.id, ()):
            if v != name_node.id:
                continue
            dn = cfg.nodes[d]
            a = dn.ast
            if dn.kind != "stmt" or not isinstance(a, ast.Assign) or \
                    len(a.targets) != 1 or not isinstance(
                        a.targets[0], ast.Name):
                return None
            out.append(a.value)
        return out

    def _only_aug(self, name):
        return False

    def build(self, node, depth=12):
        """resolved clone of an *original* expression node"""
        if isinstance(node, ast.Name) and isinstance(node.ctx, ast.Load) \
                and depth > 0 and hasattr(node, "_parent"):
            v = self.reaching_value(node)
            if v is not None:
                return self.build(v, depth - 1)
            return clone(node)
        if isinstance(node, ast.Lambda):
            return clone(node)
        if isinstance(node, (ast.ListComp, ast.SetComp, ast.DictComp,
                             ast.GeneratorExp)):
            return clone(node)
        if not isinstance(node, ast.AST):
            return node
        new = type(node)()
        for f in node._fields:
            if not hasattr(node, f):
                continue
            val = getattr(node, f)
            if isinstance(val, list):
                setattr(new, f, [self.build(x, depth) if isinstance(
                    x, ast.AST) else x for x in val])
            elif isinstance(val, ast.AST):
                setattr(new, f, self.build(val, depth))
            else:
                setattr(new, f, val)
        return new

    def single(self, name):
        d = self.defs.get(name)
        if name in self.params or name in self.keep:
            return None
        if d and len(d) == 1 and d[0] is not None:
            return d[0]
        return None

    def resolve(self, expr, depth=12):
        """A deep copy of expr with single-assignment locals inlined."""
        if hasattr(expr, "_parent") and self._flow():
            return self.build(expr, depth)
        res = self

        class T(ast.NodeTransformer):
            def __init__(self, depth):
                self.depth = depth

            def visit_Name(self, node):
                if isinstance(node.ctx, ast.Load) and self.depth > 0:
                    v = res.single(node.id)
                    if v is not None:
                        return T(self.depth - 1).visit(clone(v))
                return node

            def visit_Lambda(self, node):
                return node

        return T(depth).visit(clone(expr))

    def text(self, expr) -> str:
        if hasattr(expr, "_parent") and self._flow():
            return canon_text(self.build(expr))
        return canon_text(self.resolve(expr))


def _access_path(v):
    while True:
        if isinstance(v, ast.Attribute):
            v = v.value
        elif isinstance(v, ast.Subscript) and isinstance(v.slice,
                                                         ast.Constant):
            v = v.value
        else:
            return isinstance(v, ast.Name)


def _flatten(node, op):
    if isinstance(node, ast.BinOp) and isinstance(node.op, op):
        return _flatten(node.left, op) + _flatten(node.right, op)
    return [node]


def canon(expr):
    """Sort operands of commutative + * & | chains; drop `.copy()` on
    read-only use is NOT done here (rules ask for it explicitly)."""

    class C(ast.NodeTransformer):
        def visit_BinOp(self, node):
            self.generic_visit(node)
            for op in (ast.Mult, ast.Add, ast.BitAnd, ast.BitOr):
                if isinstance(node.op, op):
                    parts = _flatten(node, op)
                    parts = sorted(parts, key=lambda p: norm(p))
                    out = parts[0]
                    for p in parts[1:]:
                        out = ast.BinOp(left=out, op=op(), right=p)
                    return out
            return node

        def visit_Call(self, node):
            self.generic_visit(node)
            f = node.func
            if isinstance(f, ast.Attribute) and f.attr == "count_nonzero" \
                    and isinstance(f.value, ast.Name) and f.value.id in (
                        "np", "numpy") and len(node.args) == 1 and \
                    not node.keywords:
                from .normalize import _is_mask
                if _is_mask(node.args[0]):
                    f.attr = "sum"
            return node

    return C().visit(clone(expr))


def canon_text(expr) -> str:
    return norm(canon(expr))


def factors(expr):
    """multiplicative factors (texts) and divisors of a product expression"""
    num, den = [], []

    def go(e, inv):
        if isinstance(e, ast.BinOp) and isinstance(e.op, ast.Mult):
            go(e.left, inv)
            go(e.right, inv)
        elif isinstance(e, ast.BinOp) and isinstance(e.op, ast.Div):
            go(e.left, inv)
            go(e.right, not inv)
        else:
            (den if inv else num).append(canon_text(e))

    go(expr, False)
    return sorted(num), sorted(den)
