"""Memoisation discipline (shared rule `<PID>-RM`).

A cached result is only as good as its key.  The rule finds every
memoisation in the code a property is anchored in (and in what that code
calls) and accepts it only when the memoised computation depends on nothing
but its arguments:

* decorator caches (`functools.lru_cache`, `functools.cache`,
  `cached_property`);
* module-level containers used as look-aside caches (written and read by the
  same function under a key test), other than the decorator registries;
* closure state: a nested function that mutates a container (or re-binds a
  `nonlocal`) of its enclosing function.

Unsafe: the memoised computation (transitively) reads a file or the file
system, the model/step registries, `self`/`cls` state, introspection, the
clock - anything that can change while the key stays the same - or hands out
one shared mutable object to every caller.  The memoisations that exist on
the pinned tree are listed with their reason; they are reported as `ok`
(they are part of the behaviour the properties were written against).
"""
from __future__ import annotations

import ast
import json

from .astutil import call_name, dotted, norm, walk_no_nested
from .loader import Undecided

CACHE_DECOS = {"functools.lru_cache", "lru_cache", "functools.cache", "cache",
               "functools.cached_property", "cached_property"}

# present on the pinned tree: (module, qualname) -> why it is accepted
BASELINE = {
    ("preproc", "available"): "the list of registered steps; steps are "
    "registered at import time only",
    ("rate.io", "hash_file"): "content hash of a measurement file keyed by "
    "its path (files are not rewritten during a session)",
    ("cli.rating", "fit_data"): "CLI convenience keyed on the curve object",
}
REGISTRIES = {"models_available", "PREPROCESSORS", "POC_METHODS"}
IO_CALLS = ("open", "np.loadtxt", "np.fromfile", "np.load", "np.genfromtxt",
            "json.load", "h5py.File", "importlib.import_module")
IO_PREFIX = ("afmformats.", "os.", "shutil.", "tempfile.", "time.",
             "inspect.")
IO_ATTRS = {"read_text", "read_bytes", "stat", "exists", "open", "glob",
            "rglob", "iterdir"}
MUT = {"append", "extend", "insert", "remove", "pop", "update", "clear",
       "setdefault", "add", "discard", "popitem"}


def _impure(fn, mod, cg, key, depth=0):
    """why the result of `fn` can change while its arguments stay equal"""
    reasons = []
    seen = cg.reachable([key]) if key in cg.edges else {key}
    for k in sorted(seen):
        try:
            f = cg.func(k)
        except KeyError:
            continue
        m = cg.repo.modules.get(k[0])
        for n in walk_no_nested(f, False):
            if isinstance(n, ast.Call):
                cn = call_name(n) or ""
                if cn in IO_CALLS or cn.startswith(IO_PREFIX):
                    reasons.append(f"{cn}() in {k[1]}")
                elif isinstance(n.func, ast.Attribute) and \
                        n.func.attr in IO_ATTRS and not cn.startswith(
                            ("np.", "self.")):
                    reasons.append(f".{n.func.attr}() in {k[1]}")
            elif isinstance(n, ast.Name) and isinstance(n.ctx, ast.Load) \
                    and n.id in REGISTRIES:
                reasons.append(f"registry {n.id} in {k[1]}")
            elif isinstance(n, ast.Attribute) and dotted(n) and dotted(
                    n).split(".")[-1] in REGISTRIES:
                reasons.append(f"registry {dotted(n)} in {k[1]}")
        if f is fn:
            params = [a.arg for a in f.args.args]
            if params and params[0] in ("self", "cls"):
                for n in walk_no_nested(f, False):
                    if isinstance(n, ast.Attribute) and isinstance(
                            n.value, ast.Name) and n.value.id == params[0] \
                            and isinstance(n.ctx, ast.Load):
                        reasons.append(f"state of `{params[0]}`")
                        break
    return sorted(set(reasons))[:3]


def _shared_mutable(fn):
    """the memoised function returns an object its callers can edit"""
    for r in walk_no_nested(fn, False):
        if isinstance(r, ast.Return) and r.value is not None:
            v = r.value
            if isinstance(v, (ast.Dict, ast.List, ast.Set, ast.ListComp,
                              ast.DictComp)):
                return norm(v)[:40]
            if isinstance(v, ast.Name):
                for st in walk_no_nested(fn, False):
                    if isinstance(st, ast.Assign) and norm(
                            st.targets[0]) == v.id and isinstance(
                            st.value, ast.Call):
                        cn = call_name(st.value) or ""
                        if cn.endswith(("Parameters", "get_parameter_defaults",
                                        "dict", "list", "deepcopy")):
                            return f"{v.id} = {cn}(...)"
            if isinstance(v, ast.Call) and (call_name(v) or "").endswith(
                    ("get_parameter_defaults", "Parameters")):
                return norm(v)[:40]
    return None


def _identity_keyed(fn, table):
    """text of an `is`/`is not`/id() test against an entry of the table"""
    for n in walk_no_nested(fn, False):
        if isinstance(n, ast.Compare) and len(n.ops) == 1:
            sides = [n.left, n.comparators[0]]
            tab = [x for x in sides if isinstance(x, ast.Subscript)
                   and isinstance(x.value, ast.Name) and x.value.id == table]
            if not tab:
                tab = [x for x in sides if isinstance(x, ast.Call)
                       and isinstance(x.func, ast.Attribute)
                       and x.func.attr == "get" and isinstance(
                           x.func.value, ast.Name)
                       and x.func.value.id == table]
            if not tab:
                continue
            if isinstance(n.ops[0], (ast.Is, ast.IsNot)) and not any(
                    isinstance(x, ast.Constant) for x in sides):
                return norm(n)
            if any(isinstance(x, ast.Call) and call_name(x) == "id"
                   for x in sides):
                return norm(n)
        if isinstance(n, ast.Subscript) and isinstance(
                n.value, ast.Name) and n.value.id == table and isinstance(
                n.slice, ast.Call) and call_name(n.slice) == "id":
            return norm(n)
    return None


def _key_coverage(fn, table):
    """(parameters missing from the key, {parameter: projections used}) of
    a look-aside cache whose key is a local tuple compared with / used to
    subscript the module-level `table`; None when the shape is not
    recognised"""
    from .astutil import func_params
    params = [p for p in func_params(fn) if p not in ("self", "cls")]
    keyexprs = []
    for n in walk_no_nested(fn, False):
        if isinstance(n, ast.Compare) and len(n.ops) == 1 and isinstance(
                n.ops[0], (ast.Eq, ast.NotEq)):
            sides = [n.left, n.comparators[0]]
            if any(isinstance(x, ast.Subscript) and isinstance(
                    x.value, ast.Name) and x.value.id == table
                    for x in sides):
                keyexprs += [x for x in sides if not (isinstance(
                    x, ast.Subscript) and isinstance(x.value, ast.Name)
                    and x.value.id == table)]
        if isinstance(n, ast.Compare) and len(n.ops) == 1 and isinstance(
                n.ops[0], (ast.In, ast.NotIn)) and isinstance(
                n.comparators[0], ast.Name) and \
                n.comparators[0].id == table:
            keyexprs.append(n.left)
    if not keyexprs:
        return None
    # resolve a key held in a local
    resolved = []
    for k in keyexprs:
        if isinstance(k, ast.Name) and k.id not in params:
            defs = [st.value for st in walk_no_nested(fn, False)
                    if isinstance(st, ast.Assign) and len(st.targets) == 1
                    and norm(st.targets[0]) == k.id
                    and not (isinstance(st.value, ast.Constant)
                             and st.value.value is None)]
            if not defs:
                return None
            resolved += defs
        else:
            resolved.append(k)
    used = {n.id for st in walk_no_nested(fn, False)
            for n in ast.walk(st) if isinstance(n, ast.Name)
            and n.id in params} if params else set()
    missing, partial = set(), {}
    for p in sorted(used):
        whole = False
        proj = set()
        seen = False
        for k in resolved:
            for n in ast.walk(k):
                if isinstance(n, ast.Name) and n.id == p:
                    seen = True
                    par = None
                    for q_ in ast.walk(k):
                        for c_ in ast.iter_child_nodes(q_):
                            if c_ is n:
                                par = q_
                    if isinstance(par, (ast.Subscript, ast.Attribute)) and \
                            par.value is n and not (
                                isinstance(par, ast.Attribute)
                                and par.attr in ("tobytes", "tolist",
                                                 "tostring")):
                        proj.add(norm(par)[len(p):])
                    else:
                        whole = True
        if not seen:
            missing.add(p)
        elif not whole:
            partial[p] = "/".join(sorted(proj))
    return missing, partial


def find(repo):
    """[(kind, module, qualname, node, detail)] for every memoisation"""
    out = []
    for m in repo.modules.values():
        # module-level containers; one that starts with entries counts
        # only when a function stores into it by subscript (a slot table
        # such as {"key": None, "value": None})
        def _container(v):
            if isinstance(v, (ast.Dict, ast.List, ast.Set)):
                return not (isinstance(v, (ast.List, ast.Set)) and v.elts)
            # set(), dict(), list(), OrderedDict(), defaultdict(list), ...
            return isinstance(v, ast.Call) and (call_name(v) or "").split(
                ".")[-1] in ("set", "dict", "list", "OrderedDict",
                             "defaultdict", "WeakKeyDictionary",
                             "WeakValueDictionary", "deque") and not any(
                isinstance(a, (ast.List, ast.Dict, ast.Set, ast.Tuple))
                and getattr(a, "elts", getattr(a, "keys", None))
                for a in v.args)
        tables = {n for n, vals in m.assigns.items()
                  if n not in REGISTRIES and n != "__all__"
                  and _container(vals[-1])}
        prefilled = {n for n in tables
                     if isinstance(m.assigns[n][-1], ast.Dict)
                     and m.assigns[n][-1].keys}
        for q, f in m.funcs.items():
            if getattr(f, "_inlined_helper", False):
                continue
            for d in f.decorator_list:
                dn = call_name(d) if isinstance(d, ast.Call) else dotted(d)
                if dn in CACHE_DECOS:
                    out.append(("decorator", m, q, f, dn))
            # module-level look-aside cache (starts empty, filled here)
            for n in walk_no_nested(f, False):
                tgt = None
                if isinstance(n, ast.Assign):
                    for t in n.targets:
                        if isinstance(t, ast.Subscript) and isinstance(
                                t.value, ast.Name) and t.value.id in tables:
                            tgt = t.value.id
                elif isinstance(n, ast.Call) and isinstance(
                        n.func, ast.Attribute) and n.func.attr in MUT and \
                        isinstance(n.func.value, ast.Name) and \
                        n.func.value.id in tables and (
                            n.func.value.id not in prefilled
                            or n.func.attr in ("update", "setdefault",
                                               "clear", "pop")):
                    tgt = n.func.value.id
                if tgt and not any(x[0] == "table" and x[2] == q
                                   and x[4] == tgt for x in out):
                    out.append(("table", m, q, f, tgt))
            # module-level state re-bound at call time
            gl = {nm for n in walk_no_nested(f, False)
                  if isinstance(n, ast.Global) for nm in n.names}
            for nm in sorted(gl):
                if nm in REGISTRIES:
                    continue
                if any(isinstance(n, ast.Name) and n.id == nm and isinstance(
                        n.ctx, (ast.Store, ast.Del))
                        for n in walk_no_nested(f, False)):
                    out.append(("global", m, q, f, nm))
            # closure state
            for inner in f.body:
                if not isinstance(inner, ast.FunctionDef):
                    continue
                outer_locals = {norm(st.targets[0]) for st in f.body
                                if isinstance(st, ast.Assign) and isinstance(
                                    st.targets[0], ast.Name) and isinstance(
                                    st.value, (ast.Dict, ast.List, ast.Set))}
                hit = None
                for n in ast.walk(inner):
                    if isinstance(n, ast.Nonlocal):
                        hit = "nonlocal " + ", ".join(n.names)
                    elif isinstance(n, ast.Call) and isinstance(
                            n.func, ast.Attribute) and n.func.attr in MUT \
                            and isinstance(n.func.value, ast.Name) and \
                            n.func.value.id in outer_locals:
                        hit = f"{n.func.value.id}.{n.func.attr}(...)"
                    elif isinstance(n, ast.Subscript) and isinstance(
                            n.ctx, ast.Store) and isinstance(
                            n.value, ast.Name) and n.value.id in outer_locals:
                        hit = f"{n.value.id}[...] = ..."
                if hit:
                    out.append(("closure", m, f"{q}.{inner.name}", inner,
                                hit))
    return out


def _result_edits(repo, fname):
    """(node, text) for in-place edits of a value obtained by calling
    `fname()` / `<mod>.fname()` anywhere in the package"""
    out = []
    edits = MUT | {"sort", "reverse", "fill", "resize"}
    for m, q, f in repo.all_funcs():
        held = set()
        for st in walk_no_nested(f, False):
            if isinstance(st, ast.Assign) and len(st.targets) == 1 and \
                    isinstance(st.targets[0], ast.Name) and isinstance(
                        st.value, ast.Call) and (call_name(st.value) or ""
                                                 ).split(".")[-1] == fname:
                held.add(st.targets[0].id)

        def is_result(e):
            return (isinstance(e, ast.Name) and e.id in held) or (
                isinstance(e, ast.Call) and (call_name(e) or "").split(
                    ".")[-1] == fname)
        for n in walk_no_nested(f, False):
            if isinstance(n, ast.Call) and isinstance(
                    n.func, ast.Attribute) and n.func.attr in edits and \
                    is_result(n.func.value):
                out.append((n, norm(n)))
            elif isinstance(n, ast.AugAssign) and (is_result(n.target) or (
                    isinstance(n.target, ast.Subscript)
                    and is_result(n.target.value))):
                out.append((n, norm(n)))
            elif isinstance(n, (ast.Assign, ast.Delete)):
                for t in (n.targets):
                    if isinstance(t, ast.Subscript) and is_result(t.value):
                        out.append((n, norm(n)))
    return out


def rule(ctx, files):
    """`files`: the property's anchored source files (repo-relative)."""
    from .callgraph import CallGraph
    repo = ctx.repo
    cg = CallGraph(repo)
    anchored = {m.name for m in repo.modules.values()
                if m.relpath in files}
    roots = [(m.name, q) for m in repo.modules.values()
             if m.name in anchored for q in m.funcs]
    reach = cg.reachable(roots) | set(roots)
    memos = find(repo)
    n = 0
    for kind, m, q, node, detail in memos:
        key = (m.name, q)
        outer = (m.name, q.rsplit(".", 1)[0]) if kind == "closure" else key
        if key not in reach and outer not in reach and m.name not in anchored:
            continue
        n += 1
        if (m.name, q) in BASELINE and kind == "decorator":
            ctx.ok(node, f"memoised {m.name}.{q}: {BASELINE[(m.name, q)]}")
            # the one object every caller gets is never edited by a caller
            for site, how in _result_edits(repo, q.rsplit(".", 1)[-1]):
                ctx.fail(site, f"result of memoised {m.name}.{q} left "
                         "unchanged by its callers",
                         f"the result of the memoised {m.name}.{q} - the "
                         f"same object for every caller - is edited in place "
                         f"(`{how[:60]}`): every later call returns the "
                         "edited object")
            continue
        if kind == "closure":
            ctx.fail(node, f"closure state in {m.name}.{q}",
                     f"{m.relpath}:{q} keeps state between calls "
                     f"({detail}): its result depends on the calls made "
                     f"before, not only on its arguments (e.g. a cache keyed "
                     f"on object identity returns the values of an object "
                     f"that was edited or replaced in the meantime)")
            continue
        fkey = key if key in cg.edges else None
        why = _impure(node, m, cg, fkey) if fkey else []
        shared = _shared_mutable(node) if kind == "decorator" else None
        what = {"decorator": f"memoised with {detail}",
                "table": f"cached in the module-level `{detail}`",
                "global": f"state in the module-level `{detail}`"}[kind]
        if why:
            ctx.fail(node, f"{m.name}.{q} {what}",
                     f"{m.relpath}:{q} is {what}, but what it computes "
                     f"depends on more than its arguments ({'; '.join(why)})"
                     f": a later call with the same arguments returns the "
                     f"result of the earlier state")
        elif shared:
            ctx.fail(node, f"{m.name}.{q} {what}",
                     f"{m.relpath}:{q} is {what} and hands the same mutable "
                     f"object ({shared}) to every caller: one caller's "
                     f"edits show up in the next caller's result")
        elif kind == "global":
            ctx.fail(node, f"{m.name}.{q} re-binds the module-level "
                     f"`{detail}`",
                     f"{m.relpath}:{q} keeps state between calls in the "
                     f"module-level `{detail}` (re-bound through `global`): "
                     "what a call returns or computes depends on the calls "
                     "made before, and results handed out earlier share "
                     "storage with later ones")
        elif kind == "table" and _identity_keyed(node, detail):
            ctx.fail(node, f"{m.name}.{q} {what}",
                     f"{m.relpath}:{q} remembers a result in the "
                     f"module-level `{detail}` and reuses it when the "
                     f"argument is the same object ({_identity_keyed(node, detail)}): "
                     "an array that was refilled in place (or a new object "
                     "at a recycled address) gets the result computed for "
                     "the earlier content")
        elif kind == "table":
            cov = _key_coverage(node, detail)
            if cov is None:
                raise Undecided(f"{m.relpath}:{q} fills the module-level "
                                f"`{detail}`; cannot tell whether the key "
                                f"covers every input")
            missing, partial = cov
            if missing or partial:
                why_ = []
                if partial:
                    why_.append("only " + ", ".join(
                        f"{v} of `{k}`" for k, v in sorted(partial.items())))
                if missing:
                    why_.append("nothing of " + ", ".join(
                        f"`{k}`" for k in sorted(missing)))
                ctx.fail(node, f"{m.name}.{q} {what}",
                         f"{m.relpath}:{q} reuses a result remembered in "
                         f"the module-level `{detail}` under a key that "
                         f"holds {' and '.join(why_)}: two different "
                         "arguments with the same key get the result "
                         "computed for the first one")
            else:
                ctx.ok(node, f"{m.name}.{q} {what}: the key holds every "
                       "argument by value")
        else:
            ctx.ok(node, f"{m.name}.{q} {what}: depends on its arguments "
                   "only")
    ctx.note(f"{n} memoisation(s) examined in and below the anchored code")
