"""Resolved intra-package call graph.

Static callees: plain names (same module or `from x import f`), module
attributes (`poc.compute_poc`, `model.compute_anc_parms`), `self.method` /
`cls.method` / `ClassName.method` through the class table (with the
IndentationRater -> IndentationFeatures base), properties read as
attributes on `self`.  Dynamic-dispatch idioms of this repository are
modelled explicitly and anchored (the anchoring construct must exist):

 (i)   preproc.get_func(pid) / PREPROCESSORS  -> all @preprocessing_step
 (ii)  poc.POC_METHODS loop in compute_poc    -> all @poc estimators
 (iii) getattr(inst, name)() in compute_features -> all feat_* methods
 (iv)  md.model / md.residual -> residuals wrappers -> module.model_func
 (v)   gmeth(fd) over ANCILLARY_COMMON        -> compute_anc_* functions
"""
from __future__ import annotations

import ast

from .astutil import call_name, calls_in, dotted, walk_no_nested
from .loader import AnchorError, Repo

_BASES = {"IndentationRater": ("rate.features", "IndentationFeatures")}


class CallGraph:
    def __init__(self, repo: Repo):
        self.repo = repo
        self.edges: dict[tuple[str, str], set[tuple[str, str]]] = {}
        self.unresolved: dict[tuple[str, str], set[str]] = {}
        # dynamic-dispatch idioms that were not found in their usual shape;
        # the edges to every candidate are kept (over-approximation)
        self.dispatch_lost: list[str] = []
        self._modfuncs = {}
        for m in repo.modules.values():
            for q in m.funcs:
                self._modfuncs[(m.name, q)] = m.funcs[q]
        for m in repo.modules.values():
            for q, f in m.funcs.items():
                self.edges[(m.name, q)] = self._callees(m, q, f)

    # ------------------------------------------------------------------
    def _resolve_module(self, m, alias):
        """module name (repo-relative) an alias refers to, or None"""
        tgt = m.imports.get(alias)
        if tgt is None:
            return None
        pkg = m.name.split(".")[:-1] if m.name != "__init__" else []
        if m.relpath.endswith("__init__.py"):
            pkg = m.name.split(".") if m.name != "__init__" else []
        if tgt.startswith("."):
            level = len(tgt) - len(tgt.lstrip("."))
            rest = tgt.lstrip(".")
            base = pkg[:len(pkg) - (level - 1)] if level > 1 else pkg
            parts = base + ([p for p in rest.split(".") if p] if rest else [])
            name = ".".join(parts)
            return name
        if tgt.startswith("nanite."):
            return tgt[len("nanite."):]
        return None

    def _lookup(self, modname, fname):
        if modname in self.repo.modules and \
                fname in self.repo.modules[modname].funcs:
            return (modname, fname)
        # package __init__ re-exports
        if modname in self.repo.modules:
            mm = self.repo.modules[modname]
            tgt = mm.imports.get(fname)
            if tgt:
                r = self._resolve_from(mm, fname)
                if r:
                    return r
        return None

    def _resolve_from(self, m, name):
        """`from .x import name` -> (module, name) if a function/class."""
        tgt = self._resolve_module(m, name)
        if tgt is None:
            return None
        if "." in tgt or tgt:
            mod, _, fn = tgt.rpartition(".")
            if mod in self.repo.modules:
                mm = self.repo.modules[mod]
                if fn in mm.funcs:
                    return (mod, fn)
                if fn in mm.classes:
                    return (mod, fn + ".__init__") \
                        if fn + ".__init__" in mm.funcs else None
                if fn in mm.imports and (mm is not m or fn != name):
                    return self._resolve_from(mm, fn)
            if mod == "" and fn in self.repo.modules:
                return None
        return None

    def _class_method(self, modname, cls, meth):
        mm = self.repo.modules.get(modname)
        if mm is None:
            return None
        if f"{cls}.{meth}" in mm.funcs:
            return (modname, f"{cls}.{meth}")
        if cls in _BASES:
            bm, bc = _BASES[cls]
            return self._class_method(bm, bc, meth)
        return None

    def _callees(self, m, q, f):
        out = set()
        cls = q.split(".")[0] if "." in q and q.split(".")[0] in m.classes \
            else None
        unresolved = set()
        vtypes = self._local_types(m, f)
        body_nodes = []
        for st in f.body:
            body_nodes.extend(walk_no_nested(st))
        for n in body_nodes:
            if isinstance(n, (ast.FunctionDef, ast.Lambda)):
                continue
            if isinstance(n, ast.Call):
                cn = call_name(n)
                r = self._resolve_call(m, cls, q, cn)
                if not r and cn and "." in cn:
                    head, _, meth = cn.rpartition(".")
                    if head in vtypes:
                        r = self._class_method(vtypes[head][0],
                                               vtypes[head][1], meth)
                if r:
                    out.add(r)
                elif cn:
                    unresolved.add(cn)
            elif isinstance(n, ast.Attribute) and cls and \
                    isinstance(n.value, ast.Name) and n.value.id == "self":
                r = self._class_method(m.name, cls, n.attr)
                if r:
                    out.add(r)  # property access or bound method
        # nested functions defined here are considered callable from here
        for qq in m.funcs:
            if qq.startswith(q + ".") and "." not in qq[len(q) + 1:]:
                out.add((m.name, qq))
        # lambdas in the body: their calls count as the function's calls
        for n in ast.walk(f):
            if isinstance(n, ast.Lambda):
                for c in calls_in(n.body, nested=True):
                    r = self._resolve_call(m, cls, q, call_name(c))
                    if r:
                        out.add(r)
        self.unresolved[(m.name, q)] = unresolved
        out |= self._dynamic(m, q, f)
        return out

    _HANDLES = {"idnt", "apret", "fd", "indent", "dataset", "afmdata",
                "self.dataset", "ds"}
    _FACTORIES = {"get_rater": ("rate.rater", "IndentationRater"),
                  "rater.get_rater": ("rate.rater", "IndentationRater")}

    def _local_types(self, m, f):
        """local name -> (module, class) for `x = ClassName(...)`, known
        factories, and the conventional handle names for an Indentation."""
        out = {}
        for h in self._HANDLES:
            out[h] = ("indent", "Indentation")
        for n in walk_no_nested(f, include_self=False):
            if isinstance(n, ast.Assign) and len(n.targets) == 1 and \
                    isinstance(n.value, ast.Call):
                t = dotted(n.targets[0])
                cn = call_name(n.value)
                if not t or not cn:
                    continue
                if cn in self._FACTORIES:
                    out[t] = self._FACTORIES[cn]
                    continue
                r = self._resolve_call(m, None, getattr(
                    f, "_qualname", ""), cn)
                if r and r[1].endswith(".__init__"):
                    out[t] = (r[0], r[1].rsplit(".", 1)[0])
        return out

    def _resolve_call(self, m, cls, q, cn):
        if not cn:
            return None
        parts = cn.split(".")
        if len(parts) == 1:
            # nested function of the current one?
            scope = q
            while scope:
                if f"{scope}.{cn}" in m.funcs:
                    return (m.name, f"{scope}.{cn}")
                scope = scope.rpartition(".")[0]
            if cn in m.funcs:
                return (m.name, cn)
            if cn in m.classes:
                return (m.name, cn + ".__init__") \
                    if cn + ".__init__" in m.funcs else None
            return self._resolve_from(m, cn)
        head, rest = parts[0], parts[1:]
        if head in ("self", "cls") and cls and len(rest) == 1:
            return self._class_method(m.name, cls, rest[0])
        if head in m.classes and len(rest) == 1:
            return self._class_method(m.name, head, rest[0])
        # imported class: ClassName.method
        r = self._resolve_from(m, head)
        if r and r[1].endswith(".__init__") and len(rest) == 1:
            return self._class_method(r[0], r[1].rsplit(".", 1)[0], rest[0])
        # module alias
        tgt = self._resolve_module(m, head)
        if tgt is not None:
            modname = tgt
            # `from . import poc` gives tgt == "poc"; `from .. import model`
            for i in range(len(rest), 0, -1):
                cand_mod = ".".join([modname] + rest[:i - 1]) if i > 1 \
                    else modname
                fn = ".".join(rest[i - 1:])
                r = self._lookup(cand_mod, fn)
                if r:
                    return r
                if cand_mod in self.repo.modules and \
                        rest[i - 1] in self.repo.modules[cand_mod].classes \
                        and len(rest[i - 1:]) == 2:
                    return self._class_method(cand_mod, rest[i - 1],
                                              rest[i])
        return None

    # -- dynamic dispatch models -----------------------------------------
    def _dynamic(self, m, q, f):
        out = set()
        names = {call_name(c) for c in calls_in(f)}
        src_names = {n.id for n in ast.walk(f) if isinstance(n, ast.Name)}
        if m.name == "preproc" and q == "get_func":
            if "PREPROCESSORS" not in src_names:
                # the registry is reached some other way: keep the
                # conservative edges to every registered step
                self.dispatch_lost.append("preproc.get_func no longer "
                                          "scans PREPROCESSORS")
            for qq, ff in m.funcs.items():
                if any(isinstance(d, ast.Call) and dotted(d.func) ==
                       "preprocessing_step" for d in ff.decorator_list):
                    out.add((m.name, qq))
        if m.name == "preproc" and q == "apply":
            out.add(("preproc", "get_func"))
            if "get_func" in names:
                out |= self._dynamic(m, "get_func", m.funcs["get_func"])
        if m.name == "poc" and q == "compute_poc":
            if "POC_METHODS" not in src_names:
                self.dispatch_lost.append("poc.compute_poc no longer scans "
                                          "POC_METHODS")
            for qq, ff in m.funcs.items():
                if any(isinstance(d, ast.Call) and dotted(d.func) == "poc"
                       for d in ff.decorator_list):
                    out.add((m.name, qq))
        if m.name == "rate.features" and q == \
                "IndentationFeatures.compute_features":
            if "getattr" not in names:
                self.dispatch_lost.append("compute_features no longer "
                                          "dispatches through getattr")
            for qq in m.funcs:
                if qq.startswith("IndentationFeatures.feat_"):
                    out.add((m.name, qq))
        if m.name == "model.residuals" and q in (
                "model_direction_agnostic",):
            for mm in self.repo.modules.values():
                if mm.name.startswith("model.model_") and \
                        "model_func" in mm.assigns:
                    v = mm.assigns["model_func"][-1]
                    if isinstance(v, ast.Name) and v.id in mm.funcs:
                        out.add((mm.name, v.id))
        if m.name == "fit" and q == "IndentationFitter._fit":
            out.add(("model.residuals", "residual"))
            out.add(("model.residuals", "model_direction_agnostic"))
        if m.name == "model.core" and q == \
                "NaniteFitModel.compute_ancillaries":
            for qq in m.funcs:
                if qq.startswith("compute_anc_"):
                    out.add((m.name, qq))
        return out

    # ------------------------------------------------------------------
    def reachable(self, roots, stop=()):
        seen = set()
        stack = list(roots)
        while stack:
            k = stack.pop()
            if k in seen or k in stop:
                continue
            if k not in self.edges:
                continue
            seen.add(k)
            stack.extend(self.edges[k])
        return seen

    def func(self, key):
        return self._modfuncs[key]
