"""Source normalisation applied to every module before any rule looks at it.

Two passes, both purely syntactic and behaviour preserving, so that rules
judge *what the code does* and stay silent on routine refactorings:

1. inlining of private helpers: a call of a module-level function or method
   whose name starts with a single underscore (and that is not one of the
   anchors the rules name) is replaced by the helper's body when the helper
   is single-exit (no or one trailing `return`, or `if c: return A; return B`)
   - as spliced statements, or as an expression when the helper is a single
   `return <expr>`.  The helper definitions stay in the module, marked
   `_inlined_helper`, and are skipped by `Repo.all_funcs()`.
2. idiom canonicalisation: `"..{}..".format(a)` -> f-string,
   `super(C, self)` -> `super()`, `not a in b` -> `a not in b`,
   `not a == b` -> `a != b`, iteration/sorted/list over `d.keys()` -> `d`,
   `np.flip(x)` -> `x[::-1]`, `if c: pass else: B` -> `if not c: B`,
   flag assignment by if/else or conditional expression -> `x = <test>`,
   `bool(<comparison>)` -> the comparison, single-return local functions
   used as values -> lambdas, `f(**d)` with a local dict literal `d` ->
   explicit keywords.
"""
from __future__ import annotations

import ast
import string

from .astutil import clone, norm, target_names

ANCHOR_PRIVATE = {
    "_fit", "_hash", "_module_check", "_module_autocomplete", "_pre_rate",
    "_rate", "_get_samples", "_deprecate_call",
}
MAX_HELPER_STMTS = 60


def _is_private(name):
    return name.startswith("_") and not name.startswith("__") and \
        name not in ANCHOR_PRIVATE


def _own_nodes(node):
    """walk without entering nested function/class definitions"""
    stack = list(ast.iter_child_nodes(node))
    while stack:
        n = stack.pop()
        yield n
        if isinstance(n, (ast.FunctionDef, ast.AsyncFunctionDef, ast.ClassDef,
                          ast.Lambda)):
            continue
        stack.extend(ast.iter_child_nodes(n))


class Helper:
    def __init__(self, fn, cls):
        self.fn = fn
        self.cls = cls
        self.kind = None      # "proc" | "single" | "expr" | "multi"
        self.raw_body = None
        self.ret = None
        self.body = None
        self.static = any(norm(d) == "staticmethod"
                          for d in fn.decorator_list)
        self.classm = any(norm(d) == "classmethod"
                          for d in fn.decorator_list)
        self._classify()

    def _classify(self):
        fn = self.fn
        a = fn.args
        if a.vararg:
            return
        if any(norm(d) not in ("staticmethod", "classmethod")
               for d in fn.decorator_list):
            return
        body = list(fn.body)
        if body and isinstance(body[0], ast.Expr) and isinstance(
                body[0].value, ast.Constant) and isinstance(
                    body[0].value.value, str):
            body = body[1:]
        if not body or len(body) > MAX_HELPER_STMTS:
            return
        self.raw_body = body
        # closure factory: def inner(..): <single expression>; return inner
        if len(body) == 2 and isinstance(body[0], ast.FunctionDef) and \
                not body[0].decorator_list and isinstance(
                    body[1], ast.Return) and isinstance(
                        body[1].value, ast.Name) and \
                body[1].value.id == body[0].name:
            e = _single_expr(body[0])
            if e is not None and not body[0].args.vararg and \
                    not body[0].args.kwarg:
                self.body = []
                self.ret = ast.Lambda(args=clone(body[0].args), body=e)
                self.kind = "expr"
            return
        for n in _own_nodes(fn):
            if isinstance(n, (ast.Yield, ast.YieldFrom, ast.Await, ast.Global,
                              ast.Nonlocal, ast.FunctionDef, ast.ClassDef,
                              ast.AsyncFunctionDef)):
                return
            if isinstance(n, ast.Call) and isinstance(n.func, ast.Name) and \
                    n.func.id == fn.name:
                return
            if isinstance(n, ast.Call) and isinstance(
                    n.func, ast.Attribute) and n.func.attr == fn.name and \
                    isinstance(n.func.value, ast.Name) and \
                    n.func.value.id in ("self", "cls"):
                return
        rets = [n for n in _own_nodes(fn) if isinstance(n, ast.Return)]
        # `...; try: A; return E finally: F` (the one return ends the try
        # body, the try ends the function): E is kept, F runs, then return
        if len(rets) == 1 and isinstance(body[-1], ast.Try) and \
                body[-1].finalbody and not body[-1].orelse and \
                body[-1].body and body[-1].body[-1] is rets[0] and \
                rets[0].value is not None and not any(
                    isinstance(n, ast.Return)
                    for h_ in body[-1].handlers for n in ast.walk(h_)):
            t_ = clone(body[-1])
            t_.body[-1] = ast.copy_location(ast.Assign(
                targets=[ast.Name(id="__ret", ctx=ast.Store())],
                value=t_.body[-1].value), t_.body[-1])
            ast.fix_missing_locations(t_)
            self.body = [clone(s_) for s_ in body[:-1]] + [t_]
            self.ret = ast.Name(id="__ret", ctx=ast.Load())
            self.kind = "single"
            return
        if not rets:
            self.kind, self.body = "proc", body
            return
        if len(rets) == 1 and body[-1] is rets[0]:
            self.body = body[:-1]
            self.ret = rets[0].value or ast.Constant(value=None)
            self.kind = "expr" if not self.body else "single"
            return
        # if c: return A ; return B
        if len(rets) == 2 and len(body) >= 2 and isinstance(
                body[-2], ast.If) and not body[-2].orelse and \
                len(body[-2].body) == 1 and body[-2].body[0] is rets[0] and \
                body[-1] is rets[1]:
            self.body = body[:-2]
            self.ret = ast.IfExp(
                test=body[-2].test,
                body=rets[0].value or ast.Constant(value=None),
                orelse=rets[1].value or ast.Constant(value=None))
            self.kind = "expr" if not self.body else "single"
            return
        # if c: return A else: return B
        if len(rets) == 2 and isinstance(body[-1], ast.If) and \
                len(body[-1].body) == 1 and len(body[-1].orelse) == 1 and \
                body[-1].body[0] is rets[0] and body[-1].orelse[0] is rets[1]:
            self.body = body[:-1]
            self.ret = ast.IfExp(test=body[-1].test, body=rets[0].value,
                                 orelse=rets[1].value)
            self.kind = "expr" if not self.body else "single"
            return
        # general structured case: returns only under if/else (no return
        # inside a loop, try or with): rewritten to a single exit
        try:
            new, always = _eliminate_returns(body, "__ret", [0])
        except _NotInlinable:
            # returns inside loops/try blocks: the body can still take the
            # place of a `return helper(..)` statement as it is
            self.kind = "tail"
            return
        if not always:
            new = [ast.Assign(targets=[ast.Name(id="__ret", ctx=ast.Store())],
                              value=ast.Constant(value=None))] + new
        self.body = new
        self.ret = ast.Name(id="__ret", ctx=ast.Load())
        self.kind = "multi"

    @property
    def ok(self):
        return self.kind is not None


class _NotInlinable(Exception):
    pass


def _always_returns(stmts):
    """every path through the statement list ends in return/raise"""
    for st in stmts:
        if isinstance(st, (ast.Return, ast.Raise)):
            return True
        if isinstance(st, ast.If) and st.orelse and _always_returns(
                st.body) and _always_returns(st.orelse):
            return True
        if isinstance(st, ast.With) and _always_returns(st.body):
            return True
        if isinstance(st, ast.Try):
            if st.finalbody and _always_returns(st.finalbody):
                return True
            main = _always_returns(st.orelse) if st.orelse else \
                _always_returns(st.body)
            if main and all(_always_returns(h.body) for h in st.handlers):
                return True
    return False


def _has_return(st):
    for n in [st] + list(_own_nodes(st)):
        if isinstance(n, ast.Return):
            return True
    return False


def _eliminate_returns(stmts, var, budget, cont=None):
    """statement list with every `return X` turned into `var = X` and the
    statements that follow a (conditional) return moved into the branch
    that does not return.  -> (new statements, always returns)"""
    out = []
    for i, st in enumerate(stmts):
        budget[0] += 1
        if budget[0] > 400:
            raise _NotInlinable()
        if isinstance(st, ast.Return):
            if cont is not None:
                for s_ in cont(clone(st.value) if st.value is not None
                               else None):
                    out.append(ast.copy_location(s_, st))
                return out, True
            out.append(ast.copy_location(ast.Assign(
                targets=[ast.Name(id=var, ctx=ast.Store())],
                value=clone(st.value) if st.value is not None
                else ast.Constant(value=None)), st))
            return out, True
        if isinstance(st, ast.Raise):
            out.append(clone(st))
            return out, True       # nothing after a raise is reached
        if not _has_return(st):
            out.append(clone(st))
            continue
        if not isinstance(st, ast.If):
            raise _NotInlinable()
        rest = stmts[i + 1:]
        b, br = _eliminate_returns(st.body, var, budget, cont)
        o, orr = _eliminate_returns(st.orelse, var, budget, cont)
        if br and orr:
            out.append(ast.copy_location(ast.If(test=clone(st.test), body=b,
                                                orelse=o), st))
            return out, True
        if br or orr:
            r, rr = _eliminate_returns(rest, var, budget, cont)
            if br:
                new = ast.If(test=clone(st.test), body=b, orelse=o + r)
            else:
                new = ast.If(test=clone(st.test), body=b + r, orelse=o)
            out.append(ast.copy_location(new, st))
            return out, rr
        # a return somewhere below, but both branches can fall through:
        # the remaining statements are duplicated into both branches
        b2, b2r = _eliminate_returns(list(st.body) + list(rest), var, budget,
                                     cont)
        o2, o2r = _eliminate_returns(list(st.orelse) + list(rest), var,
                                     budget, cont)
        out.append(ast.copy_location(ast.If(test=clone(st.test), body=b2,
                                            orelse=o2), st))
        return out, b2r and o2r
    return out, False


def _single_expr(fn):
    """the body of a small function as one expression, or None:
    [x = e1; y = e2(x); ...] return e  /  if c: return a else: return b"""
    body = [st for st in fn.body if not (
        isinstance(st, ast.Expr) and isinstance(st.value, ast.Constant))]
    if not body:
        return None
    env = {}

    def sub(e):
        return _Subst(env, {}).visit(clone(e))
    for st in body[:-1]:
        if isinstance(st, ast.Assign) and len(st.targets) == 1 and \
                isinstance(st.targets[0], ast.Name) and \
                st.targets[0].id not in env:
            env[st.targets[0].id] = sub(st.value)
        else:
            # `if c: return a` followed by `return b`
            if st is body[-2] and isinstance(st, ast.If) and \
                    not st.orelse and len(st.body) == 1 and isinstance(
                        st.body[0], ast.Return) and isinstance(
                            body[-1], ast.Return):
                return ast.IfExp(test=sub(st.test),
                                 body=sub(st.body[0].value),
                                 orelse=sub(body[-1].value))
            return None
    last = body[-1]
    if isinstance(last, ast.Return) and last.value is not None:
        return sub(last.value)
    if isinstance(last, ast.If) and len(last.body) == 1 and \
            len(last.orelse) == 1 and isinstance(
                last.body[0], ast.Return) and isinstance(
                    last.orelse[0], ast.Return):
        return ast.IfExp(test=sub(last.test), body=sub(last.body[0].value),
                         orelse=sub(last.orelse[0].value or ast.Constant(
                             value=None)))
    return None


def _simple(expr):
    if isinstance(expr, (ast.Name, ast.Constant)):
        return True
    if isinstance(expr, ast.UnaryOp) and isinstance(
            expr.op, (ast.USub, ast.UAdd)) and isinstance(
            expr.operand, ast.Constant):
        return True
    if isinstance(expr, ast.Call) and isinstance(expr.func, ast.Name) and \
            expr.func.id == "len" and len(expr.args) == 1 and \
            not expr.keywords:
        return _simple(expr.args[0])
    if isinstance(expr, ast.Attribute):
        return _simple(expr.value)
    if isinstance(expr, ast.Subscript):
        return _simple(expr.value) and (
            isinstance(expr.slice, (ast.Constant, ast.Name))
            or isinstance(expr.slice, ast.Slice))
    return False


class _Subst(ast.NodeTransformer):
    def __init__(self, mapping, renames):
        self.mapping = mapping
        self.renames = renames

    def visit_Name(self, node):
        if node.id in self.mapping and isinstance(node.ctx, ast.Load):
            return clone(self.mapping[node.id])
        if node.id in self.renames:
            return ast.copy_location(
                ast.Name(id=self.renames[node.id], ctx=node.ctx), node)
        return node

    def visit_Lambda(self, node):
        shadow = {a.arg for a in node.args.args + node.args.kwonlyargs
                  + node.args.posonlyargs}
        inner = _Subst({k: v for k, v in self.mapping.items()
                        if k not in shadow},
                       {k: v for k, v in self.renames.items()
                        if k not in shadow})
        node.args.defaults = [self.visit(d) for d in node.args.defaults]
        node.body = inner.visit(node.body)
        return node


def _instantiate(h: Helper, call: ast.Call, caller_names, counter):
    if h.kind == "tail":
        return None
    b = _bind(h, call, caller_names, counter)
    if b is None:
        return None
    prelude, sub = b
    body = [sub.visit(clone(s)) for s in (h.body or [])]
    ret = sub.visit(clone(h.ret)) if h.ret is not None else None
    for s in prelude + body:
        ast.fix_missing_locations(s)
    return prelude + body, ret


def _instantiate_cont(h: Helper, call, caller_names, counter, on_true,
                      on_false, cont=None):
    """`if helper(..): on_true else: on_false` with the helper's body in
    place and the continuation attached to each of its returns (or an
    arbitrary continuation `cont(value) -> statements`)"""
    if h.raw_body is None:
        return None
    b = _bind(h, call, caller_names, counter)
    if b is None:
        return None
    prelude, sub = b
    body = [sub.visit(clone(s)) for s in h.raw_body]
    given = cont

    def cont(value):
        if given is not None:
            return given(value)
        if value is None or (isinstance(value, ast.Constant)
                             and not value.value):
            return [clone(s) for s in on_false] or [ast.Pass()]
        if isinstance(value, ast.Constant):
            return [clone(s) for s in on_true] or [ast.Pass()]
        return [ast.If(test=value, body=[clone(s) for s in on_true]
                       or [ast.Pass()],
                       orelse=[clone(s) for s in on_false])]
    try:
        new, always = _eliminate_returns(body, None, [0], cont)
    except _NotInlinable:
        return None
    if not always:
        new = new + cont(None)
    out = prelude + new
    for s in out:
        ast.fix_missing_locations(s)
    return out


def _bind(h: Helper, call: ast.Call, caller_names, counter):
    fn = h.fn
    params = [a.arg for a in fn.args.posonlyargs + fn.args.args]
    kwonly = [a.arg for a in fn.args.kwonlyargs]
    defaults = dict(zip(params[len(params) - len(fn.args.defaults):],
                        fn.args.defaults))
    for a, d in zip(fn.args.kwonlyargs, fn.args.kw_defaults):
        if d is not None:
            defaults[a.arg] = d
    bound = {}
    if h.cls and not h.static:
        recv = call.func.value if isinstance(call.func, ast.Attribute) \
            else None
        if recv is None:
            return None
        if isinstance(recv, ast.Name) and recv.id == h.cls and not h.classm:
            # Class.method(obj, ...) : first positional is self
            pass
        else:
            bound[params[0]] = recv
            params = params[1:]
    if any(isinstance(a, ast.Starred) for a in call.args) or any(
            k.arg is None for k in call.keywords):
        return None
    if len(call.args) > len(params):
        return None
    for p, a in zip(params, call.args):
        bound[p] = a
    extra = []
    for k in call.keywords:
        if k.arg in bound:
            return None
        if k.arg not in params + kwonly:
            # collected by the helper's `**kwargs` (in call order)
            if fn.args.kwarg is None:
                return None
            extra.append(k)
            continue
        bound[k.arg] = k.value
    if fn.args.kwarg is not None:
        if fn.args.kwarg.arg in bound:
            return None
        bound[fn.args.kwarg.arg] = ast.Dict(
            keys=[ast.Constant(value=k.arg) for k in extra],
            values=[k.value for k in extra])
    for p in params + kwonly:
        if p not in bound:
            if p in defaults:
                bound[p] = defaults[p]
            else:
                return None
    stored = set()
    for n in _own_nodes(fn):
        if isinstance(n, ast.Name) and isinstance(n.ctx, (ast.Store, ast.Del)):
            stored.add(n.id)
        elif isinstance(n, ast.arg):
            pass
    mapping, prelude, renames = {}, [], {}
    locals_ = stored - set(bound)
    for nm in sorted(locals_):
        if nm in caller_names:
            counter[0] += 1
            renames[nm] = f"{nm}__h{counter[0]}"
    for p, a in bound.items():
        if p not in stored and _simple(a):
            mapping[p] = a
        else:
            new = p
            if p in caller_names and not (isinstance(a, ast.Name)
                                          and a.id == p):
                counter[0] += 1
                new = f"{p}__h{counter[0]}"
            renames[p] = new
            if not (isinstance(a, ast.Name) and a.id == new):
                prelude.append(ast.copy_location(ast.Assign(
                    targets=[ast.Name(id=new, ctx=ast.Store())],
                    value=clone(a)), call))
    # names this instantiation introduces are taken from now on
    if isinstance(caller_names, set):
        caller_names.update(renames.values())
        caller_names.update(locals_ - set(renames))
    return prelude, _Subst(mapping, renames)


class Inliner:
    def __init__(self, tree):
        self.tree = tree
        self.helpers = {}
        for st in tree.body:
            if isinstance(st, ast.FunctionDef) and (
                    _is_private(st.name) or getattr(st, "_spliced", False)):
                h = Helper(st, None)
                if h.ok:
                    self.helpers[(None, st.name)] = h
            elif isinstance(st, ast.ClassDef):
                for m in st.body:
                    if isinstance(m, ast.FunctionDef) and _is_private(m.name)\
                            and not any(norm(d) in ("property",)
                                        or norm(d).endswith(".setter")
                                        for d in m.decorator_list):
                        h = Helper(m, st.name)
                        if h.ok:
                            self.helpers[(st.name, m.name)] = h
        # thin delegates: a function/method whose whole body is one call of
        # a public module-level function that nobody else in this module
        # calls is the place where that function's body is judged
        pub = {st.name: st for st in tree.body
               if isinstance(st, ast.FunctionDef)
               and not _is_private(st.name) and not st.decorator_list}
        if pub:
            callers = {}
            methods = {id(m) for c_ in tree.body
                       if isinstance(c_, ast.ClassDef) for m in c_.body}
            for holder in ast.walk(tree):
                if not isinstance(holder, ast.FunctionDef):
                    continue
                body = [s for s in holder.body if not (
                    isinstance(s, ast.Expr) and isinstance(
                        s.value, ast.Constant))]
                thin = id(holder) in methods and len(body) == 1 and \
                    isinstance(body[0], (ast.Expr, ast.Return)) and \
                    isinstance(body[0].value, ast.Call) and isinstance(
                        body[0].value.func, ast.Name)
                for c in _own_nodes(holder):
                    if isinstance(c, ast.Call) and isinstance(
                            c.func, ast.Name) and c.func.id in pub:
                        callers.setdefault(c.func.id, []).append(
                            thin and c is body[0].value)
            refs = {}
            for n in ast.walk(tree):
                if isinstance(n, ast.Name) and n.id in pub:
                    refs[n.id] = refs.get(n.id, 0) + 1
            for name, how in callers.items():
                if how == [True] and refs.get(name, 0) == 1:
                    h = Helper(pub[name], None)
                    if h.ok:
                        self.helpers[(None, name)] = h
        self.counter = [0]
        self.used = set()

    def _match(self, call, cls):
        f = call.func
        if isinstance(f, ast.Name):
            return self.helpers.get((None, f.id))
        if isinstance(f, ast.Attribute) and isinstance(f.value, ast.Name):
            if f.value.id in ("self", "cls") and cls:
                return self.helpers.get((cls, f.attr))
            if (f.value.id, f.attr) in self.helpers:
                return self.helpers[(f.value.id, f.attr)]
        return None

    def run(self):
        if not self.helpers:
            return self.tree
        # helpers that call helpers: expand the callees' bodies first and
        # take the helper's statements again afterwards (the statement list
        # captured at classification time is stale once the function body
        # was rewritten)
        for _ in range(3):
            stale = False
            for key, h in list(self.helpers.items()):
                before = ast.dump(h.fn)
                self._func(h.fn, key[0])
                if ast.dump(h.fn) != before:
                    stale = True
                    h2 = Helper(h.fn, key[0])
                    if h2.ok:
                        self.helpers[key] = h2
                    else:
                        del self.helpers[key]
            if not stale:
                break
        for st in self.tree.body:
            if isinstance(st, ast.FunctionDef):
                self._func(st, None)
            elif isinstance(st, ast.ClassDef):
                for m in st.body:
                    if isinstance(m, ast.FunctionDef):
                        self._func(m, st.name)
        for key in self.used:
            self.helpers[key].fn._inlined_helper = True
        return self.tree

    def _func(self, fn, cls):
        names = {n.id for n in ast.walk(fn) if isinstance(n, ast.Name)} | {
            a.arg for a in ast.walk(fn) if isinstance(a, ast.arg)}
        for _ in range(4):
            changed = [False]
            fn.body = self._block(fn.body, cls, names, fn, changed)
            if not changed[0]:
                break
        for n in ast.walk(fn):
            if isinstance(n, (ast.FunctionDef,)) and n is not fn:
                self._func(n, cls)

    def _own_exprs(self, st):
        if isinstance(st, (ast.If, ast.While)):
            return [("test", st.test)]
        if isinstance(st, (ast.For, ast.AsyncFor)):
            return [("iter", st.iter)]
        if isinstance(st, (ast.With, ast.AsyncWith)):
            return [(None, i.context_expr) for i in st.items]
        if isinstance(st, (ast.FunctionDef, ast.ClassDef, ast.Try,
                           ast.AsyncFunctionDef)):
            return []
        return [(None, st)]

    def _block(self, stmts, cls, names, fn, changed):
        out = []
        for st in stmts:
            out.extend(self._stmt(st, cls, names, fn, changed))
        return out

    def _stmt(self, st, cls, names, fn, changed):
        pre = []
        # `if [not] helper(..): A else: B` -> helper body with A/B attached
        # to its returns (keeps the path structure for the flow analyses)
        if isinstance(st, ast.If):
            t, neg = st.test, False
            if isinstance(t, ast.UnaryOp) and isinstance(t.op, ast.Not):
                t, neg = t.operand, True
            if isinstance(t, ast.Call):
                h = self._match(t, cls)
                if h is not None and h.fn is not fn and h.kind == "multi":
                    a_, b_ = (st.orelse, st.body) if neg else (st.body,
                                                                st.orelse)
                    inst = _instantiate_cont(h, t, names, self.counter,
                                             a_, b_)
                    if inst is not None:
                        self.used.add((h.cls, h.fn.name))
                        changed[0] = True
                        return inst
        # whole-statement forms
        val = None
        if isinstance(st, ast.Expr):
            val = st.value
        elif isinstance(st, (ast.Assign, ast.AnnAssign, ast.AugAssign,
                             ast.Return)):
            val = st.value
        if isinstance(val, ast.Call) and isinstance(st, ast.Return):
            h = self._match(val, cls)
            if h is not None and h.fn is not fn and h.kind == "tail":
                b = _bind(h, val, names, self.counter)
                if b is not None:
                    prelude, sub = b
                    body = [sub.visit(clone(s)) for s in h.raw_body]
                    if not _always_returns(body):
                        body.append(ast.Return(value=ast.Constant(
                            value=None)))
                    out = prelude + body
                    for s_ in out:
                        ast.copy_location(s_, st)
                        ast.fix_missing_locations(s_)
                    self.used.add((h.cls, h.fn.name))
                    changed[0] = True
                    return out
        if isinstance(val, ast.Call):
            h = self._match(val, cls)
            if h is not None and h.fn is not fn and h.kind == "multi" and (
                    isinstance(st, (ast.Return, ast.Expr)) or (
                        isinstance(st, ast.Assign) and len(st.targets) == 1
                        and isinstance(st.targets[0], ast.Name))):
                # the statement is attached to every return of the helper
                def k(value, st=st):
                    v = value if value is not None else ast.Constant(
                        value=None)
                    if isinstance(st, ast.Return):
                        return [ast.Return(value=v)]
                    if isinstance(st, ast.Expr):
                        return [ast.Pass()]
                    return [ast.Assign(targets=[clone(st.targets[0])],
                                       value=v)]
                inst = _instantiate_cont(h, val, names, self.counter, [], [],
                                         cont=k)
                if inst is not None:
                    self.used.add((h.cls, h.fn.name))
                    changed[0] = True
                    for s_ in inst:
                        ast.copy_location(s_, st)
                    return inst
            if h is not None and h.fn is not fn:
                inst = _instantiate(h, val, names, self.counter)
                if inst is not None:
                    body, ret = inst
                    key = (h.cls, h.fn.name)
                    if isinstance(st, ast.Expr):
                        self.used.add(key)
                        changed[0] = True
                        return body or [ast.copy_location(ast.Pass(), st)]
                    if ret is not None:
                        st.value = ret
                        self.used.add(key)
                        changed[0] = True
                        ast.fix_missing_locations(st)
                        return body + [st]
        # nested calls inside the statement's own expressions
        for fld, root in self._own_exprs(st):
            # calls that are evaluated per element / conditionally / later:
            # only a pure expression may take their place
            deferred = set()
            for x in ast.walk(root):
                subs = []
                if isinstance(x, (ast.ListComp, ast.SetComp, ast.DictComp,
                                  ast.GeneratorExp)):
                    subs = [x.elt] if hasattr(x, "elt") else [x.key, x.value]
                    for g_ in x.generators:
                        subs.extend(g_.ifs)
                    subs.extend(g_.iter for g_ in x.generators[1:])
                elif isinstance(x, ast.Lambda):
                    subs = [x.body]
                elif isinstance(x, ast.IfExp):
                    subs = [x.body, x.orelse]
                elif isinstance(x, ast.BoolOp):
                    subs = x.values[1:]
                for s_ in subs:
                    deferred |= {id(y) for y in ast.walk(s_)}
            for n in list(ast.walk(root)):
                if not isinstance(n, ast.Call):
                    continue
                h = self._match(n, cls)
                if h is None or h.fn is fn:
                    continue
                if n is val:
                    continue
                inst = _instantiate(h, n, names, self.counter)
                if inst is None:
                    continue
                body, ret = inst
                if ret is None:
                    continue
                if id(n) in deferred and (body or h.kind != "expr"):
                    continue
                key = (h.cls, h.fn.name)
                if h.kind == "expr" and not body:
                    _replace_node(st, n, ret)
                elif not isinstance(st, ast.While):
                    self.counter[0] += 1
                    tmp = f"__inl{self.counter[0]}"
                    pre.extend(body)
                    a = ast.Assign(targets=[ast.Name(id=tmp, ctx=ast.Store())],
                                   value=ret)
                    ast.copy_location(a, st)
                    ast.fix_missing_locations(a)
                    pre.append(a)
                    _replace_node(st, n, ast.Name(id=tmp, ctx=ast.Load()))
                else:
                    continue
                self.used.add(key)
                changed[0] = True
        # recurse into blocks
        for fld in ("body", "orelse", "finalbody"):
            blk = getattr(st, fld, None)
            if isinstance(blk, list) and blk and isinstance(blk[0], ast.stmt)\
                    and not isinstance(st, (ast.FunctionDef, ast.ClassDef,
                                            ast.AsyncFunctionDef)):
                setattr(st, fld, self._block(blk, cls, names, fn, changed))
        if isinstance(st, ast.Try):
            for hd in st.handlers:
                hd.body = self._block(hd.body, cls, names, fn, changed)
        ast.fix_missing_locations(st)
        return pre + [st]


def _replace_node(root, old, new):
    for parent in ast.walk(root):
        for fld, val in ast.iter_fields(parent):
            if val is old:
                setattr(parent, fld, ast.copy_location(new, old))
                return True
            if isinstance(val, list):
                for i, v in enumerate(val):
                    if v is old:
                        val[i] = ast.copy_location(new, old)
                        return True
    return False


# ---------------------------------------------------------------------------

def _negate(test):
    if isinstance(test, ast.UnaryOp) and isinstance(test.op, ast.Not):
        return test.operand
    if isinstance(test, ast.Compare) and len(test.ops) == 1:
        flip = {ast.Eq: ast.NotEq, ast.NotEq: ast.Eq, ast.In: ast.NotIn,
                ast.NotIn: ast.In, ast.Is: ast.IsNot, ast.IsNot: ast.Is,
                ast.Lt: ast.GtE, ast.GtE: ast.Lt, ast.Gt: ast.LtE,
                ast.LtE: ast.Gt}
        t = type(test.ops[0])
        if t in (ast.Eq, ast.NotEq, ast.In, ast.NotIn, ast.Is, ast.IsNot):
            return ast.copy_location(ast.Compare(
                left=test.left, ops=[flip[t]()],
                comparators=test.comparators), test)
    return ast.copy_location(ast.UnaryOp(op=ast.Not(), operand=test), test)


class _DeMorganIs(ast.NodeTransformer):
    """`not (a is S and b is S)` -> `a is not S or b is not S` (identity
    tests only: what the sentinel passes look for)"""

    def visit_UnaryOp(self, node):
        self.generic_visit(node)
        if isinstance(node.op, ast.Not) and isinstance(
                node.operand, ast.BoolOp) and all(
                isinstance(v, ast.Compare) and len(v.ops) == 1
                and isinstance(v.ops[0], (ast.Is, ast.IsNot))
                for v in node.operand.values):
            op = ast.Or() if isinstance(node.operand.op, ast.And) \
                else ast.And()
            return ast.fix_missing_locations(ast.copy_location(ast.BoolOp(
                op=op, values=[_negate(v) for v in node.operand.values]),
                node))
        return node


class Idioms(ast.NodeTransformer):
    def visit_UnaryOp(self, node):
        self.generic_visit(node)
        if isinstance(node.op, ast.Not):
            t = node.operand
            if isinstance(t, ast.Compare) and len(t.ops) == 1 and isinstance(
                    t.ops[0], (ast.In, ast.Eq, ast.NotEq, ast.NotIn, ast.Is,
                               ast.IsNot)):
                return _negate(t)
            if isinstance(t, ast.UnaryOp) and isinstance(t.op, ast.Not):
                pass
        return node

    def visit_Call(self, node):
        self.generic_visit(node)
        f = node.func
        # "..{}..".format(a, b)
        if isinstance(f, ast.Attribute) and f.attr == "format" and isinstance(
                f.value, ast.Constant) and isinstance(f.value.value, str) \
                and not node.keywords and not any(
                    isinstance(a, ast.Starred) for a in node.args):
            try:
                parts = list(string.Formatter().parse(f.value.value))
            except ValueError:
                parts = None
            if parts is not None and all(
                    (fld is None) or (fld == "" and not spec and conv is None)
                    for _, fld, spec, conv in parts):
                nph = sum(1 for _, fld, _, _ in parts if fld == "")
                if nph == len(node.args):
                    vals = []
                    i = 0
                    for lit, fld, spec, conv in parts:
                        if lit:
                            vals.append(ast.Constant(value=lit))
                        if fld == "":
                            vals.append(ast.FormattedValue(
                                value=node.args[i], conversion=-1,
                                format_spec=None))
                            i += 1
                    return ast.copy_location(ast.JoinedStr(values=vals), node)
        # super(C, self) -> super()
        if isinstance(f, ast.Name) and f.id == "super" and len(node.args) == 2:
            return ast.copy_location(ast.Call(func=f, args=[], keywords=[]),
                                     node)
        # sorted/list/tuple/set/len(d.keys()) -> (d)
        if isinstance(f, ast.Name) and f.id in ("sorted", "list", "tuple",
                                                "set", "len", "enumerate") \
                and len(node.args) >= 1 and _is_keys_call(node.args[0]):
            node.args[0] = node.args[0].func.value
            return node
        # np.flip(x) / np.flipud(x) -> x[::-1]
        if isinstance(f, ast.Attribute) and f.attr in ("flip", "flipud") and \
                isinstance(f.value, ast.Name) and f.value.id in (
                    "np", "numpy") and len(node.args) == 1 and \
                not node.keywords:
            return ast.copy_location(ast.Subscript(
                value=node.args[0],
                slice=ast.Slice(lower=None, upper=None,
                                step=ast.UnaryOp(op=ast.USub(),
                                                 operand=ast.Constant(value=1))),
                ctx=ast.Load()), node)
        # bool(<comparison>) -> comparison
        if isinstance(f, ast.Name) and f.id == "bool" and len(node.args) == 1 \
                and isinstance(node.args[0], ast.Compare):
            return node.args[0]
        return node

    def visit_For(self, node):
        self.generic_visit(node)
        if _is_keys_call(node.iter):
            node.iter = node.iter.func.value
        return node

    def visit_comprehension(self, node):
        self.generic_visit(node)
        if _is_keys_call(node.iter):
            node.iter = node.iter.func.value
        return node

    def visit_Compare(self, node):
        self.generic_visit(node)
        if len(node.ops) == 1 and isinstance(node.ops[0], (ast.In, ast.NotIn))\
                and _is_keys_call(node.comparators[0]):
            node.comparators[0] = node.comparators[0].func.value
        return node

    def visit_If(self, node):
        self.generic_visit(node)
        # if c: pass else: B  ->  if not c: B
        if node.orelse and all(isinstance(s, ast.Pass) or (
                isinstance(s, ast.Expr) and isinstance(s.value, ast.Constant))
                for s in node.body):
            node.test = _negate(node.test)
            node.body, node.orelse = node.orelse, []
        # if not c: A else: B  /  if x not in y: A else: B  ->  positive
        # test first (elif chains keep their order)
        if node.orelse and not (len(node.orelse) == 1 and isinstance(
                node.orelse[0], ast.If)) and (
                (isinstance(node.test, ast.UnaryOp)
                 and isinstance(node.test.op, ast.Not))
                or (isinstance(node.test, ast.Compare)
                    and len(node.test.ops) == 1
                    and isinstance(node.test.ops[0], ast.NotIn))):
            node.test = _negate(node.test)
            node.body, node.orelse = node.orelse, node.body
        # if c: x = True else: x = False  ->  x = c
        if len(node.body) == 1 and len(node.orelse) == 1 and all(
                isinstance(s, ast.Assign) and len(s.targets) == 1
                and isinstance(s.value, ast.Constant)
                and isinstance(s.value.value, bool)
                for s in (node.body[0], node.orelse[0])) and \
                norm(node.body[0].targets[0]) == norm(
                    node.orelse[0].targets[0]) and \
                node.body[0].value.value != node.orelse[0].value.value:
            test = node.test if node.body[0].value.value else _negate(
                node.test)
            if not isinstance(test, ast.Compare):
                test = ast.Call(func=ast.Name(id="bool", ctx=ast.Load()),
                                args=[test], keywords=[])
            return ast.copy_location(ast.Assign(
                targets=node.body[0].targets, value=test), node)
        return node

    def visit_IfExp(self, node):
        self.generic_visit(node)
        if all(isinstance(v, ast.Constant) and isinstance(v.value, bool)
               for v in (node.body, node.orelse)) and \
                node.body.value != node.orelse.value:
            test = node.test if node.body.value else _negate(node.test)
            if not isinstance(test, ast.Compare):
                test = ast.Call(func=ast.Name(id="bool", ctx=ast.Load()),
                                args=[test], keywords=[])
            return ast.copy_location(test, node)
        return node


class Unroll(ast.NodeTransformer):
    """`for v in [<=4 literal items>]: <small body>` -> the body repeated
    with v substituted (no break/continue/else, v not re-bound)."""
    MAX_ITEMS = 12
    MAX_BODY = 6
    MAX_TOTAL = 40

    @staticmethod
    def _item_ok(e):
        if isinstance(e, (ast.Constant, ast.Name)):
            return True
        if isinstance(e, ast.Attribute):
            return Unroll._item_ok(e.value)
        if isinstance(e, (ast.Tuple, ast.List)):
            return all(Unroll._item_ok(x) for x in e.elts)
        if isinstance(e, ast.Dict):
            return all(k is not None and isinstance(k, ast.Constant)
                       for k in e.keys) and all(
                Unroll._item_ok(v) for v in e.values)
        if isinstance(e, ast.Call) and norm(e) == "type(None)":
            return True
        if isinstance(e, ast.UnaryOp) and isinstance(
                e.op, (ast.USub, ast.UAdd)) and isinstance(
                e.operand, ast.Constant):
            return True
        if isinstance(e, ast.BinOp) and isinstance(
                e.op, (ast.Div, ast.Mult, ast.Add, ast.Sub)) and \
                Unroll._num(e.left) and Unroll._num(e.right):
            return True
        return False

    @staticmethod
    def _num(e):
        if isinstance(e, ast.UnaryOp) and isinstance(e.op, (ast.USub,
                                                            ast.UAdd)):
            e = e.operand
        if isinstance(e, ast.BinOp):
            return Unroll._num(e.left) and Unroll._num(e.right)
        return isinstance(e, ast.Constant) and isinstance(
            e.value, (int, float)) and not isinstance(e.value, bool)

    @staticmethod
    def _structure_continues(body):
        """the body with its top-level `if c: continue` guards turned into
        `if not c: <rest>`; None if there is none / another continue stays"""
        hit = False

        def conv(stmts):
            nonlocal hit
            for i, st in enumerate(stmts):
                if isinstance(st, ast.If) and not st.orelse and len(
                        st.body) == 1 and isinstance(
                        st.body[0], ast.Continue):
                    hit = True
                    rest = conv(stmts[i + 1:])
                    if not rest:
                        return list(stmts[:i])
                    new = ast.If(test=_negate(clone(st.test)), body=rest,
                                 orelse=[])
                    ast.copy_location(new, st)
                    ast.fix_missing_locations(new)
                    return list(stmts[:i]) + [new]
            return list(stmts)
        out = conv(body)
        if not hit:
            return None
        inner_loops = set()
        for s_ in out:
            for lp in ast.walk(s_):
                if isinstance(lp, (ast.For, ast.While)):
                    inner_loops |= {id(x) for b in lp.body + lp.orelse
                                    for x in ast.walk(b)}
        for s_ in out:
            for n in ast.walk(s_):
                if isinstance(n, ast.Continue) and id(n) not in inner_loops:
                    return None
        return out

    def visit_For(self, node):
        self.generic_visit(node)
        it = node.iter
        if node.orelse or not isinstance(it, (ast.List, ast.Tuple)) or \
                not (1 <= len(it.elts) <= self.MAX_ITEMS) or \
                len(node.body) > self.MAX_BODY or \
                (len(it.elts) > 4 and len(it.elts) * sum(
                    1 for _ in ast.walk(ast.Module(body=node.body,
                                                   type_ignores=[]))
                    if isinstance(_, ast.stmt)) > self.MAX_TOTAL) or \
                not all(self._item_ok(e) for e in it.elts):
            return node
        targets = target_names(node.target)
        # `if c: continue` guards at the top of the body -> `if not c: rest`
        body_ = self._structure_continues(node.body)
        if body_ is not None:
            node = ast.copy_location(ast.For(
                target=node.target, iter=node.iter, body=body_, orelse=[],
                type_comment=None), node)
        for n in ast.walk(ast.Module(body=node.body, type_ignores=[])):
            if isinstance(n, (ast.Break, ast.Continue, ast.FunctionDef,
                              ast.Lambda)):
                return node
            if isinstance(n, ast.Name) and n.id in targets and isinstance(
                    n.ctx, (ast.Store, ast.Del)):
                return node
        out = []
        for e in it.elts:
            mapping = {}
            if isinstance(node.target, ast.Name):
                mapping[node.target.id] = e
            elif isinstance(node.target, (ast.Tuple, ast.List)) and \
                    isinstance(e, (ast.Tuple, ast.List)) and \
                    len(e.elts) == len(node.target.elts) and all(
                        isinstance(t, ast.Name) for t in node.target.elts):
                for t, v in zip(node.target.elts, e.elts):
                    mapping[t.id] = v
            else:
                return node
            sub = _Subst(mapping, {})
            for st in node.body:
                new = sub.visit(clone(st))
                ast.copy_location(new, st)
                # (which pass of which loop the statement stands for)
                new._unroll = (id(node), len(out) // max(1, len(node.body)))
                out.append(new)
        for st in out:
            ast.fix_missing_locations(st)
        return out


class AttrCalls(ast.NodeTransformer):
    """setattr(o, "name", v) -> o.name = v ; getattr(o, "name") -> o.name"""

    def visit_Expr(self, node):
        self.generic_visit(node)
        v = node.value
        if isinstance(v, ast.Call) and isinstance(v.func, ast.Name) and \
                v.func.id == "setattr" and len(v.args) == 3 and isinstance(
                    v.args[1], ast.Constant) and isinstance(
                        v.args[1].value, str) and \
                v.args[1].value.isidentifier():
            return ast.copy_location(ast.Assign(
                targets=[ast.Attribute(value=v.args[0], attr=v.args[1].value,
                                       ctx=ast.Store())],
                value=v.args[2]), node)
        return node

    def visit_Call(self, node):
        self.generic_visit(node)
        if isinstance(node.func, ast.Name) and node.func.id == "getattr" and \
                len(node.args) == 2 and not node.keywords and isinstance(
                    node.args[1], ast.Constant) and isinstance(
                        node.args[1].value, str) and \
                node.args[1].value.isidentifier():
            return ast.copy_location(ast.Attribute(
                value=node.args[0], attr=node.args[1].value, ctx=ast.Load()),
                node)
        return node


def _is_keys_call(n):
    return isinstance(n, ast.Call) and isinstance(n.func, ast.Attribute) and \
        n.func.attr == "keys" and not n.args and not n.keywords


def _local_lambdas(fn):
    """single-return nested defs used as values -> lambdas; **local dict"""
    nested = {}
    holder = {}
    for par in [fn] + [n for n in _own_nodes(fn)]:
        for fld in ("body", "orelse", "finalbody"):
            blk = getattr(par, fld, None)
            if not isinstance(blk, list):
                continue
            for st in blk:
                if isinstance(st, ast.FunctionDef) and \
                        not st.decorator_list:
                    if _single_expr(st) is not None and \
                            not st.args.vararg and not st.args.kwarg:
                        if st.name in nested:
                            nested[st.name] = None   # ambiguous
                        else:
                            nested[st.name] = st
                            holder[st.name] = (par, fld)
    nested = {k: v for k, v in nested.items() if v is not None}
    if nested:
        stores = [n.id for n in ast.walk(fn) if isinstance(n, ast.Name)
                  and isinstance(n.ctx, ast.Store)]
        for name, d in list(nested.items()):
            if name in stores:
                continue
            calls = [n for n in ast.walk(fn) if isinstance(n, ast.Call)
                     and isinstance(n.func, ast.Name) and n.func.id == name]
            uses = [n for n in ast.walk(fn) if isinstance(n, ast.Name)
                    and n.id == name and isinstance(n.ctx, ast.Load)]
            if calls or not uses:
                continue      # called directly: leave it a function
            # only when used as an element of a literal container
            def in_container(u):
                for par in ast.walk(fn):
                    if isinstance(par, (ast.List, ast.Tuple)) and any(
                            e is u for e in par.elts):
                        return True
                    if isinstance(par, ast.Dict) and any(
                            v is u for v in par.values):
                        return True
                    if isinstance(par, ast.Call) and (any(
                            a is u for a in par.args) or any(
                            k.value is u for k in par.keywords)):
                        return True
                return False
            if not all(in_container(u) for u in uses):
                continue
            body = _single_expr(d)
            for u in uses:
                lam = ast.Lambda(args=clone(d.args), body=clone(body))
                _replace_node(fn, u, lam)
            par, fld = holder[name]
            setattr(par, fld, [s for s in getattr(par, fld) if s is not d]
                    or [ast.Pass()])
    _star_dicts(fn)


def _star_dicts(fn):
    # f(**d) with d a local dict literal / dict(...) call
    dicts = {}
    owner = {}
    for par_ in ast.walk(fn):
        if par_ is not fn and isinstance(par_, (ast.FunctionDef, ast.Lambda,
                                                ast.ClassDef)):
            continue
        for fld_ in ("body", "orelse", "finalbody"):
            blk_ = getattr(par_, fld_, None)
            if isinstance(blk_, list):
                for s_ in blk_:
                    if isinstance(s_, ast.stmt):
                        owner[id(s_)] = blk_
    stmts_ = [s_ for blk_ in {id(b_): b_ for b_ in owner.values()}.values()
              for s_ in blk_]
    for st in stmts_:
        if isinstance(st, ast.Assign) and len(st.targets) == 1 and isinstance(
                st.targets[0], ast.Name):
            v = st.value
            if isinstance(v, ast.Call) and isinstance(v.func, ast.Name) and \
                    v.func.id == "dict" and not v.args and all(
                        k.arg for k in v.keywords):
                dicts[st.targets[0].id] = (st, [(k.arg, k.value)
                                                for k in v.keywords])
            elif isinstance(v, ast.Dict) and v.keys and all(
                    k is None or (isinstance(k, ast.Constant) and isinstance(
                        k.value, str) and k.value.isidentifier())
                    for k in v.keys):
                # ({..., **other} keeps its `**other` entry)
                dicts[st.targets[0].id] = (st, [
                    (k.value if k is not None else None, val)
                    for k, val in zip(v.keys, v.values)])
    for name, (st, items) in dicts.items():
        uses = [n for n in ast.walk(fn) if isinstance(n, ast.Name)
                and n.id == name]
        star = [c for c in ast.walk(fn) if isinstance(c, ast.Call) and any(
            k.arg is None and isinstance(k.value, ast.Name)
            and k.value.id == name for k in c.keywords)]
        if len(star) == 1 and len(uses) == 2:
            c = star[0]
            c.keywords = [k for k in c.keywords if not (
                k.arg is None and isinstance(k.value, ast.Name)
                and k.value.id == name)] + [
                    ast.keyword(arg=a, value=v) for a, v in items]
            if id(st) in owner and st in owner[id(st)]:
                owner[id(st)].remove(st)
        elif len(star) > 1 and len(uses) == len(star) + 1 and all(
                isinstance(v, ast.Constant) for _, v in items) and \
                id(st) in owner and st in owner[id(st)]:
            # a table of constant options forwarded to several calls
            for c in star:
                c.keywords = [k for k in c.keywords if not (
                    k.arg is None and isinstance(k.value, ast.Name)
                    and k.value.id == name)] + [
                        ast.keyword(arg=a, value=clone(v))
                        for a, v in items]
            owner[id(st)].remove(st)
    for blk_ in owner.values():
        if not blk_:
            blk_.append(ast.Pass())
    ast.fix_missing_locations(fn)


# ---------------------------------------------------------------------------
# module-level constants

_MUT_METHODS = {"append", "extend", "insert", "remove", "pop", "update",
                "clear", "sort", "reverse", "setdefault", "popitem", "add",
                "discard"}


def _scalar_const(v):
    if isinstance(v, ast.Constant) and isinstance(
            v.value, (int, float, str)) and not isinstance(v.value, bool):
        return True
    if isinstance(v, ast.BinOp) and isinstance(v.op, (
            ast.Add, ast.Sub, ast.Mult, ast.Div, ast.Pow)):
        return all(_scalar_const(x) and not (isinstance(x, ast.Constant)
                                             and isinstance(x.value, str))
                   for x in (v.left, v.right))
    if isinstance(v, ast.Attribute) and isinstance(v.value, ast.Name) and \
            v.value.id in ("np", "numpy", "math") and v.attr == "pi":
        return True
    if isinstance(v, ast.UnaryOp) and isinstance(v.op, (ast.USub, ast.UAdd)):
        return _scalar_const(v.operand) and not isinstance(
            v.operand.value if isinstance(v.operand, ast.Constant) else 0,
            str)
    if isinstance(v, ast.Call) and isinstance(v.func, ast.Name) and \
            v.func.id == "slice" and not v.keywords and 1 <= len(
                v.args) <= 3 and all(
                isinstance(a, ast.Constant) or (
                    isinstance(a, ast.UnaryOp) and isinstance(
                        a.operand, ast.Constant)) for a in v.args):
        return True      # an index constant, e.g. slice(None, None, -1)
    return False


def _literal_coll(v, depth=0):
    """tuple/list/dict of constants (nested up to 2 levels)"""
    if isinstance(v, ast.Constant):
        return True
    if _scalar_const(v):
        return True
    if depth > 2:
        return False
    if isinstance(v, (ast.Tuple, ast.List)):
        return all(_literal_coll(e, depth + 1) for e in v.elts)
    if isinstance(v, ast.Dict):
        return all(k is not None and _literal_coll(k, depth + 1)
                   and _literal_coll(x, depth + 1)
                   for k, x in zip(v.keys, v.values))
    return False


def _rebound_names(tree):
    """names stored anywhere except by an import statement"""
    out = set()
    for n in ast.walk(tree):
        if isinstance(n, ast.Name) and isinstance(n.ctx, (ast.Store,
                                                          ast.Del)):
            out.add(n.id)
        elif isinstance(n, ast.arg):
            out.add(n.arg)
        elif isinstance(n, ast.Global):
            out.update(n.names)
        elif isinstance(n, (ast.FunctionDef, ast.ClassDef)):
            out.add(n.name)
    return out


def module_constants(tree):
    """(scalars, collections): module-level names bound exactly once to a
    literal and never re-bound or mutated anywhere in the module."""
    bound = {}
    count = {}
    for st in tree.body:
        tg = []
        if isinstance(st, ast.Assign):
            tg = [n.id for t in st.targets for n in ast.walk(t)
                  if isinstance(n, ast.Name)]
            if len(st.targets) == 1 and isinstance(st.targets[0], ast.Name):
                bound[st.targets[0].id] = st.value
        elif isinstance(st, (ast.AnnAssign, ast.AugAssign)):
            tg = [n.id for n in ast.walk(st.target)
                  if isinstance(n, ast.Name)]
            if isinstance(st, ast.AnnAssign) and st.value is not None and \
                    isinstance(st.target, ast.Name):
                bound[st.target.id] = st.value
        elif isinstance(st, (ast.FunctionDef, ast.ClassDef)):
            tg = [st.name]
        elif isinstance(st, (ast.Import, ast.ImportFrom)):
            tg = [(a.asname or a.name).split(".")[0] for a in st.names]
        elif isinstance(st, (ast.For, ast.With, ast.If, ast.Try, ast.While)):
            tg = [n.id for n in ast.walk(st) if isinstance(n, ast.Name)
                  and isinstance(n.ctx, ast.Store)]
        for t in tg:
            count[t] = count.get(t, 0) + 1
    bad = set()
    for n in ast.walk(tree):
        if isinstance(n, ast.Global):
            bad.update(n.names)
        elif isinstance(n, (ast.Subscript, ast.Attribute)) and isinstance(
                n.ctx, (ast.Store, ast.Del)):
            b = n
            while isinstance(b, (ast.Subscript, ast.Attribute)):
                b = b.value
            if isinstance(b, ast.Name):
                bad.add(b.id)
        elif isinstance(n, ast.Call) and isinstance(n.func, ast.Attribute) \
                and n.func.attr in _MUT_METHODS and isinstance(
                    n.func.value, ast.Name):
            bad.add(n.func.value.id)
        elif isinstance(n, ast.AugAssign) and isinstance(n.target, ast.Name):
            bad.add(n.target.id)
    # names re-bound inside functions shadow the constant there: be
    # conservative and drop them entirely
    for n in ast.walk(tree):
        if isinstance(n, (ast.FunctionDef, ast.Lambda)):
            args = n.args
            for a in args.posonlyargs + args.args + args.kwonlyargs + [
                    x for x in (args.vararg, args.kwarg) if x]:
                bad.add(a.arg)
            if isinstance(n, ast.FunctionDef):
                for m in _own_nodes(n):
                    if isinstance(m, ast.Name) and isinstance(
                            m.ctx, (ast.Store, ast.Del)):
                        bad.add(m.id)
    scal, coll = {}, {}
    ok = {n: v for n, v in bound.items()
          if count.get(n, 0) == 1 and n not in bad}
    for _ in range(4):
        progress = False
        for name, v in ok.items():
            if name in scal or name in coll:
                continue
            v2 = _fold_strings(_ConstInline(scal).visit(clone(v))) \
                if scal else v
            if _scalar_const(v2):
                scal[name] = v2
                progress = True
            elif _literal_coll(v2) or _static_table(v2):
                coll[name] = v2
                progress = True
        if not progress:
            break
    return scal, coll


def _static_table(v):
    """dict literal whose keys/values are names, attributes, constants,
    tuples of those or type(None) - a dispatch table"""
    def simple(e, d=0):
        if isinstance(e, (ast.Name, ast.Constant)):
            return True
        if isinstance(e, ast.Attribute):
            return simple(e.value, d)
        if isinstance(e, (ast.Tuple, ast.List)) and d < 2:
            return all(simple(x, d + 1) for x in e.elts)
        if isinstance(e, ast.Call) and norm(e) == "type(None)":
            return True
        return False
    return isinstance(v, ast.Dict) and v.keys and all(
        k is not None and simple(k) and simple(x)
        for k, x in zip(v.keys, v.values))


def _fold_strings(e):
    """'a' + 'b' -> 'ab' (constants defined from other constants)"""
    class F(ast.NodeTransformer):
        def visit_BinOp(self, node):
            self.generic_visit(node)
            if isinstance(node.op, ast.Add) and all(
                    isinstance(x, ast.Constant) and isinstance(x.value, str)
                    for x in (node.left, node.right)):
                return ast.copy_location(ast.Constant(
                    value=node.left.value + node.right.value), node)
            return node
    return F().visit(e)


class _AttrConstInline(ast.NodeTransformer):
    """`_Enum.MEMBER.value`, `_HOLDER.field` -> the constant"""
    def __init__(self, table, env=None):
        self.table = dict(table)
        self.env = env or {}

    def visit_FunctionDef(self, node):
        # a local bound once to a constant holder: `fem = _FEM`
        holders = {k.split(".")[0] for k in self.table if k.count(".") == 1}
        added = []
        for st in node.body:
            if isinstance(st, ast.Assign) and len(st.targets) == 1 and \
                    isinstance(st.targets[0], ast.Name) and isinstance(
                        st.value, ast.Name) and st.value.id in holders:
                alias = st.targets[0].id
                stores = [n for n in ast.walk(node) if isinstance(
                    n, ast.Name) and n.id == alias and isinstance(
                    n.ctx, ast.Store)]
                if len(stores) == 1:
                    for k, v in list(self.table.items()):
                        if k.startswith(st.value.id + ".") and \
                                k.count(".") == 1:
                            nk = alias + "." + k.split(".", 1)[1]
                            if nk not in self.table:
                                self.table[nk] = v
                                added.append(nk)
        self.generic_visit(node)
        for k in added:
            self.table.pop(k, None)
        # an alias nobody reads any more is dropped
        for alias in {k.split(".")[0] for k in added}:
            if not any(isinstance(n, ast.Name) and n.id == alias
                       and isinstance(n.ctx, ast.Load)
                       for n in ast.walk(node)):
                node.body = [st for st in node.body if not (
                    isinstance(st, ast.Assign) and len(st.targets) == 1
                    and isinstance(st.targets[0], ast.Name)
                    and st.targets[0].id == alias)] or [ast.Pass()]
        return node

    def _static(self, node):
        """a comprehension / conversion over static module data"""
        if not self.env:
            return node
        from . import staticeval as se
        names = {n.id for n in ast.walk(node) if isinstance(n, ast.Name)}
        bound = {t for g in ast.walk(node) if isinstance(g, ast.comprehension)
                 for t in target_names(g.target)}
        free = names - bound - {"list", "tuple", "sorted", "dict", "zip",
                                "map", "len", "str"}
        if not free or not free <= set(self.env):
            return node
        if not any(isinstance(self.env.get(n), (se._Enum, se._Holder))
                   or n.startswith("_") for n in free):
            return node
        try:
            v = se._ev(node, self.env)
        except (se._No, RecursionError):
            return node
        if not se._is_data(v) or isinstance(v, se._AstConst):
            return node
        new = se._literal(v)
        new._from_const = "static"
        return ast.copy_location(new, node)

    def visit_ListComp(self, node):
        new = self._static(node)
        if new is not node:
            return new
        self.generic_visit(node)
        return node

    visit_GeneratorExp = visit_ListComp

    def visit_For(self, node):
        # for m in _Enum: ... m.name ... m.value ...
        from . import staticeval as se
        if isinstance(node.iter, ast.Name) and isinstance(
                self.env.get(node.iter.id), se._Enum) and isinstance(
                node.target, ast.Name):
            m = node.target.id
            en = self.env[node.iter.id]
            uses = [n for n in ast.walk(node) if isinstance(n, ast.Name)
                    and n.id == m and n is not node.target]
            attr_uses = [n for n in ast.walk(node) if isinstance(
                n, ast.Attribute) and isinstance(n.value, ast.Name)
                and n.value.id == m and n.attr in ("name", "value")]
            if uses and len(uses) == len(attr_uses):
                for a in attr_uses:
                    _replace_node(node, a, ast.Name(
                        id=f"{m}__{a.attr}", ctx=ast.Load()))
                node.target = ast.copy_location(ast.Tuple(elts=[
                    ast.Name(id=f"{m}__name", ctx=ast.Store()),
                    ast.Name(id=f"{m}__value", ctx=ast.Store())],
                    ctx=ast.Store()), node.target)
                node.iter = ast.copy_location(ast.List(elts=[
                    ast.Tuple(elts=[se._literal(x.name),
                                    se._literal(x.value)], ctx=ast.Load())
                    for x in en.members.values()], ctx=ast.Load()),
                    node.iter)
                ast.fix_missing_locations(node)
        self.generic_visit(node)
        return node

    def visit_Call(self, node):
        if isinstance(node.func, ast.Attribute) and isinstance(
                node.func.value, ast.Name) and node.func.value.id in \
                self.env and not node.args and not node.keywords:
            new = self._static(node)
            if new is not node:
                return new
        self.generic_visit(node)
        return node

    def visit_Attribute(self, node):
        if isinstance(node.ctx, ast.Load):
            try:
                txt = ast.unparse(node)
            except Exception:
                txt = None
            if txt in self.table:
                new = clone(self.table[txt])
                new._from_const = txt
                return ast.copy_location(new, node)
        self.generic_visit(node)
        return node


class _ConstInline(ast.NodeTransformer):
    def __init__(self, scal):
        self.scal = scal
        self.depth = 0

    def visit_FunctionDef(self, node):
        self.depth += 1
        self.generic_visit(node)
        self.depth -= 1
        return node

    visit_AsyncFunctionDef = visit_FunctionDef

    def visit_Name(self, node):
        if isinstance(node.ctx, ast.Load) and node.id in self.scal:
            new = ast.copy_location(clone(self.scal[node.id]), node)
            new._from_const = node.id     # rules may ask where it came from
            return new
        return node


class Idioms2(ast.NodeTransformer):
    """second batch of behaviour-preserving canonicalisations"""

    def __init__(self, coll):
        self.coll = coll

    def visit_Call(self, node):
        self.generic_visit(node)
        f = node.func
        # d.update(k=v, ...) -> d.update({"k": v, ...})
        if isinstance(f, ast.Attribute) and f.attr == "update" and \
                not node.args and node.keywords and all(
                    kw.arg is not None for kw in node.keywords):
            d = ast.Dict(keys=[ast.Constant(value=kw.arg)
                               for kw in node.keywords],
                         values=[kw.value for kw in node.keywords])
            node.args, node.keywords = [d], []
            return node
        # len("literal") -> its length
        if isinstance(f, ast.Name) and f.id == "len" and \
                len(node.args) == 1 and not node.keywords and isinstance(
                    node.args[0], ast.Constant) and isinstance(
                    node.args[0].value, (str, bytes)):
            return ast.copy_location(ast.Constant(
                value=len(node.args[0].value)), node)
        # isinstance(x, type(None)) -> x is None
        if isinstance(f, ast.Name) and f.id == "isinstance" and \
                len(node.args) == 2 and norm(node.args[1]) == "type(None)":
            return ast.copy_location(ast.Compare(
                left=node.args[0], ops=[ast.Is()],
                comparators=[ast.Constant(value=None)]), node)
        # dict.fromkeys(<literal keys>, v) -> {k: v, ...}
        if isinstance(f, ast.Attribute) and f.attr == "fromkeys" and \
                isinstance(f.value, ast.Name) and f.value.id == "dict" and \
                len(node.args) == 2 and not node.keywords and isinstance(
                    node.args[1], (ast.Name, ast.Constant, ast.Attribute)):
            ks = node.args[0]
            if isinstance(ks, ast.Name) and ks.id in self.coll:
                ks = self.coll[ks.id]
            if isinstance(ks, (ast.Tuple, ast.List)) and all(
                    isinstance(e, ast.Constant) for e in ks.elts):
                return ast.copy_location(ast.Dict(
                    keys=[clone(e) for e in ks.elts],
                    values=[clone(node.args[1]) for _ in ks.elts]), node)
        if isinstance(f, ast.Attribute) and isinstance(f.value, ast.Name) \
                and f.value.id in ("np", "numpy") and len(node.args) == 1 \
                and not node.keywords:
            a = node.args[0]
            # np.count_nonzero(<mask expression>) -> np.sum(<mask>)
            if f.attr == "count_nonzero" and _is_mask(a):
                f.attr = "sum"
                return node
            # np.flatnonzero(x) -> np.where(x)[0]
            if f.attr == "flatnonzero":
                f.attr = "where"
                return ast.copy_location(ast.Subscript(
                    value=node, slice=ast.Constant(value=0), ctx=ast.Load()),
                    node)
        return node

    def visit_For(self, node):
        self.generic_visit(node)
        it = node.iter
        if isinstance(it, ast.Name) and it.id in self.coll and \
                isinstance(self.coll[it.id], (ast.Tuple, ast.List)):
            node.iter = ast.copy_location(clone(self.coll[it.id]), it)
        # for k, v in TABLE.items()  ->  for k, v in [(k1, v1), ...]
        if isinstance(it, ast.Call) and isinstance(it.func, ast.Attribute) \
                and it.func.attr in ("items", "keys", "values") and \
                not it.args and isinstance(it.func.value, ast.Name) and \
                it.func.value.id in self.coll and isinstance(
                    self.coll[it.func.value.id], ast.Dict):
            d = self.coll[it.func.value.id]
            if it.func.attr == "items":
                elts = [ast.Tuple(elts=[clone(k), clone(v)], ctx=ast.Load())
                        for k, v in zip(d.keys, d.values)]
            elif it.func.attr == "keys":
                elts = [clone(k) for k in d.keys]
            else:
                elts = [clone(v) for v in d.values]
            node.iter = ast.copy_location(ast.List(elts=elts,
                                                   ctx=ast.Load()), it)
        return node

    def visit_comprehension(self, node):
        self.generic_visit(node)
        it = node.iter
        if isinstance(it, ast.Name) and it.id in self.coll and \
                isinstance(self.coll[it.id], (ast.Tuple, ast.List)) and \
                len(self.coll[it.id].elts) <= 12:
            node.iter = ast.copy_location(clone(self.coll[it.id]), it)
        return node

    def _stmts(self, body):
        out = []
        for st in body:
            out.extend(self._split(st))
        return out

    def visit_JoinedStr(self, node):
        self.generic_visit(node)
        # f"{'lit'}{x}" -> f"lit{x}" (constants substituted into templates)
        vals = []
        for v in node.values:
            if isinstance(v, ast.FormattedValue) and isinstance(
                    v.value, ast.Constant) and isinstance(
                    v.value.value, str) and v.conversion == -1 and \
                    v.format_spec is None:
                v = ast.Constant(value=v.value.value)
            if isinstance(v, ast.Constant) and vals and isinstance(
                    vals[-1], ast.Constant):
                vals[-1] = ast.Constant(value=vals[-1].value + v.value)
            else:
                vals.append(v)
        if len(vals) == 1 and isinstance(vals[0], ast.Constant):
            return ast.copy_location(vals[0], node)
        node.values = vals
        return node

    def visit_BinOp(self, node):
        self.generic_visit(node)
        # "lit" + x (strings) -> f"lit{x}" is not done; but "a" + "b" -> "ab"
        if isinstance(node.op, ast.Add) and all(
                isinstance(x, ast.Constant) and isinstance(x.value, str)
                for x in (node.left, node.right)):
            return ast.copy_location(ast.Constant(
                value=node.left.value + node.right.value), node)
        return node

    def visit_BoolOp(self, node):
        self.generic_visit(node)
        # constant operands (e.g. flags of an inlined helper)
        vals = []
        for v in node.values:
            if isinstance(v, ast.Constant) and isinstance(v.value, bool):
                if isinstance(node.op, ast.And):
                    if v.value:
                        continue
                    return ast.copy_location(ast.Constant(value=False), node) \
                        if not vals else node
                else:
                    if not v.value:
                        continue
                    return ast.copy_location(ast.Constant(value=True), node) \
                        if not vals else node
            vals.append(v)
        if not vals:
            return ast.copy_location(ast.Constant(
                value=isinstance(node.op, ast.And)), node)
        if len(vals) == 1:
            return vals[0]
        node.values = vals
        return node

    def _split(self, st):
        # if True: A else: B -> A ; if False: A else: B -> B
        if isinstance(st, ast.If) and isinstance(st.test, ast.Constant) \
                and isinstance(st.test.value, bool):
            return list(st.body if st.test.value else st.orelse)
        # a, b = x, y  ->  a = x; b = y   (no target read by any value)
        if isinstance(st, ast.Assign) and len(st.targets) == 1 and \
                isinstance(st.targets[0], (ast.Tuple, ast.List)) and \
                isinstance(st.value, (ast.Tuple, ast.List)) and \
                len(st.targets[0].elts) == len(st.value.elts) and all(
                    isinstance(t, ast.Name) for t in st.targets[0].elts) \
                and not any(isinstance(v, ast.Starred)
                            for v in st.value.elts):
            tn = {t.id for t in st.targets[0].elts}
            used = {n.id for v in st.value.elts for n in ast.walk(v)
                    if isinstance(n, ast.Name)}
            if not (tn & used) and len(tn) == len(st.targets[0].elts):
                return [ast.copy_location(ast.Assign(targets=[t], value=v),
                                          st)
                        for t, v in zip(st.targets[0].elts, st.value.elts)]
        # x.extend(y) -> x += y
        if isinstance(st, ast.Expr) and isinstance(st.value, ast.Call) and \
                isinstance(st.value.func, ast.Attribute) and \
                st.value.func.attr == "extend" and isinstance(
                    st.value.func.value, ast.Name) and \
                len(st.value.args) == 1 and not st.value.keywords:
            return [ast.copy_location(ast.AugAssign(
                target=ast.Name(id=st.value.func.value.id, ctx=ast.Store()),
                op=ast.Add(), value=st.value.args[0]), st)]
        # x = A if c else B / return A if c else B -> if statement
        if isinstance(st, (ast.Assign, ast.Return)) and isinstance(
                st.value, ast.IfExp) and (isinstance(st, ast.Return) or (
                    len(st.targets) == 1 and isinstance(
                        st.targets[0], ast.Name))):
            ie = st.value
            if isinstance(st, ast.Return):
                a = ast.Return(value=ie.body)
                b = ast.Return(value=ie.orelse)
            else:
                a = ast.Assign(targets=[clone(st.targets[0])], value=ie.body)
                b = ast.Assign(targets=[clone(st.targets[0])],
                               value=ie.orelse)
            new = ast.If(test=ie.test, body=[ast.copy_location(a, st)],
                         orelse=[ast.copy_location(b, st)])
            return [ast.copy_location(new, st)]
        # if A and (x := e) <rest>: B     (no else)
        #   ->  if A: x = e; if x <rest>: B
        if isinstance(st, ast.If) and not st.orelse and isinstance(
                st.test, ast.BoolOp) and isinstance(st.test.op, ast.And) \
                and _leading_walrus(st.test) is None:
            for i, v in enumerate(st.test.values):
                if i and _leading_walrus(v) is not None:
                    head = st.test.values[:i]
                    tail = st.test.values[i:]
                    inner = ast.copy_location(ast.If(
                        test=tail[0] if len(tail) == 1 else ast.BoolOp(
                            op=ast.And(), values=tail),
                        body=st.body, orelse=[]), st)
                    outer = ast.copy_location(ast.If(
                        test=head[0] if len(head) == 1 else ast.BoolOp(
                            op=ast.And(), values=head),
                        body=self._split(inner), orelse=[]), st)
                    return [outer]
        # if (x := e) <rest>: ...   ->   x = e; if x <rest>: ...
        if isinstance(st, ast.If):
            w = _leading_walrus(st.test)
            if w is not None:
                asg = ast.copy_location(ast.Assign(
                    targets=[ast.Name(id=w.target.id, ctx=ast.Store())],
                    value=w.value), st)
                _replace_node(st, w, ast.copy_location(
                    ast.Name(id=w.target.id, ctx=ast.Load()), w))
                return [asg, st]
        return [st]

    def generic_visit(self, node):
        super().generic_visit(node)
        for fld in ("body", "orelse", "finalbody"):
            blk = getattr(node, fld, None)
            if isinstance(blk, list) and blk and isinstance(blk[0],
                                                            ast.stmt):
                setattr(node, fld, self._stmts(blk))
        return node


def _leading_walrus(test):
    """the NamedExpr evaluated first and unconditionally by `test`"""
    t = test
    while True:
        if isinstance(t, ast.NamedExpr) and isinstance(t.target, ast.Name):
            return t
        if isinstance(t, ast.BoolOp):
            t = t.values[0]
        elif isinstance(t, ast.Compare):
            if isinstance(t.left, (ast.Constant, ast.Name)) and \
                    len(t.comparators) == 1:
                t = t.comparators[0]
            else:
                t = t.left
        elif isinstance(t, ast.UnaryOp):
            t = t.operand
        elif isinstance(t, ast.Call) and isinstance(t.func, ast.Attribute):
            t = t.func.value
        elif isinstance(t, (ast.Attribute, ast.Subscript)):
            t = t.value
        else:
            return None


def _is_mask(a):
    if isinstance(a, ast.Compare):
        return True
    if isinstance(a, ast.UnaryOp) and isinstance(a.op, ast.Invert):
        return _is_mask(a.operand)
    if isinstance(a, ast.BinOp) and isinstance(a.op, (ast.BitAnd,
                                                     ast.BitOr)):
        return _is_mask(a.left) and _is_mask(a.right)
    if isinstance(a, ast.Call) and isinstance(a.func, ast.Attribute) and \
            a.func.attr in ("isnan", "isinf", "isfinite", "logical_and",
                            "logical_or", "logical_not"):
        return True
    return False


class _CM:
    """a private @contextmanager generator with one yield"""
    def __init__(self, fn, cls):
        self.fn, self.cls = fn, cls
        self.static = self.classm = False
        self.ok = False
        body = [s for s in fn.body if not (isinstance(s, ast.Expr)
                                           and isinstance(s.value,
                                                          ast.Constant))]
        ys = [n for n in _own_nodes(fn) if isinstance(n, (ast.Yield,
                                                          ast.YieldFrom))]
        if len(ys) != 1 or not isinstance(ys[0], ast.Yield) or \
                fn.args.vararg or fn.args.kwarg:
            return
        if any(isinstance(n, ast.Return) for n in _own_nodes(fn)):
            return
        self.value = ys[0].value
        for i, st in enumerate(body):
            if isinstance(st, ast.Expr) and st.value is ys[0]:
                self.shape = ("flat", body[:i], body[i + 1:])
                self.ok = True
                return
            if isinstance(st, ast.Try):
                for j, s2 in enumerate(st.body):
                    if isinstance(s2, ast.Expr) and s2.value is ys[0]:
                        self.shape = ("try", body[:i], st, j, body[i + 1:])
                        self.ok = True
                        return


def _inline_contextmanagers(tree):
    cms = {}

    def is_cm(fn):
        return any(norm(d) in ("contextlib.contextmanager",
                               "contextmanager") for d in fn.decorator_list)
    for st in tree.body:
        if isinstance(st, ast.FunctionDef) and is_cm(st) and \
                _is_private(st.name):
            c = _CM(st, None)
            if c.ok:
                cms[(None, st.name)] = c
        elif isinstance(st, ast.ClassDef):
            for m in st.body:
                if isinstance(m, ast.FunctionDef) and is_cm(m) and \
                        _is_private(m.name):
                    c = _CM(m, st.name)
                    if c.ok:
                        cms[(st.name, m.name)] = c
    if not cms:
        return
    counter = [0]

    def match(call, cls):
        f = call.func
        if isinstance(f, ast.Name):
            return cms.get((None, f.id))
        if isinstance(f, ast.Attribute) and isinstance(f.value, ast.Name) \
                and f.value.id in ("self", "cls") and cls:
            return cms.get((cls, f.attr))
        return None

    def block(stmts, cls, names):
        out = []
        for st in stmts:
            for fld in ("body", "orelse", "finalbody"):
                b = getattr(st, fld, None)
                if isinstance(b, list) and b and isinstance(b[0], ast.stmt) \
                        and not isinstance(st, (ast.FunctionDef,
                                                ast.ClassDef)):
                    setattr(st, fld, block(b, cls, names))
            if isinstance(st, ast.Try):
                for h in st.handlers:
                    h.body = block(h.body, cls, names)
            if isinstance(st, ast.With) and len(st.items) == 1 and \
                    isinstance(st.items[0].context_expr, ast.Call):
                c = match(st.items[0].context_expr, cls)
                if c is not None:
                    b = _bind(c, st.items[0].context_expr, names, counter)
                    if b is not None:
                        prelude, sub_ = b

                        def inst(ss):
                            return [sub_.visit(clone(s)) for s in ss]
                        tgt = st.items[0].optional_vars
                        bind = []
                        if tgt is not None:
                            val = sub_.visit(clone(c.value)) if \
                                c.value is not None else ast.Constant(
                                    value=None)
                            bind = [ast.copy_location(ast.Assign(
                                targets=[tgt], value=val), st)]
                        if c.shape[0] == "flat":
                            _, pre, post = c.shape
                            new = prelude + inst(pre) + bind + st.body + \
                                inst(post)
                        else:
                            _, pre, tr, j, post = c.shape
                            t2 = sub_.visit(clone(tr))
                            t2.body = t2.body[:j] + bind + st.body + \
                                t2.body[j + 1:]
                            new = prelude + inst(pre) + [t2] + inst(post)
                        for s in new:
                            ast.copy_location(s, st) if not hasattr(
                                s, "lineno") else None
                            ast.fix_missing_locations(s)
                        c.fn._inlined_helper = True
                        out.extend(new)
                        continue
            out.append(st)
        return out

    def func(fn, cls):
        names = {n.id for n in ast.walk(fn) if isinstance(n, ast.Name)} | {
            a.arg for a in ast.walk(fn) if isinstance(a, ast.arg)}
        fn.body = block(fn.body, cls, names)
    for st in tree.body:
        if isinstance(st, ast.FunctionDef) and (None, st.name) not in cms:
            func(st, None)
        elif isinstance(st, ast.ClassDef):
            for m in st.body:
                if isinstance(m, ast.FunctionDef) and \
                        (st.name, m.name) not in cms:
                    func(m, st.name)


def _wrapper_decorators(tree):
    """module-level `def deco(f): [@wraps(f)] def w(..): ...; return w`"""
    out = {}
    for st in tree.body:
        if not isinstance(st, ast.FunctionDef) or st.decorator_list or \
                len(st.args.args) != 1 or st.args.vararg or st.args.kwarg:
            continue
        body = [s for s in st.body if not (isinstance(s, ast.Expr)
                                           and isinstance(s.value,
                                                          ast.Constant))]
        if len(body) == 2 and isinstance(body[0], ast.FunctionDef) and \
                isinstance(body[1], ast.Return) and isinstance(
                    body[1].value, ast.Name) and \
                body[1].value.id == body[0].name and all(
                    norm(d).startswith(("functools.wraps(", "wraps("))
                    for d in body[0].decorator_list) and \
                not body[0].args.vararg and not body[0].args.kwarg:
            out[st.name] = (st.args.args[0].arg, body[0])
    return out


def _inline_decorators(tree):
    """`@deco def f(self): B`  ->  `def f(self): <wrapper body calling
    self._f__undecorated()>` plus the private `_f__undecorated` (which the
    helper inliner then folds back in)"""
    decos = _wrapper_decorators(tree)
    if not decos:
        return

    def handle(container, in_class):
        new_body = []
        for g in container.body:
            new_body.append(g)
            if not isinstance(g, ast.FunctionDef):
                continue
            hit = [d for d in g.decorator_list if isinstance(d, ast.Name)
                   and d.id in decos]
            if len(hit) != 1:
                continue
            mname, w = decos[hit[0].id]
            gp = [a.arg for a in g.args.args]
            wp = [a.arg for a in w.args.args]
            if len(gp) != len(wp) or g.args.vararg or g.args.kwarg or \
                    g.args.kwonlyargs or w.args.kwonlyargs:
                continue
            orig = ast.FunctionDef(
                name=f"_{g.name}__undecorated", args=clone(g.args),
                body=g.body, decorator_list=[d for d in g.decorator_list
                                             if d is not hit[0]
                                             and norm(d) not in (
                                                 "staticmethod",)],
                returns=None, type_comment=None, type_params=[])
            ast.copy_location(orig, g)
            if orig.decorator_list:
                continue
            doc = [s for s in g.body[:1] if isinstance(s, ast.Expr)
                   and isinstance(s.value, ast.Constant)
                   and isinstance(s.value.value, str)]
            orig.body = g.body[len(doc):] or [ast.Pass()]
            ren = dict(zip(wp, gp))

            class R(ast.NodeTransformer):
                def visit_Name(self, node):
                    if node.id in ren:
                        return ast.copy_location(ast.Name(
                            id=ren[node.id], ctx=node.ctx), node)
                    return node

                def visit_Call(self, node):
                    self.generic_visit(node)
                    if isinstance(node.func, ast.Name) and \
                            node.func.id == mname:
                        if in_class and node.args:
                            node.func = ast.Attribute(
                                value=node.args[0], attr=orig.name,
                                ctx=ast.Load())
                            node.args = node.args[1:]
                        else:
                            node.func = ast.Name(id=orig.name,
                                                 ctx=ast.Load())
                    return node
            wbody = [R().visit(clone(s)) for s in w.body
                     if not (isinstance(s, ast.Expr) and isinstance(
                         s.value, ast.Constant))]
            g.body = doc + wbody
            g.decorator_list = [d for d in g.decorator_list
                                if d is not hit[0]]
            new_body.append(orig)
            ast.fix_missing_locations(g)
            ast.fix_missing_locations(orig)
        container.body = new_body
    handle(tree, False)
    for st in tree.body:
        if isinstance(st, ast.ClassDef):
            handle(st, True)


# private methods the rules name, with the role that identifies them when a
# maintainer has renamed them: (class, canonical name) -> predicate(source)
_ANCHOR_ROLES = {
    ("IndentationFitter", "_fit"): lambda t: "lmfit.minimize(" in t,
    ("IndentationFitter", "_hash"): lambda t: "hashlib." in t,
    ("NaniteFitModel", "_module_check"):
        lambda t: "raise ModelIncompleteError(" in t,
    ("NaniteFitModel", "_module_autocomplete"):
        lambda t: "get_default_residuals_wrapper" in t,
    ("IndentationRater", "_rate"): lambda t: ".predict(" in t,
    ("IndentationRater", "_pre_rate"):
        lambda t: " == 0" in t and ".predict(" not in t
        and "compute_features" not in t and "def " in t
        and t.count("\n") < 14,
    ("RateManager", "_get_samples"): lambda t: "compute_features(" in t,
}


def _restore_anchor_names(tree):
    """A renamed private anchor method is given its canonical name back
    (definition and `self.<name>` uses in this module), identified by its
    role.  Only when the canonical name is absent and exactly one private
    method of the class plays the role."""
    for cls in tree.body:
        if not isinstance(cls, ast.ClassDef):
            continue
        wanted = {n: pred for (c, n), pred in _ANCHOR_ROLES.items()
                  if c == cls.name}
        if not wanted:
            continue
        meths = {m.name: m for m in cls.body
                 if isinstance(m, ast.FunctionDef)}
        for canon, pred in wanted.items():
            if canon in meths:
                continue
            cands = []
            for name, m in meths.items():
                if not name.startswith("_") or name.startswith("__") or \
                        name in wanted:
                    continue
                try:
                    m2 = clone(m)
                    if m2.body and isinstance(m2.body[0], ast.Expr) and \
                            isinstance(m2.body[0].value, ast.Constant) and \
                            isinstance(m2.body[0].value.value, str):
                        m2.body = m2.body[1:] or [ast.Pass()]
                    txt = ast.unparse(m2)
                except Exception:
                    continue
                if pred(txt):
                    cands.append(m)
            if len(cands) != 1:
                continue
            old = cands[0].name
            cands[0].name = canon
            cands[0]._renamed_from = old
            for n in ast.walk(tree):
                if isinstance(n, ast.Attribute) and n.attr == old and \
                        isinstance(n.value, ast.Name) and n.value.id in (
                            "self", "cls", cls.name):
                    n.attr = canon


_VALUE_METHODS = {}


def _namedtuples(tree):
    """module-level `T = namedtuple("T", "a b c" | [..])` -> {T: fields}"""
    out = {}
    for st in tree.body:
        if isinstance(st, ast.Assign) and len(st.targets) == 1 and \
                isinstance(st.targets[0], ast.Name) and isinstance(
                    st.value, ast.Call) and norm(st.value.func) in (
                    "collections.namedtuple", "namedtuple") and \
                len(st.value.args) >= 2:
            f = st.value.args[1]
            fields = None
            if isinstance(f, ast.Constant) and isinstance(f.value, str):
                fields = f.value.replace(",", " ").split()
            elif isinstance(f, (ast.List, ast.Tuple)) and all(
                    isinstance(e, ast.Constant) for e in f.elts):
                fields = [e.value for e in f.elts]
            if fields:
                out[st.targets[0].id] = fields
        # class syntax: typing.NamedTuple / a private dataclass whose body
        # only declares fields (no defaults needed for scalarisation)
        if isinstance(st, ast.ClassDef) and st.name.startswith("_"):
            is_nt = any(norm(b).split(".")[-1] == "NamedTuple"
                        for b in st.bases)
            is_dc = any(norm(d.func if isinstance(d, ast.Call) else d
                             ).split(".")[-1] == "dataclass"
                        for d in st.decorator_list)
            if not (is_nt or is_dc):
                continue
            fields = []
            methods = {}
            ok = True
            for b in st.body:
                if isinstance(b, ast.AnnAssign) and isinstance(
                        b.target, ast.Name):
                    fields.append(b.target.id)
                elif isinstance(b, ast.Expr) and isinstance(b.value,
                                                            ast.Constant):
                    continue
                elif isinstance(b, ast.Pass):
                    continue
                elif isinstance(b, ast.FunctionDef) and not b.decorator_list \
                        and b.args.args and not b.args.vararg and \
                        not b.args.kwarg and not b.args.defaults and \
                        _single_expr(b) is not None:
                    # a pure accessor/converter: `return <expr over self>`
                    methods[b.name] = b
                else:
                    ok = False      # anything else: keep the object
            if ok and fields:
                out[st.name] = fields
                if methods:
                    _VALUE_METHODS[st.name] = methods
    return out


def _scalarise_records(fn, types):
    """`r = T(a=ea, b=eb)` ... `r.a`  ->  `r__a = ea; r__b = eb` ... `r__a`
    when r is bound once and only ever read field by field"""
    cands = {}
    holder = {}
    for par in [fn] + [n for n in _own_nodes(fn)]:
        for fld in ("body", "orelse", "finalbody"):
            blk = getattr(par, fld, None)
            if isinstance(blk, list):
                for st in blk:
                    if isinstance(st, ast.Assign) and len(st.targets) == 1 \
                            and isinstance(st.targets[0], ast.Name) and \
                            isinstance(st.value, ast.Call) and isinstance(
                                st.value.func, ast.Name) and \
                            st.value.func.id in types:
                        cands.setdefault(st.targets[0].id, []).append(st)
                        holder[id(st)] = (par, fld)
    # method calls of value objects -> the method's expression
    for name, sts in cands.items():
        if len(sts) != 1:
            continue
        meths = _VALUE_METHODS.get(sts[0].value.func.id)
        if not meths:
            continue
        for c in [n for n in ast.walk(fn) if isinstance(n, ast.Call)
                  and isinstance(n.func, ast.Attribute)
                  and isinstance(n.func.value, ast.Name)
                  and n.func.value.id == name and n.func.attr in meths]:
            m = meths[c.func.attr]
            params = [a.arg for a in m.args.args]
            if c.keywords or len(c.args) != len(params) - 1:
                continue
            mapping = dict(zip(params[1:], c.args))
            mapping[params[0]] = ast.Name(id=name, ctx=ast.Load())
            expr = _Subst(mapping, {}).visit(clone(_single_expr(m)))
            ast.copy_location(expr, c)
            ast.fix_missing_locations(expr)
            _replace_node(fn, c, expr)
    for name, sts in cands.items():
        if len(sts) != 1:
            continue
        st = sts[0]
        nstores = sum(1 for n in _own_nodes(fn) if isinstance(n, ast.Name)
                      and n.id == name and isinstance(n.ctx, (ast.Store,
                                                              ast.Del)))
        if nstores != 1:
            continue
        fields = types[st.value.func.id]
        call = st.value
        if any(isinstance(a, ast.Starred) for a in call.args) or any(
                k.arg is None for k in call.keywords) or \
                len(call.args) > len(fields):
            continue
        vals = dict(zip(fields, call.args))
        vals.update({k.arg: k.value for k in call.keywords})
        if set(vals) != set(fields):
            continue
        uses = [n for n in ast.walk(fn) if isinstance(n, ast.Name)
                and n.id == name and isinstance(n.ctx, ast.Load)]
        attr_uses = [n for n in ast.walk(fn) if isinstance(n, ast.Attribute)
                     and isinstance(n.value, ast.Name) and n.value.id == name
                     and n.attr in fields and isinstance(n.ctx, ast.Load)]
        if len(uses) != len(attr_uses) or not uses:
            continue
        for a in attr_uses:
            _replace_node(fn, a, ast.Name(id=f"{name}__{a.attr}",
                                          ctx=ast.Load()))
        new = [ast.copy_location(ast.Assign(
            targets=[ast.Name(id=f"{name}__{f_}", ctx=ast.Store())],
            value=vals[f_]), st) for f_ in fields]
        par, fld = holder[id(st)]
        blk = getattr(par, fld)
        i = [k for k, s in enumerate(blk) if s is st][0]
        setattr(par, fld, blk[:i] + new + blk[i + 1:])
    ast.fix_missing_locations(fn)


def _self_chain(e):
    """`self.a.b` -> 'self.a.b' (attribute chains rooted at self only)"""
    parts = []
    while isinstance(e, ast.Attribute):
        parts.append(e.attr)
        e = e.value
    if isinstance(e, ast.Name) and e.id == "self" and parts:
        return "self." + ".".join(reversed(parts))
    return None


def _self_aliases(fn):
    """`fp = self.fit_properties` ... `fp[k]`  ->  `self.fit_properties[k]`:
    a local bound once to an attribute chain of self is replaced by the
    chain, provided the chain is not re-bound before the last use."""
    if not fn.args.args or fn.args.args[0].arg != "self":
        return
    params = {a.arg for a in fn.args.posonlyargs + fn.args.args
              + fn.args.kwonlyargs}
    stores = {}
    assigns = {}
    holder = {}
    for par in [fn] + [n for n in _own_nodes(fn)]:
        for fld in ("body", "orelse", "finalbody"):
            blk = getattr(par, fld, None)
            if isinstance(blk, list):
                for st in blk:
                    if isinstance(st, ast.Assign) and len(st.targets) == 1 \
                            and isinstance(st.targets[0], ast.Name) and \
                            _self_chain(st.value):
                        assigns.setdefault(st.targets[0].id, []).append(st)
                        holder[id(st)] = (par, fld)
    for n in _own_nodes(fn):
        if isinstance(n, ast.Name) and isinstance(n.ctx, (ast.Store,
                                                          ast.Del)):
            stores[n.id] = stores.get(n.id, 0) + 1
    chain_stores = []
    for n in _own_nodes(fn):
        if isinstance(n, ast.Attribute) and isinstance(
                n.ctx, (ast.Store, ast.Del)):
            c = _self_chain(n)
            if c:
                chain_stores.append((c, n.lineno))
    for name, sts in assigns.items():
        if len(sts) != 1 or stores.get(name, 0) != 1 or name in params:
            continue
        st = sts[0]
        chain = _self_chain(st.value)
        uses = [n for n in _own_nodes(fn) if isinstance(n, ast.Name)
                and n.id == name and isinstance(n.ctx, ast.Load)]
        # nested functions/lambdas capturing the alias: leave it alone
        captured = any(isinstance(n, ast.Name) and n.id == name
                       for sub_ in _own_nodes(fn)
                       if isinstance(sub_, (ast.FunctionDef, ast.Lambda))
                       for n in ast.walk(sub_))
        if captured or not uses:
            continue
        last = max(u.lineno for u in uses)
        first = min(u.lineno for u in uses)
        if first < st.lineno:
            continue
        if any((c == chain or chain.startswith(c + "."))
               and st.lineno <= ln <= last for c, ln in chain_stores):
            continue
        for u in uses:
            _replace_node(fn, u, clone(st.value))
        par, fld = holder[id(st)]
        setattr(par, fld, [s for s in getattr(par, fld) if s is not st]
                or [ast.Pass()])
    ast.fix_missing_locations(fn)


def normalize_module(tree: ast.Module, extern=None) -> ast.Module:
    from . import normalize2 as _n2
    _n2.singledispatch_to_chain(tree)
    _n2.dissolve_namespace_classes(tree)
    _n2.adopt_static_functions(tree)
    _n2.flatten_private_bases(tree)
    _n2.inline_private_properties(tree)
    tree = _n2.MatchToIf().visit(tree)
    ast.fix_missing_locations(tree)
    from . import staticeval
    attr_consts = staticeval.fold_module_tables(tree)
    if attr_consts or getattr(tree, "_static_env", None):
        tree = _AttrConstInline(attr_consts, getattr(
            tree, "_static_env", None)).visit(tree)
        ast.fix_missing_locations(tree)
    scal, coll = module_constants(tree)
    if extern:
        # constants imported from a sibling module (unless re-bound here)
        rebound = _rebound_names(tree)
        for k, v in extern.items():
            if k not in scal and k not in rebound:
                scal[k] = v
    if scal:
        tree = _ConstInline(scal).visit(tree)
    if coll:
        # s.startswith(NAMES) / s.endswith(NAMES) with a module-level tuple
        # of strings -> the tuple itself (split into alternatives below)
        for c in ast.walk(tree):
            if isinstance(c, ast.Call) and isinstance(
                    c.func, ast.Attribute) and c.func.attr in (
                    "startswith", "endswith") and len(c.args) == 1 and \
                    isinstance(c.args[0], ast.Name) and \
                    c.args[0].id in coll and isinstance(
                        coll[c.args[0].id], ast.Tuple) and all(
                        isinstance(e, ast.Constant) and isinstance(
                            e.value, str) for e in coll[c.args[0].id].elts):
                c.args[0] = ast.copy_location(clone(coll[c.args[0].id]),
                                              c.args[0])
    if coll:
        # enumerate(NAMES) / zip(NAMES, ..) over a module-level literal tuple
        # of constants -> over the tuple itself (unrolled further below)
        for c in ast.walk(tree):
            if isinstance(c, ast.Call) and norm(c.func) in (
                    "enumerate", "zip") and not c.keywords:
                for i_, a_ in enumerate(c.args):
                    if isinstance(a_, ast.Name) and a_.id in coll and \
                            isinstance(coll[a_.id], ast.Tuple) and len(
                                coll[a_.id].elts) <= 12 and all(
                                isinstance(e, ast.Constant)
                                for e in coll[a_.id].elts):
                        c.args[i_] = ast.copy_location(
                            clone(coll[a_.id]), a_)
        ast.fix_missing_locations(tree)
    # NAME = frozenset({"a", "b"}) / {"a", "b"} (module level, bound once):
    # the literal set where it is intersected with keys or tested with
    # isdisjoint/intersection
    ssets = {}
    for st in tree.body:
        if isinstance(st, ast.Assign) and len(st.targets) == 1 and \
                isinstance(st.targets[0], ast.Name):
            v = st.value
            if isinstance(v, ast.Call) and norm(v.func) in (
                    "frozenset", "set") and len(v.args) == 1 and \
                    not v.keywords:
                v = v.args[0]
            if isinstance(v, (ast.Set, ast.Tuple, ast.List)) and v.elts and \
                    all(isinstance(e, ast.Constant) and isinstance(
                        e.value, str) for e in v.elts) and isinstance(
                    st.value, (ast.Set, ast.Call)):
                nm = st.targets[0].id
                if sum(1 for n in ast.walk(tree) if isinstance(n, ast.Name)
                       and n.id == nm and isinstance(
                           n.ctx, (ast.Store, ast.Del))) == 1:
                    ssets[nm] = ast.Set(elts=list(v.elts))
    if ssets:
        for n in ast.walk(tree):
            if isinstance(n, ast.BinOp) and isinstance(n.op, ast.BitAnd):
                for fld in ("left", "right"):
                    x = getattr(n, fld)
                    if isinstance(x, ast.Name) and x.id in ssets:
                        setattr(n, fld, ast.copy_location(
                            clone(ssets[x.id]), x))
            if isinstance(n, ast.Call) and isinstance(
                    n.func, ast.Attribute) and n.func.attr in (
                    "isdisjoint", "intersection") and isinstance(
                    n.func.value, ast.Name) and n.func.value.id in ssets:
                n.func.value = ast.copy_location(
                    clone(ssets[n.func.value.id]), n.func.value)
        ast.fix_missing_locations(tree)
    # NAME = {"k": operator.mul, "l": some_function} (module level, bound
    # once, never edited): NAME["k"] -> the function
    bound_, count_ = {}, {}
    for st in tree.body:
        if isinstance(st, ast.Assign) and len(st.targets) == 1 and \
                isinstance(st.targets[0], ast.Name):
            count_[st.targets[0].id] = count_.get(st.targets[0].id, 0) + 1
            bound_[st.targets[0].id] = st.value
    ftabs = {}
    for nm, v in bound_.items():
        if count_[nm] == 1 and isinstance(v, ast.Dict) and v.keys and all(
                k is not None and isinstance(k, ast.Constant)
                for k in v.keys) and all(isinstance(
                    x, (ast.Name, ast.Attribute)) for x in v.values):
            edited = any(
                (isinstance(n, ast.Subscript) and isinstance(
                    n.ctx, (ast.Store, ast.Del)) and isinstance(
                    n.value, ast.Name) and n.value.id == nm)
                or (isinstance(n, ast.Call) and isinstance(
                    n.func, ast.Attribute) and isinstance(
                    n.func.value, ast.Name) and n.func.value.id == nm
                    and n.func.attr in _MUT_METHODS)
                or (isinstance(n, ast.Name) and n.id == nm and isinstance(
                    n.ctx, (ast.Store, ast.Del)) and n is not None
                    and sum(1 for m_ in ast.walk(tree) if isinstance(
                        m_, ast.Name) and m_.id == nm and isinstance(
                        m_.ctx, ast.Store)) > 1)
                for n in ast.walk(tree))
            if not edited:
                ftabs[nm] = {k.value: x for k, x in zip(v.keys, v.values)}
    if ftabs:
        class _FT(ast.NodeTransformer):
            def visit_Subscript(self, node):
                self.generic_visit(node)
                if isinstance(node.value, ast.Name) and node.value.id in \
                        ftabs and isinstance(node.ctx, ast.Load) and \
                        isinstance(node.slice, ast.Constant) and \
                        node.slice.value in ftabs[node.value.id]:
                    return ast.copy_location(clone(
                        ftabs[node.value.id][node.slice.value]), node)
                return node
        tree = _FT().visit(tree)
        ast.fix_missing_locations(tree)
        tree._ft = _FT
    _restore_anchor_names(tree)
    _inline_decorators(tree)
    _inline_contextmanagers(tree)
    from . import normalize2 as n2
    n2.sentinel_gets(tree)
    n2.sentinel_get_tests(tree)
    if n2.unused_sentinel_params(tree):
        tree = n2.Idioms3().visit(tree)
        n2.drop_dead_tails(tree)
    n2.unroll_reduce(tree)
    n2.inline_record_tables(tree)
    if n2.inline_value_objects(tree):
        _restore_anchor_names(tree)
    n2.redispatch_loops(tree)
    n2.comprehension_calls_to_loops(tree)
    n2.predicate_loops(tree)
    n2.predicate_guards(tree)
    n2.inline_search_helpers(tree)
    n2.inline_loop_helpers(tree)
    n2.closure_forms(tree)
    n2.lift_local_defs(tree)
    n2.flatten_chain_lists(tree)
    n2.generators_to_lists(tree)
    n2.class_constants(tree)
    for n in ast.walk(tree):
        if isinstance(n, ast.FunctionDef):
            n2.inline_local_defs(n)
            n2.next_loops(n)
            n2.counted_while(n)
            n2.incremental_dicts(n)
            n2.single_use_dicts(n)
            n2.flag_finally(n)
            n2.chainmap_locals(n)
            n2.exitstack_rollback(n)
            n2.exitstack_enter(n)
            _star_dicts(n)
            n2.conditional_arguments(n)
            n2.sink_selected_calls(n)
            n2.specialise_strategies(n)
            while n2.conditional_pipelines(n):
                pass
            n2.inline_pure_flags(n)
            n2.first_match_loops(n)
            n2.local_sorts(n)
    for n in ast.walk(tree):
        if isinstance(n, ast.FunctionDef) and (
                _is_private(n.name) or getattr(n, "_spliced", False)):
            # one-expression local functions of a private worker become
            # lambdas, so that the worker itself can be placed at its calls
            _local_lambdas(n)
    for _round in range(2):
        before = ast.dump(tree) if _round else None
        tree = Inliner(tree).run()
        for n in ast.walk(tree):
            if isinstance(n, ast.FunctionDef):
                # (local functions handed to a worker that is now in place)
                n2.inline_local_defs(n)
                for _ in range(4):
                    if not n2.propagate_local_constants(n):
                        break
                n2.local_partials(n)
                _star_dicts(n)
                n2.conditional_arguments(n)
                n2.fuse_collect_loops(n)
                n2.fuse_collect_into_comprehension(n)
                n2.inline_single_use_generators(n)
                n2.next_loops(n)
        tree = Idioms().visit(tree)
        tree = Idioms2(coll).visit(tree)
        for n in ast.walk(tree):
            if isinstance(n, ast.FunctionDef):
                n2.merge_appends(n)
                n2.literal_iterables(n)
        tree = n2.Idioms3().visit(tree)
        n2.inline_module_lambdas(tree)
        tree = n2.Idioms3().visit(tree)
        for n in ast.walk(tree):
            if isinstance(n, ast.FunctionDef):
                n2.filtered_loops(n)
                n2.scalarise_local_tuples(n)
                n2.split_tuple_assigns(n)
        tree = n2.ItemsLoops().visit(tree)
        for n in ast.walk(tree):
            if isinstance(n, ast.FunctionDef):
                n2.dict_key_loops(n)
        tree = Unroll().visit(tree)
        n2.unroll_reduce(tree)
        n2.sentinel_branches(tree)
        for n in ast.walk(tree):
            if isinstance(n, ast.FunctionDef):
                n2.split_unrolled_locals(n)
        if _round and ast.dump(tree) == before:
            break
        # (a second round folds helpers that only became direct calls
        # after a dispatch loop was unrolled)
    tree = _DeMorganIs().visit(tree)
    n2.sentinel_gets(tree)
    if n2.sentinel_get_tests(tree):
        tree = Idioms().visit(tree)
    for n in ast.walk(tree):
        if isinstance(n, ast.FunctionDef):
            n2.incremental_dicts(n)
            n2.single_use_dicts(n)
            n2.scalarise_local_dicts(n)
            n2.first_match_loops(n)
            if n2.chain_to_appends(n):
                n2.merge_appends(n)
    if getattr(tree, "_ft", None) is not None:
        # (a table key that became a literal once a helper was in place)
        ft_ = tree._ft
        tree = ft_().visit(tree)
        tree._ft = ft_
        ast.fix_missing_locations(tree)
    tree = n2.Idioms3().visit(tree)
    for n in ast.walk(tree):
        if isinstance(n, ast.FunctionDef):
            n2.local_partials(n)
            if n2.fuse_collect_loops(n):
                n2.split_tuple_assigns(n)
            n2.fuse_collect_into_comprehension(n)
            n2.indexed_tuples(n)
    # (records handed to a private helper are local again once the helper
    # was placed at its call site)
    if n2.inline_value_objects(tree):
        tree = Inliner(tree).run()
        tree = n2.Idioms3().visit(tree)
    for n in ast.walk(tree):
        if isinstance(n, ast.FunctionDef):
            n2.bound_method_aliases(n)
            n2.forward_flags(n)
            for _ in range(4):
                if not n2.collapse_aliases(n):
                    break
            n2.merge_equal_definitions(n)
            n2.forward_flags(n)
            if n2.projected_records(n):
                n2.merge_appends(n)
                for _ in range(2):
                    if not n2.collapse_aliases(n):
                        break
    if n2.unroll_reduce(tree):
        # (a table that became a local display once its generator helper
        # was in place)
        tree = Inliner(tree).run()
        for n in ast.walk(tree):
            if isinstance(n, ast.FunctionDef):
                n2.split_tuple_assigns(n)
                for _ in range(4):
                    if not n2.propagate_local_constants(n):
                        break
        tree = n2.Idioms3().visit(tree)
    for n in ast.walk(tree):
        if isinstance(n, ast.FunctionDef):
            n2.propagate_block_function_aliases(n)
            if n2.fuse_collect_loops(n):
                n2.split_tuple_assigns(n)
                n2.collapse_aliases(n)
            if n2.fuse_collect_into_comprehension(n):
                n2.inline_pure_flags(n)
            n2.scalarise_local_dicts(n)
    tree = AttrCalls().visit(tree)
    n2.sort_keywords(tree)
    ntypes = _namedtuples(tree)
    for n in ast.walk(tree):
        if isinstance(n, ast.FunctionDef):
            _local_lambdas(n)
            _self_aliases(n)
            if ntypes:
                _scalarise_records(n, ntypes)
                n2.merge_equal_definitions(n)
    ast.fix_missing_locations(tree)
    return tree
