"""Placeholder until the variant tables are filled in."""


def run(pid, repo, seed=0):
    return {}
