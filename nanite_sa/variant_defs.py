"""Variant self-test for the thorough tier.

Each variant is an in-memory text edit (old -> new, exactly one occurrence)
of one file of the *current* tree; nothing is written to disk and nothing is
executed - the variant is parsed (hence must compile) and the property's
rules are run on it.

* kind "break": a realistic property-breaking edit.  The property's check
  must report at least one *new* failure whose rule id starts with `expect`.
  A break that is not reported means the rule is dead: ANALYSIS-ERROR.
* kind "benign": a behaviour-preserving refactoring.  The check must report
  no new failure and must not become undecided.  A report is a false alarm
  of the checker: ANALYSIS-ERROR as well.

Variants whose `old` text no longer occurs exactly once are skipped and
counted (the tree moved on); they never fail the run.
"""
from __future__ import annotations

import concurrent.futures as cf
import os

from . import report
from .loader import AnchorError, Repo, Undecided

FIT = "src/nanite/fit.py"
IND = "src/nanite/indent.py"
PRE = "src/nanite/preproc.py"
POC = "src/nanite/poc.py"
RES = "src/nanite/model/residuals.py"
FEA = "src/nanite/rate/features.py"
RAT = "src/nanite/rate/rater.py"
RIO = "src/nanite/rate/io.py"
PRO = "src/nanite/cli/profile.py"
CRA = "src/nanite/cli/rating.py"
QMA = "src/nanite/qmap.py"
REA = "src/nanite/read.py"
GRP = "src/nanite/group.py"
LOG = "src/nanite/model/logic.py"
COR = "src/nanite/model/core.py"
SMO = "src/nanite/smooth.py"
REG = "src/nanite/rate/regressors.py"
M_PARA = "src/nanite/model/model_hertz_paraboloidal.py"
M_CONE = "src/nanite/model/model_conical_indenter.py"
M_PYR = "src/nanite/model/model_hertz_three_sided_pyramid.py"
M_SPH = "src/nanite/model/model_sneddon_spherical_approximation.py"
M_CLI = "src/nanite/model/model_power_layer_clifford_2009.py"

B, N = "break", "benign"

V = [
    # ---- C01
    ("C01", B, "drop method", FIT, "method=self.fp[\"method\"],", "", "C01-R3"),
    ("C01", B, "ordinate uses segment mask", FIT,
     "y = self.y_axis[self.fit_range]", "y = self.y_axis[segid]", "C01-R3"),
    ("C01", B, "kwargs unsorted", IND, "for arg in sorted(kwargs.keys()):",
     "for arg in kwargs.keys():", "C01-R1"),
    ("C01", B, "model key after kwargs", IND,
     """        if "model_key" not in self.fit_properties:
            self.fit_properties["model_key"] = FP_DEFAULT["model_key"]

        # (sorted, such that `model_key` is set before `params_initial`)
        for arg in sorted(kwargs.keys()):
            self.fit_properties[arg] = kwargs[arg]
""",
     """        # (sorted, such that `model_key` is set before `params_initial`)
        for arg in sorted(kwargs.keys()):
            self.fit_properties[arg] = kwargs[arg]
        if "model_key" not in self.fit_properties:
            self.fit_properties["model_key"] = FP_DEFAULT["model_key"]
""", "C01-R1"),
    ("C01", B, "contact point guess from height", FIT,
     'cp = idnt["tip position"][cpid]', 'cp = idnt["height (measured)"][cpid]',
     "C01-R1"),
    ("C01", N, "rename locals in _fit", FIT, "        md = model.models_available[model_key]\n",
     "        md = model.models_available[self.fp[\"model_key\"]]\n", ""),
    ("C01", N, "commuted scale factor", FIT,
     'x = self.x_axis[self.fit_range] * self.fp["gcf_k"]',
     'x = self.fp["gcf_k"] * self.x_axis[self.fit_range]', ""),
    # ---- C02
    ("C02", B, "series coefficient 1/840 -> 1/480", M_SPH,
     "- 1/840*(root[pos]/R)**2", "- 1/480*(root[pos]/R)**2", "C02-R"),
    ("C02", B, "exponent 3/2 -> 2", M_PARA, "bb[pos] = (root[pos])**(3/2)",
     "bb[pos] = (root[pos])**(2)", "C02-R1"),
    ("C02", B, "depth sign", M_CONE, "root = contact_point-delta",
     "root = delta-contact_point", "C02-R2"),
    ("C02", B, "baseline dropped", M_PYR, "return aa*bb + baseline",
     "return aa*bb", "C02-R"),
    ("C02", B, "ones_like", M_PARA, "bb = np.zeros_like(delta)",
     "bb = np.ones_like(delta)", "C02-R2"),
    ("C02", B, "degrees not converted", M_CONE, "np.tan(alpha*pi/180)",
     "np.tan(alpha)", "C02-R1"),
    ("C02", B, "Clifford constant", M_CLI, "B_L = 1.92", "B_L = 1.29",
     "C02-R1"),
    ("C02", N, "reordered factors", M_PARA,
     "aa = 4/3 * E/(1-nu**2)*np.sqrt(R)", "aa = np.sqrt(R) * E * 4 / (3 * (1 - nu**2))", ""),
    ("C02", N, "power 1.5", M_PARA, "bb[pos] = (root[pos])**(3/2)",
     "bb[pos] = root[pos]**1.5", ""),
    ("C02", N, "mask >=", M_CONE, "pos = root > 0", "pos = root >= 0", ""),
    ("C02", N, "precomputed ratio", M_SPH,
     """    bb[pos] = (root[pos])**(3/2)*(
        + 1
        - 1/10*(root[pos]/R)
        - 1/840*(root[pos]/R)**2
        + 11/15120*(root[pos]/R)**3
        + 1357/6652800*(root[pos]/R)**4)""",
     """    u = root[pos]/R
    bb[pos] = (root[pos])**(3/2)*(
        1 + u*(-1/10 + u*(-1/840 + u*(11/15120 + u*1357/6652800))))""", ""),
    # ---- C03
    ("C03", B, "drop reset after don't-care", FIT,
     "                # Trigger `self.reset`\n                self.reset()\n",
     "                # Trigger `self.reset`\n                pass\n", "C03-R1"),
    ("C03", B, "fit() writes a setting", FIT,
     "            self.range_x = [dopt, np.max(self.fp[\"range_x\"])]\n",
     "            self.range_x = [dopt, np.max(self.fp[\"range_x\"])]\n"
     "            self.fp[\"range_x\"] = self.range_x\n", "C03-R"),
    ("C03", B, "bypass update in fit_model", IND,
     "        for arg in sorted(kwargs.keys()):\n            self.fit_properties[arg] = kwargs[arg]\n",
     "        for arg in sorted(kwargs.keys()):\n            self.fit_properties[arg] = kwargs[arg]\n"
     "        self._fit_properties.update(kwargs)\n", "C03-R3"),
    ("C03", B, "drop rating reset", IND,
     "            # Reset rating\n            self._rating = None\n",
     "            # Reset rating\n", "C03-R5"),
    ("C03", B, "range not restored", FIT,
     "        self.range_type = range_type\n        self.range_x = range_x\n",
     "        self.range_type = range_type\n", "C03-R6"),
    ("C03", B, "fit without hash test", IND,
     '        if "hash" in self.fit_properties:', '        if False:', "C03-R4"),
    ("C03", B, "range stored in sorted order after the change test", FIT,
     '            value = copy.deepcopy(value)\n        super(FitProperties, self).__setitem__(key, value)\n',
     '            value = copy.deepcopy(value)\n            if key == "range_x":\n                value = sorted(value)\n        super(FitProperties, self).__setitem__(key, value)\n',
     "C03-R13"),
    ("C03", N, "swap hash branches", IND,
     """        if "hash" in self.fit_properties:
            # There is nothing to do, because the initial fit
            # properties are the same.
            pass
        else:
            fitter = IndentationFitter(self)
            # Perform fitting
            # Note: if `fitter.fp["success"]` is `False`, then
            # the `fit_residuals` and `fit_curve` are `nan`.
            fitter.fit()
            self["fit"] = fitter.fit_curve
            self["fit residuals"] = fitter.fit_residuals
            self["fit range"] = fitter.fit_range
            self.fit_properties = fitter.fp
""",
     """        if "hash" not in self.fit_properties:
            fitter = IndentationFitter(self)
            fitter.fit()
            self["fit"] = fitter.fit_curve
            self["fit residuals"] = fitter.fit_residuals
            self["fit range"] = fitter.fit_range
            self.fit_properties = fitter.fp
""", ""),
    ("C03", N, "sorted list beforehand", IND,
     "        for arg in sorted(kwargs.keys()):\n            self.fit_properties[arg] = kwargs[arg]\n",
     "        for arg in sorted(kwargs):\n            self.fit_properties[arg] = kwargs[arg]\n", ""),
    # ---- C04
    ("C04", B, "residual sign", RES, "    resid = force - md\n",
     "    resid = md - force\n", "C04-R3"),
    ("C04", B, "weights from force", RES, "            delta=delta,\n            weight_dist=weight_cp)",
     "            delta=force,\n            weight_dist=weight_cp)", "C04-R3"),
    ("C04", B, "success True in else", FIT,
     '            self.fp["success"] = False\n\n    def fit(self):',
     '            self.fp["success"] = True\n\n    def fit(self):', "C04-R1"),
    ("C04", B, "fit column on fit range only", FIT,
     "            fit_cur[segid] = md.model(fit.params, xseg)",
     "            fit_cur[self.fit_range] = md.model(fit.params, x)", "C04-R"),
    ("C04", B, "swapped columns", IND,
     '            self["fit"] = fitter.fit_curve\n            self["fit residuals"] = fitter.fit_residuals\n',
     '            self["fit"] = fitter.fit_residuals\n            self["fit residuals"] = fitter.fit_curve\n',
     "C04-R2b"),
    ("C04", N, "clip idiom", RES, "    x[x > 1] = 1\n", "    x[x >= 1] = 1\n", ""),
    # ---- C05
    ("C05", B, "open lower bound", FIT, "range_bool[x_data < rmin] = False",
     "range_bool[x_data <= rmin] = False", "C05-R1"),
    ("C05", B, "anchoring sign", FIT, "list(np.array(range_x)+cp)",
     "list(np.array(range_x)-cp)", "C05-R3"),
    ("C05", B, "mask not from segment", FIT,
     "range_bool = self.segment.copy()", "range_bool = np.ones_like(self.segment)", "C05-R1"),
    ("C05", B, "one more sample", FIT,
     "np.linspace(xmin, xmin*.05, num_samp)", "np.linspace(xmin, xmin*.05, num_samp + 1)", "C05-R4"),
    ("C05", B, "xmax not converted", FIT, '"xmax": x.max() / self.fp["gcf_k"],',
     '"xmax": x.max(),', "C05-R2b"),
    ("C05", B, "working range sorted at construction", FIT,
     '        self.range_x = list(self.fp["range_x"])\n',
     '        self.range_x = sorted(self.fp["range_x"])\n', "C05-R9"),
    ("C05", N, "working range copied with copy.copy", FIT,
     '        self.range_x = list(self.fp["range_x"])\n',
     '        self.range_x = list(copy.copy(self.fp["range_x"]))\n', ""),
    ("C05", N, "and-form mask", FIT,
     "                range_bool[x_data < rmin] = False\n                range_bool[x_data > rmax] = False\n",
     "                range_bool &= (x_data >= rmin) & (x_data <= rmax)\n", ""),
    # ---- C06
    ("C06", B, "reset only when steps", PRE,
     "    apret.reset_data()\n    try:",
     "    if identifiers:\n        apret.reset_data()\n    try:", "C06-R1"),
    ("C06", B, "failed pipeline keeps edited columns", PRE,
     "        # Do not leave a partially preprocessed dataset behind.\n"
     "        apret.reset_data()\n        raise\n",
     "        raise\n", "C06-R9"),
    ("C06", B, "memo kept on failure", IND,
     '            fp.pop("preprocessing", None)\n            fp.pop("preprocessing_options", None)\n', "",
     "C06-R3"),
    ("C06", B, "options not compared", IND,
     "        if ((preproc_past != [preprocessing, options])",
     "        if ((preproc_past[:1] != [preprocessing])", "C06-R6"),
    ("C06", B, "step reads history", PRE,
     '    idp = poc.compute_poc(force=apret["force"],\n                          method="deviation_from_baseline")\n    if idp:',
     '    idp = poc.compute_poc(force=apret["force"],\n                          method=apret.fit_properties.get("poc", "deviation_from_baseline"))\n    if idp:',
     "C06-R5"),
    ("C06", B, "shallow copy of options", IND,
     "        self.preprocessing_options = copy.deepcopy(options)",
     "        self.preprocessing_options = copy.copy(options)", "C06-R4"),
    ("C05", B, "range request dropped under the plateau search", FIT,
     "                        super(FitProperties, self).__setitem__(\n"
     "                            key, copy.deepcopy(value))\n"
     "                        return\n",
     "                        return\n", "C05-R5"),
    ("C12", B, "hash keys on the second range entry", FIT,
     '                hashlist.append(max(self.fp["range_x"]))',
     '                hashlist.append(self.fp["range_x"][1])', "C12-R6"),
    ("C06", B, "options-only request not applied", IND,
     '        if "preprocessing" in kwargs or "preprocessing_options" in kwargs:',
     '        if "preprocessing" in kwargs:', "C06-R10"),
    ("C06", N, "list() instead of copy.copy", IND,
     "        self.preprocessing = copy.copy(preprocessing)",
     "        self.preprocessing = list(preprocessing)", ""),
    # ---- C07
    ("C07", B, "tip offset writes force", PRE,
     '    apret["tip position"] = (apret["tip position"]\n                             - apret["tip position"][cpid])',
     '    apret["force"] = (apret["tip position"]\n                             - apret["tip position"][cpid])',
     "C07-R"),
    ("C07", B, "no anchoring", PRE,
     "        force_edit[:idp] -= out.best_fit - out.best_fit[-1]",
     "        force_edit[:idp] -= out.best_fit", "C07-R2"),
    ("C07", B, "two switches", PRE, "        segment[idturn:] = 1\n",
     "        segment[idturn:] = 1\n        segment[:idp] = 1\n", "C07-R2"),
    ("C07", B, "k multiplied", PRE, "zcant + force / k", "zcant + force * k", "C07-R2"),
    ("C07", N, "np.mean", PRE, 'np.average(apret["force"][:idp])',
     'np.mean(apret["force"][:idp])', ""),
    # ---- C08
    ("C08", B, "no normalisation", POC,
     "        y = (force - fmin) / fptp\n        x = np.arange(y.size)\n        # get estimate for cp",
     "        y = force - fmin\n        x = np.arange(y.size)\n        # get estimate for cp", "C08-R1"),
    ("C08", B, "absolute threshold", POC, "thresh = 0.01 * np.max(gradn)",
     "thresh = 1e-12", "C08-R1"),
    ("C08", B, "fallback removed", POC,
     "    if np.isnan(cp) or not 0 <= cp < force.size:\n"
     "        # (a fitted contact point outside of the data is not a result)\n"
     "        cp = force.size // 2\n", "", "C08-R2"),
    ("C08", B, "out-of-range index returned as is", POC,
     "    if np.isnan(cp) or not 0 <= cp < force.size:\n",
     "    if np.isnan(cp):\n", "C08-R5"),
    ("C08", B, "frechet guard removed", POC, "    if force.size < 2:",
     "    if False:", "C08-R3"),
    ("C08", B, "constant-data guard removed", POC,
     "    if force.size > 4 and np.max(force) > np.min(force):  # 3 fit parameters",
     "    if force.size > 4:  # 3 fit parameters", "C08-R6"),
    ("C08", B, "zero index as divisor", POC,
     "        params.add('m', value=y[x0]/max(x0, 1))",
     "        params.add('m', value=y[x0]/x0)", "C08-R6"),
    ("C08", N, "method form of max", POC,
     "bl_rng = np.max(np.abs(baseline - bl_avg)) * 2",
     "bl_rng = 2 * np.abs(baseline - bl_avg).max()", ""),
    # ---- C09
    ("C09", B, "lda not compared", IND, "              self._rating[4] != lda):",
     "              False):", "C09-R2"),
    ("C09", B, "unseeded extra trees", REG,
     '         "n_estimators": 100,\n         "random_state": 42,\n         }\n    ],\n    "Gradient',
     '         "n_estimators": 100,\n         }\n    ],\n    "Gradient', "C09-R4"),
    ("C09", B, "arithmetic on rating", IND, "rt = rater.rate(datasets=self)[0]",
     "rt = rater.rate(datasets=self)[0] * 1", "C09-R3"),
    ("C09", B, "unguarded success", FEA,
     'return self.dataset.fit_properties.get("success", False)',
     'return self.dataset.fit_properties["success"]', "C09-R1"),
    ("C09", B, "length assertion on the approach data", FEA,
     '        y = self.dataset[yaxis][seg].copy()\n        return y\n',
     '        y = self.dataset[yaxis][seg].copy()\n        assert y.size > 10, "approach part too short"\n        return y\n',
     "C09-R7"),
    ("C09", B, "contact point read under another predicate", FEA,
     '        Sudden spikes in indentation curve\n        """\n        if self.has_contact_point:\n',
     '        Sudden spikes in indentation curve\n        """\n        if self.is_valid:\n', "C09-R7"),
    ("C09", N, "contact point accessor as guard clause", FEA,
     '        if self.has_contact_point:\n            pint = self.dataset.fit_properties["params_fitted"]\n            return pint["contact_point"].value\n        else:\n            raise ValueError("No contact point in data!")\n',
     '        if not self.has_contact_point:\n            raise ValueError("No contact point in data!")\n        pint = self.dataset.fit_properties["params_fitted"]\n        return pint["contact_point"].value\n', ""),
    ("C09", B, "second unguarded combination of a selection", RAT,
     '        response = np.loadtxt(resp_path, dtype=float)\n',
     '        response = np.loadtxt(resp_path, dtype=float)\n        _widths = np.hstack([np.loadtxt(sp, dtype=float, ndmin=2).shape[1] for sp in sample_paths])\n',
     "C09-R8"),
    ("C09", N, "in-test instead of get", FEA,
     'return self.dataset.fit_properties.get("success", False)',
     'return ("success" in self.dataset.fit_properties\n'
     '                    and self.dataset.fit_properties["success"])', ""),
    # ---- C10
    ("C10", B, "weights in place", RES, "    x = np.abs(delta-cp)\n",
     "    x = delta\n    x -= cp\n", "C10-R1"),
    ("C10", B, "autosort mutates argument", PRE,
     "    sorted_identifiers = copy.copy(identifiers)",
     "    sorted_identifiers = identifiers", "C10-R1"),
    ("C10", B, "settings by reference", FIT,
     "            value = copy.deepcopy(value)\n", "            pass\n", "C10-R2"),
    ("C10", B, "hand out stored params", IND,
     'parms = copy.deepcopy(self.fit_properties["params_initial"])',
     'parms = self.fit_properties["params_initial"]', "C10-R3"),
    ("C10", B, "scale stored guess", FIT,
     'params_initial = copy.deepcopy(self.fp["params_initial"])',
     'params_initial = self.fp["params_initial"]', "C10-R4"),
    ("C10", N, "list copy", PRE, "    sorted_identifiers = copy.copy(identifiers)",
     "    sorted_identifiers = list(identifiers)", ""),
    # ---- C11
    ("C11", B, "cp not converted back", FIT,
     '            fit.params["contact_point"].set(value=cpf / self.fp["gcf_k"])\n', "", "C11-R1"),
    ("C11", B, "segment abscissa unscaled", FIT,
     'xseg = self.x_axis[segid] * self.fp["gcf_k"]', "xseg = self.x_axis[segid]", "C11-R1"),
    ("C11", B, "cp divided", FIT, 'set(value=cpi * self.fp["gcf_k"])',
     'set(value=cpi / self.fp["gcf_k"])', "C11-R1"),
    ("C11", N, "named factor", FIT,
     '        xseg = self.x_axis[segid] * self.fp["gcf_k"]',
     '        xseg = self.fp["gcf_k"] * self.x_axis[segid]', ""),
    # ---- C12
    ("C12", B, "gcf_k not hashed", FIT,
     "            else:\n                hashlist.append(self.fp[key])",
     "            elif key != \"gcf_k\":\n                hashlist.append(self.fp[key])", "C12-R1"),
    ("C12", B, "y axis not hashed", FIT, "        hashlist.append(self.y_axis)\n", "", "C12-R1"),
    ("C12", B, "dict unsorted", FIT, "return obj2bytes(sorted(obj.items()))",
     "return obj2bytes(list(obj.items()))", "C12-R2"),
    ("C12", B, "repr fallback", FIT,
     '        raise ValueError("No rule to convert object \'{}\' to string.".\n                         format(obj.__class__))',
     "        return repr(obj).encode()", "C12-R"),
    ("C12", B, "no length prefix", FIT,
     'return b"".join(str(len(it)).encode("utf-8") + b":" + it\n                        for it in items)',
     'return b"".join(items)', "C12-R4"),
    ("C12", N, "sorted keys", FIT, "        for key in FP_DEFAULT:\n            if (key == \"range_x\"",
     "        for key in sorted(FP_DEFAULT):\n            if (key == \"range_x\"", ""),
    # ---- C13
    ("C13", B, "output not reversed", RES,
     "    if revert:\n        return mf[::-1]\n    else:\n        return mf",
     "    return mf", "C13-R1"),
    ("C13", B, "default residual overwritten", COR,
     '        if not hasattr(self.module, "residual"):', "        if True:", "C13-R2"),
    ("C13", B, "cone mutates delta", M_CONE, "    root = contact_point-delta\n",
     "    delta -= contact_point\n    root = -delta\n", "C13-R3"),
    ("C13", N, "np.flip", RES, "        delta = delta[::-1]\n", "        delta = np.flip(delta)\n", ""),
    # ---- C14
    ("C14", B, "no post check", PRE,
     "    # Perform a sanity check\n    check_order(sorted_identifiers)\n", "", "C14-R3"),
    ("C14", B, "insert without remove", PRE,
     "                    sorted_identifiers.remove(step)\n", "", "C14-R2"),
    ("C14", B, "repetition never stops early", PRE,
     "        if not moved:\n            break\n", "", "C14-R6"),
    ("C14", B, "flag not reset per pass", PRE,
     "        moved = False\n        for pid in identifiers:",
     "        for pid in identifiers:", "C14-R6"),
    ("C14", B, "unknown optional", PRE,
     'steps_optional=["correct_force_slope"]\n                    )\ndef preproc_correct_force_offset',
     'steps_optional=["correct_slope"]\n                    )\ndef preproc_correct_force_offset', "C14-R1"),
    ("C14", B, "prefix includes current", PRE, "            act = identifiers[:ii]",
     "            act = identifiers", "C14-R4"),
    ("C14", N, "subset operator", PRE,
     "            if req is not None and ((set(req) & set(act)) != set(req)):",
     "            if req is not None and not set(req) <= set(act):", ""),
    ("C14", B, "default options dereferenced", PRE,
     "    if options is None:\n        options = {}\n    details = {}", "    details = {}",
     "C14-RN"),
    # ---- C15
    ("C15", B, "response not filtered", RAT,
     "            # remove corresponding responses\n            response = response[valid]\n", "", "C15-R1"),
    ("C15", B, "impute all nan rows", RAT,
     "                coloc = np.logical_and(resp0, fnans)", "                coloc = fnans", "C15-R2"),
    ("C15", B, "neg inf positive", RAT, "samples[neginf, ii] = -2 * extreme",
     "samples[neginf, ii] = 2 * extreme", "C15-R2"),
    ("C15", B, "export other format", RIO,
     'np.savetxt(upath, user.flatten(), fmt="%.2e")', 'np.savetxt(upath, user.flatten(), fmt="%.1f")', "C15-R4"),
    ("C15", B, "weights not normalised", RAT, "        weight /= np.sum(weight)\n", "", "C15-R5"),
    ("C15", B, "response read without a dimension (F37)", RAT,
     "        response = np.loadtxt(resp_path, dtype=float, ndmin=1)\n",
     "        response = np.loadtxt(resp_path, dtype=float)\n", "C15-R7"),
    ("C15", N, "response wrapped in atleast_1d", RAT,
     "        response = np.loadtxt(resp_path, dtype=float, ndmin=1)\n",
     "        response = np.atleast_1d(np.loadtxt(resp_path, dtype=float))\n", ""),
    ("C15", N, "any-form mask", RAT,
     "valid = ~np.array(np.sum(np.isnan(samples), axis=1), dtype=bool)",
     "valid = ~np.any(np.isnan(samples), axis=1)", ""),
    # ---- C16
    ("C16", B, "segment not stored", RIO,
     '            out.create_dataset("segment",\n                               data=indent["segment"][...],\n                               **dkw)\n', "", "C16-R1"),
    ("C16", B, "marker test removed", RIO,
     'if "fit" not in h5gr or "user rate" not in h5gr.attrs:', 'if "fit" not in h5gr:', "C16-R4"),
    ("C16", B, "default tolerance", RIO, "                               atol=0, equal_nan=True):",
     "                               equal_nan=True):", "C16-R3"),
    ("C16", B, "range_x via json on one side", RIO,
     '                    val = str(tuple(float(v) for v in val))\n',
     '                    val = json.dumps(val)\n', "C16-R1"),
    ("C16", B, "range_x text of the caller's numbers (F34)", RIO,
     '                    val = str(tuple(float(v) for v in val))\n',
     '                    val = str(val)\n', "C16-R8"),
    ("C16", N, "range_x formatted from converted numbers", RIO,
     '                    val = str(tuple(float(v) for v in val))\n',
     '                    val = "({!r}, {!r})".format(float(val[0]), float(val[1]))\n', ""),
    ("C16", B, "range_x formatted from the caller's numbers", RIO,
     '                    val = str(tuple(float(v) for v in val))\n',
     '                    val = "({!r}, {!r})".format(val[0], val[1])\n', "C16-R8"),
    ("C16", N, "range_x converted element by element", RIO,
     '                    val = str(tuple(float(v) for v in val))\n',
     '                    val = str([float(val[0]), float(val[1])])\n', ""),
    ("C16", B, "raw data without path not skipped", RIO,
     '                if "path" not in dset.attrs:\n', '                if False:\n',
     "C16-R4"),
    ("C16", B, "incomplete group reused", RIO,
     '        if idd in ana and "user rate" not in ana[idd].attrs:\n',
     '        if False:\n', "C16-R4"),
    ("C16", B, "complete groups deleted too", RIO,
     '        if idd in ana and "user rate" not in ana[idd].attrs:\n',
     '        if idd in ana and "user time" not in ana[idd].attrs:\n',
     "C16-R"),
    ("C16", B, "overwrite fit attrs of existing entry", RIO,
     "            out = ana[idd]\n        else:",
     "            out = ana[idd]\n            out.attrs[\"data enum\"] = indent.enum\n        else:", "C16-R2"),
    # ---- C17
    ("C17", B, "slope not normalised", FEA,
     "                value = m / np.max(self.datay_apr)\n", "                value = m\n", "C17-R1"),
    ("C17", B, "whole curve", FEA,
     '        seg = self.dataset["segment"] == 0\n        y = self.dataset[yaxis][seg].copy()',
     '        y = self.dataset[yaxis].copy()', "C17-R3"),
    ("C17", B, "unguarded accessor", FEA,
     "        if self.has_contact_point:\n            cp = self.contact_point\n            # baseline indices of approach curve\n            # (approaches from pos values)\n            x = self.datax_apr\n            aprsize",
     "        if self.is_valid:\n            cp = self.contact_point\n            # baseline indices of approach curve\n            # (approaches from pos values)\n            x = self.datax_apr\n            aprsize",
     "C17-R2"),
    ("C17", B, "binary returns count", FEA, "                value = npeaks <= 5\n",
     "                value = npeaks\n", "C17-R5"),
    ("C17", N, "np.nanmax normaliser", FEA, "            norm = xin.size * np.max(yin)\n",
     "            norm = np.max(yin) * xin.size\n", ""),
    # ---- C18
    ("C18", B, "memoised registry look-up", "src/nanite/model/__init__.py",
     "def get_parm_name(model_key, parm_key):",
     "import functools\n\n\n@functools.lru_cache(maxsize=None)\n"
     "def get_parm_name(model_key, parm_key):", "C18-R1"),
    ("C18", B, "direct registry write", COR,
     "    def __str__(self):\n        return f\"NaniteFitModel '{self.model_key}'\"",
     "    def __str__(self):\n        from .logic import models_available\n        models_available[self.model_key] = self\n"
     "        return f\"NaniteFitModel '{self.model_key}'\"", "C18-R1"),
    ("C18", B, "unvalidated module stored", LOG,
     "    models_available[module.model_key] = md", "    models_available[module.model_key] = module", "C18-R1"),
    ("C18", B, "path not removed", LOG, "        sys.path.remove(str(path.parent))\n", "", "C18-R3"),
    ("C18", B, "required attr dropped", COR, '            "valid_axes_y",\n', "", "C18-R2"),
    ("C18", B, "nan seeds", FIT, "                if not np.isnan(anc_dict[anckey]):  # ignore nans\n                    params[anckey].set(value=anc_dict[anckey])",
     "                if True:\n                    params[anckey].set(value=anc_dict[anckey])", "C18-R4"),
    ("C18", N, "items loop", FIT,
     "        for anckey in anc_dict:\n            if anckey in params:\n                if not np.isnan(anc_dict[anckey]):  # ignore nans\n                    params[anckey].set(value=anc_dict[anckey])",
     "        for anckey, ancval in anc_dict.items():\n            if anckey in params:\n                if not np.isnan(ancval):  # ignore nans\n                    params[anckey].set(value=ancval)", ""),
    # ---- C19
    ("C19", B, "relative accepted", PRO, 'if rt not in ["absolute", "relative cp"]:',
     'if rt not in ["absolute", "relative cp", "relative"]:', "C19-R1"),
    ("C19", B, "left guards right", PRO, "    if right:\n        ival[1] = float(right)",
     "    if left:\n        ival[1] = float(right)", "C19-R2"),
    ("C19", B, "setitem transforms", PRO, "        data[key] = value\n        self.save(data)",
     "        data[key] = str(value)\n        self.save(data)", "C19-R4"),
    ("C19", B, "two rows", CRA, '                ts.write("\\t".join(stats) + "\\n")\n',
     '                ts.write("\\t".join(stats) + "\\n")\n                ts.write("\\t".join(stats) + "\\n")\n', "C19-R5"),
    ("C19", B, "rating rounded to 0 digits", CRA, "                 ndigits=1)],", "                 ndigits=0)],", "C19-R5"),
    # ---- C20
    ("C20", B, "cached feature", QMA,
     'name="fit: Young\'s modulus",\n                  unit="Pa",\n                  cache=False)',
     'name="fit: Young\'s modulus",\n                  unit="Pa",\n                  cache=True)', "C20-R3"),
    ("C20", B, "wrong unit factor", QMA, 'value = params["contact_point"].value * 1e9',
     'value = params["contact_point"].value * 1e6', "C20-R3"),
    ("C20", B, "no hash comparison", QMA,
     '        if (idnt._rating is None\n                or idnt._rating[0] != idnt.fit_properties.get("hash", "none")):',
     "        if idnt._rating is None:", "C20-R4"),
    ("C20", B, "and -> or", GRP, '        if ("spring constant" not in afmdata.metadata\n                and "tip position" not in afmdata):',
     '        if ("spring constant" not in afmdata.metadata\n                or "tip position" not in afmdata):', "C20-R2"),
    ("C20", B, "modality kwargs dropped", REA,
     "            meta_override=meta_override,\n            **get_load_data_modality_kwargs()\n        )\n        data += measurements",
     "            meta_override=meta_override,\n        )\n        data += measurements", "C20-R1"),
    # ---- round 9
    ("C10", B, "settings share the default table's entries", FIT,
     "self.fp = FitProperties(**copy.deepcopy(FP_DEFAULT))",
     "self.fp = FitProperties(**FP_DEFAULT)", "C10-R9"),
    ("C19", B, "answer converted before the emptiness test", PRO,
     """    wcp = input("size [µm] (currently '{}'): ".format(wcpd))
    if wcp:
        pf["weight_cp"] = float(wcp) * 1e-6""",
     """    wcp = float(input("size [µm] (currently '{}'): ".format(wcpd)) or 0)
    if wcp:
        pf["weight_cp"] = wcp * 1e-6""", "C19-R2"),
    ("C19", B, "batch fit through the (path, index) cache key", CRA,
     """            for idnt in grp:
                fit_data(idnt, profile_path=profile_path)""",
     """            for ii in range(len(grp)):
                idnt = fit_data(pp, enum=ii, profile_path=profile_path)""",
     "C19-R5"),
    ("C07", B, "missing column ends the smoothing loop", PRE,
     """        if col not in apret:
            continue""", """        if col not in apret:
            break""", "C07-R2"),
    ("C20", B, "per-file loop loads the whole location", REA,
     "            data = load_data(pp)", "            data = load_data(path)",
     "C20-R5"),
    ("C16", B, "list joined with another separator", RIO,
     'val = ",".join(val)', 'val = ", ".join(val)', "C16-R1"),
    ("C09", B, "shipped label tested on the base name", RAT,
     "        if training_set in avr:",
     "        if pathlib.Path(training_set).name in avr:", "C09-R11"),
    ("C10", B, "keyword arguments leak into the default table", RAT,
     """        reg_cl, default_kw = reg_dict[regressor]
        kw = default_kw.copy()""",
     """        reg_cl, kw = reg_dict[regressor]""", "C10-R10"),
    ("C01", B, "stored initial parameters handed out", IND,
     'parms = copy.deepcopy(self.fit_properties["params_initial"])',
     'parms = self.fit_properties["params_initial"]', "C01-R13"),
    ("C03", B, "stored initial parameters handed out", IND,
     'parms = copy.deepcopy(self.fit_properties["params_initial"])',
     'parms = self.fit_properties["params_initial"]', "C03-R16"),
    ("C04", B, "stored initial parameters handed out", IND,
     'parms = copy.deepcopy(self.fit_properties["params_initial"])',
     'parms = self.fit_properties["params_initial"]', "C04-R9"),
    ("C17", B, "integer counts in the flatness quotient", FEA,
     """                pos = np.sum(grad > 0)
                neg = np.sum(grad < 0)""",
     """                pos = len(grad[grad > 0])
                neg = len(grad[grad < 0])""", "C17-R6"),
    ("C05", B, "scan grid with a float step", FIT,
     "indentations = np.linspace(xmin, xmin*.05, num_samp)",
     "indentations = np.arange(xmin, xmin*.05, (xmin*.05 - xmin)/num_samp)",
     "C05-R4"),
    ("C14", B, "memoised list of steps sorted in place", PRE,
     """                msg = "The preprocessing method '{}' does not exist!"
                raise KeyError(msg.format(pid))""",
     """                known = available()
                known.sort()
                msg = "The preprocessing method '{}' does not exist!"
                raise KeyError(msg.format(pid))""", "C14-RM"),
]


def _run_one(args):
    pid, kind, name, rel, old, new, expect, base_keys = args
    import importlib
    from .__main__ import run_property
    try:
        base = Repo()
        src = base.modules_by_rel[rel].src if hasattr(
            base, "modules_by_rel") else None
        if src is None:
            for m in base.modules.values():
                if m.relpath == rel:
                    src = m.src
        if src is None or src.count(old) != 1:
            return (pid, kind, name, "skipped", "")
        newsrc = src.replace(old, new)
        compile(newsrc, rel, "exec")
        repo = base.with_override(rel, newsrc)
        mod, ctx = run_property(pid, "quick", repo)
        fails = [i for i in ctx.failures() if i.key(pid) not in base_keys]
        und = getattr(ctx, "undecided", [])
        if kind == "break":
            hit = [i for i in fails if i.rule.startswith(expect)]
            if hit:
                return (pid, kind, name, "fired", hit[0].rule)
            if und:
                # the expected rule could not decide on this variant; the
                # run is not silent (exit 1 through another rule, or 2)
                return (pid, kind, name, "undecided", und[0][1][:120])
            other = [i.rule for i in fails]
            return (pid, kind, name, "MISSED",
                    f"expected {expect}, got {sorted(set(other))}")
        if fails:
            return (pid, kind, name, "FALSE-ALARM",
                    f"{fails[0].rule}: {fails[0].message[:120]}")
        if und:
            return (pid, kind, name, "FALSE-UNDECIDED", und[0][1][:120])
        return (pid, kind, name, "silent", "")
    except SyntaxError as e:
        return (pid, kind, name, "skipped", f"variant does not compile: {e}")
    except (AnchorError, Undecided) as e:
        if kind == "break":
            return (pid, kind, name, "undecided", str(e)[:120])
        return (pid, kind, name, "FALSE-UNDECIDED", str(e)[:120])


def run(pid, repo, seed=0):
    from .__main__ import run_property
    mod, ctx = run_property(pid, "quick", repo)
    base_keys = frozenset(i.key(pid) for i in ctx.failures())
    todo = [(p, k, n, rel, old, new, exp, base_keys)
            for (p, k, n, rel, old, new, exp) in V if p == pid]
    if seed:
        import random
        random.Random(seed).shuffle(todo)
    results = []
    workers = min(16, max(1, len(todo)))
    if todo:
        with cf.ProcessPoolExecutor(max_workers=workers) as ex:
            results = list(ex.map(_run_one, todo))
    summ = {"breaks": 0, "breaks_fired": 0, "benign": 0, "benign_silent": 0,
            "skipped": 0, "undecided_breaks": 0}
    errors = []
    rows = []
    for (p, kind, name, status, info) in results:
        rows.append({"variant": name, "kind": kind, "status": status,
                     "info": info})
        if status == "skipped":
            summ["skipped"] += 1
            continue
        if kind == "break":
            summ["breaks"] += 1
            if status == "fired":
                summ["breaks_fired"] += 1
            elif status == "undecided":
                summ["undecided_breaks"] += 1
                summ["breaks_fired"] += 1   # not silent: exit 2 on that tree
            else:
                errors.append(f"break '{name}' not reported ({info})")
        else:
            summ["benign"] += 1
            if status == "silent":
                summ["benign_silent"] += 1
            else:
                errors.append(f"benign '{name}' reported: {status} {info}")
    return {"variants": summ, "variant_results": rows,
            "variant_errors": errors}
