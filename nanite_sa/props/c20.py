"""C20 — loading yields one object per recorded curve; maps put values at
their pixel."""
from __future__ import annotations

import ast
import pathlib
import sysconfig

from .. import facts
from ..astutil import (func_params, call_name, calls_in, const_str, dotted, kwarg, literal,
                       norm, walk_no_nested)
from ..cfg import CFG
from ..guards import conditions_at
from ..loader import AnchorError, Undecided
from ..keypresence import success_atom
from ..symres import Resolver

EXPLANATION = (
    "nanite's part of loading and mapping (afmformats does the rest): (R1) "
    "every afmformats.load_data / AFMGroup.__init__ / AFMQMap.__init__ call "
    "receives **get_load_data_modality_kwargs(), whose class table maps the "
    "modalities to Indentation and whose modality is the force-distance "
    "default; load_group adds curves through the group's += (hence "
    "append); (R2) IndentationGroup.append reaches the base append only "
    "when the refusal condition (no spring constant and no tip position) "
    "is false; (R3) map features that read fit state are uncached, read "
    "params_fitted only under .get('success', False), convert units by the "
    "factor their declared unit demands (m->nm: 1e9, Pa: 1), and yield NaN "
    "with a DataMissingWarning otherwise; (R4) every reader of the cached "
    "rating compares the cached fit hash with the current one (sibling "
    "cross-check with rate_quality); (R5) the progress callback forwards "
    "(file index + x)/number of files, and get_data_paths_enum lists one "
    "entry per curve with its enumeration.")
NOT_DECIDED = [
    "file order, uniqueness of enumerations and pixel placement "
    "(afmformats)",
    "callback monotonicity beyond the shape (index + x)/len(paths) with x "
    "in [0, 1] supplied by afmformats",
]
ASSUMPTIONS = [
    "A3: afmformats.AFMGroup.__iadd__/__init__ add items only through "
    "self.append (parsed from the installed afmformats source, reported "
    "below); A4: qmap_feature(cache=False) evaluates on every access",
]
SI = {"nm": ("m", 1e9), "um": ("m", 1e6), "µm": ("m", 1e6), "Pa": ("Pa", 1),
      "kPa": ("Pa", 1e-3), "m": ("m", 1), "": ("", 1)}


def r1_indentation_everywhere(ctx):
    rd = ctx.repo.mod("read")
    gk = rd.func("get_load_data_modality_kwargs")
    ctx.analysed(gk)
    rets = [r for r in walk_no_nested(gk, False) if isinstance(r, ast.Return)]
    from ..symres import Resolver as _Res
    res_ = _Res(gk)
    table = None
    if len(rets) == 1 and rets[0].value is not None:
        table = rets[0].value
        if isinstance(table, ast.Name):
            table = res_.reaching_value(table)
    if not isinstance(table, ast.Dict):
        raise Undecided("get_load_data_modality_kwargs returns no dict "
                        "literal")
    d = {const_str(k): v for k, v in zip(table.keys, table.values)}
    ctx.check("modality" in d and norm(d["modality"]) in (
        "DEFAULT_MODALITY", "'force-distance'"),
              table, "modality = DEFAULT_MODALITY",
              "the loader kwargs do not select the default modality")
    ctx.check(literal(rd.assign("DEFAULT_MODALITY")) == "force-distance",
              rd.assign("DEFAULT_MODALITY"), "DEFAULT_MODALITY = "
              "'force-distance'", "default modality changed")
    cls = d.get("data_classes_by_modality")
    if isinstance(cls, ast.Name):
        cls = res_.reaching_value(cls)
    # the class table must name the modality literally: DEFAULT_MODALITY is
    # a documented user setting (None = all modalities) and must not decide
    # which class represents force-distance data
    ok = isinstance(cls, ast.Dict) and cls.keys and all(
        norm(v) == "Indentation" for v in cls.values) and \
        "force-distance" in [const_str(k) for k in cls.keys
                             if not getattr(k, "_from_const", None)]
    if isinstance(cls, ast.DictComp) and len(cls.generators) == 1:
        g = cls.generators[0]
        from ..symres import Resolver
        keys = literal(Resolver(gk).resolve(g.iter))
        ok = isinstance(keys, (list, tuple)) and "force-distance" in keys \
            and norm(cls.key) == norm(g.target) and \
            norm(cls.value) == "Indentation" and not g.ifs
    ctx.check(ok, table, "all modalities map to Indentation",
              "afmformats is not told to build Indentation objects for "
              "force-distance data: loading returns plain AFMForceDistance "
              "objects without fitting/rating")
    # call sites
    n = 0
    for m, q, f in ctx.repo.all_funcs():
        for c in calls_in(f):
            cn = call_name(c) or ""
            is_load = cn == "afmformats.load_data"
            is_super = False
            if isinstance(c.func, ast.Attribute) and c.func.attr == \
                    "__init__" and isinstance(c.func.value, ast.Call) and \
                    call_name(c.func.value) == "super" and q.split(".")[0] in (
                        "IndentationGroup", "QMap"):
                is_super = True
            if not (is_load or is_super):
                continue
            n += 1
            star = [norm(kw.value) for kw in c.keywords if kw.arg is None]
            # ... or both entries spelled out from that very table
            from ..symres import Resolver as _R3
            Rc = _R3(f)
            spelled = {kw.arg: Rc.text(kw.value) for kw in c.keywords
                       if kw.arg in ("modality", "data_classes_by_modality")}
            explicit = spelled == {
                "modality": "get_load_data_modality_kwargs()['modality']",
                "data_classes_by_modality": "get_load_data_modality_kwargs()"
                "['data_classes_by_modality']"}
            ctx.check("get_load_data_modality_kwargs()" in star or explicit,
                      c,
                      f"{m.name}.{q}: {cn or 'super().__init__'} gets the "
                      "modality kwargs",
                      f"{m.name}.{q} calls afmformats without "
                      "**get_load_data_modality_kwargs(): curves are not "
                      "loaded as Indentation objects")
    ctx.floor("afmformats loader call sites", n, 3)
    # an option a loader entry point accepts is handed on to every loader it
    # calls with a path
    LOADERS = ("load_data", "afmformats.load_data", "IndentationGroup",
               "load_group", "QMap", "afmformats.AFMGroup")
    nfw = 0
    for m, q, f in ctx.repo.all_funcs():
        if m.name not in ("read", "group", "qmap"):
            continue
        params = {a.arg for a in f.args.args + f.args.kwonlyargs}
        for opt in ("meta_override", "callback"):
            if opt not in params:
                continue
            for c in calls_in(f):
                cn = call_name(c) or ""
                is_super_ = isinstance(c.func, ast.Attribute) and \
                    c.func.attr == "__init__" and isinstance(
                        c.func.value, ast.Call) and call_name(
                        c.func.value) == "super"
                if not (cn in LOADERS or is_super_):
                    continue
                if not c.args and not any(k.arg in ("path", "paths")
                                          for k in c.keywords):
                    continue      # an empty group
                has = any(k.arg == opt for k in c.keywords) or any(
                    k.arg is None and opt in norm(k.value)
                    for k in c.keywords) or any(
                    norm(a_) == opt for a_ in c.args)
                nfw += 1
                what = ("the metadata override (e.g. a spring constant) is "
                        "ignored" if opt == "meta_override" else
                        "progress is not reported")
                ctx.check(has, c,
                          f"{m.name}.{q}: {cn or 'super().__init__'} "
                          f"receives {opt}",
                          f"{m.name}.{q} accepts `{opt}` but calls "
                          f"`{norm(c)[:50]}` without it: on that path "
                          f"{what} - curves are loaded with other metadata "
                          "than requested or are refused")
    ctx.floor("option-forwarding loader calls", nfw, 4)
    # load_group goes through += on an IndentationGroup
    lg = ctx.repo.mod("group").func("load_group")
    ctx.analysed(lg)
    added = any(isinstance(st, ast.AugAssign) and isinstance(st.op, ast.Add)
                for st in walk_no_nested(lg, False))
    # ... or an explicit loop `for x in data: grp.append(x)` (what += does)
    for lp_ in walk_no_nested(lg, False):
        if isinstance(lp_, ast.For) and isinstance(lp_.target, ast.Name) \
                and len(lp_.body) == 1 and isinstance(
                    lp_.body[0], ast.Expr) and isinstance(
                    lp_.body[0].value, ast.Call) and isinstance(
                    lp_.body[0].value.func, ast.Attribute) and \
                lp_.body[0].value.func.attr == "append" and [
                    norm(a) for a in lp_.body[0].value.args] == [
                        lp_.target.id]:
            added = True
    ok = added and any(
        call_name(c) == "IndentationGroup" for c in calls_in(lg)) and any(
        call_name(c) == "load_data" for c in calls_in(lg))
    ctx.check(ok, lg, "load_group: IndentationGroup() += load_data(...)",
              "load_group does not add the loaded curves through the "
              "group's += (the spring-constant precondition is bypassed)")
    fw = [c for c in calls_in(lg) if call_name(c) == "load_data"]
    if fw:
        from ..astutil import bound_args
        kws = {k: norm(v) for k, v in bound_args(
            fw[0], rd.func("load_data")).items()}
        ctx.check(kws.get("callback") == "callback" and
                  kws.get("meta_override") == "meta_override", fw[0],
                  "callback and meta_override forwarded",
                  "load_group does not forward callback/meta_override")
    # A3: read afmformats
    try:
        src = (pathlib.Path(sysconfig.get_paths()["purelib"]) / "afmformats"
               / "afm_group.py").read_text()
        tree = ast.parse(src)
        ok_iadd = ok_init = False
        for node in ast.walk(tree):
            if isinstance(node, ast.FunctionDef) and node.name == "__iadd__":
                ok_iadd = any(call_name(c) == "self.append"
                              for c in calls_in(node))
            if isinstance(node, ast.FunctionDef) and node.name == "__init__":
                ok_init = any(isinstance(s, ast.AugAssign)
                              for s in ast.walk(node)) or any(
                    call_name(c) == "self.append" for c in calls_in(node))
        ctx.assume(f"A3 checked against installed afmformats: __iadd__ -> "
                   f"self.append: {ok_iadd}; __init__ adds via +=/append: "
                   f"{ok_init}")
    except OSError:
        ctx.assume("A3 could not be checked: afmformats source not found")


def r2_spring_constant(ctx):
    g = ctx.repo.mod("group")
    fn = g.func("IndentationGroup.append")
    ctx.analysed(fn)
    cfg = CFG(fn)
    sup = [n for n in cfg.nodes if n.kind == "stmt" and any(
        isinstance(c.func, ast.Attribute) and c.func.attr == "append"
        and isinstance(c.func.value, ast.Call)
        and call_name(c.func.value) == "super"
        for c in calls_in(n.ast))]
    ctx.floor("super().append in IndentationGroup.append", len(sup), 1)
    arg = fn.args.args[1].arg
    raises = [n for n in cfg.nodes if n.kind == "stmt"
              and isinstance(n.ast, ast.Raise)]
    ok = False
    for r in raises:
        conds = conditions_at(r.ast)
        tx = {(a.text, a.pol) for a in conds if not a.expanded}
        if (f"'spring constant' in {arg}.metadata", False) in tx and \
                (f"'tip position' in {arg}", False) in tx and len(tx) == 2:
            # the test dominates the base append
            # the refusal is never reached after the base append
            if sup and all(r.id not in cfg.reach([s.id]) for s in sup):
                ok = True
            ctx.check("MissingMetaDataError" in norm(r.ast), r.ast,
                      "refusal raises MissingMetaDataError",
                      "the refusal raises a different error")
    ctx.check(ok, fn, "curve without spring constant and tip position is "
              "refused before the base append",
              "IndentationGroup.append no longer refuses a curve that has "
              "neither a spring constant nor a tip position (or the test "
              "does not precede the base append)")
    for s in sup:
        c = [c for c in calls_in(s.ast)][0]
        ctx.check([norm(a) for a in c.args] == [arg], s.ast,
                  "the curve itself is appended", "something else is "
                  "appended")


def _features(qmod):
    out = []
    for q, f in qmod.funcs.items():
        for d in f.decorator_list:
            if isinstance(d, ast.Call) and call_name(d) == "qmap_feature":
                kws = {kw.arg: literal(kw.value) for kw in d.keywords}
                out.append((f, kws, d))
    return out


def r3_map_features(ctx):
    qm = ctx.repo.mod("qmap")
    feats = _features(qm)
    ctx.floor("qmap features defined by nanite", len(feats), 3)
    for f, kws, d in feats:
        ctx.analysed(f)
        arg = f.args.args[0].arg
        reads_state = any(isinstance(n, ast.Attribute) and n.attr in (
            "fit_properties", "_rating") for n in ast.walk(f))
        if reads_state:
            ctx.check(kws.get("cache") is False, d,
                      f"{f.name}: cache=False",
                      f"map feature {f.name} reads fit/rating state but is "
                      "cached: the map does not follow refits")
        ctx.check("staticmethod" in [norm(x) for x in f.decorator_list], f,
                  f"{f.name} is a static feature function",
                  "feature is not registered as a static method")
        # reads of params_fitted
        pf_reads = [n for n in ast.walk(f) if (
            isinstance(n, ast.Subscript)
            and const_str(n.slice) == "params_fitted") or (
            isinstance(n, ast.Call) and isinstance(n.func, ast.Attribute)
            and n.func.attr in ("get", "pop") and n.args
            and const_str(n.args[0]) == "params_fitted")]
        # the *use* of the fitted parameters must be success-guarded
        uses = list(pf_reads)
        for n in ast.walk(f):
            if isinstance(n, ast.Attribute) and n.attr == "value" and \
                    isinstance(n.value, ast.Subscript):
                uses.append(n)
        Rf = Resolver(f)
        for n in uses:
            conds = conditions_at(n)
            ok = any(a.pol and success_atom(a, Rf) for a in conds)
            if n not in pf_reads and ok:
                continue
            if n in pf_reads and isinstance(n, ast.Call):
                # a .get() of params_fitted outside the guard is harmless
                # only if its use is guarded (checked through `uses`)
                continue
            ctx.check(ok, n, f"{f.name}: params_fitted read under "
                      "get('success', False)",
                      f"{f.name} reads params_fitted without requiring a "
                      "successful current fit: after a failed (re)fit the "
                      "map shows the parameter of an earlier pass instead "
                      "of NaN")
        if not pf_reads:
            continue
        # value expression and unit factor
        key = None
        for n in ast.walk(f):
            if isinstance(n, ast.Attribute) and n.attr == "value" and \
                    isinstance(n.value, ast.Subscript) and const_str(
                        n.value.slice):
                key = const_str(n.value.slice)
                valnode = n
        unit = kws.get("unit", "")
        if key is None or unit not in SI:
            raise Undecided(f"{f.name}: cannot determine value/unit")
        # a plain local alias of the fitted value is followed to its use
        par_ = getattr(valnode, "_parent", None)
        if isinstance(par_, ast.Assign) and par_.value is valnode and len(
                par_.targets) == 1 and isinstance(par_.targets[0], ast.Name):
            al_ = par_.targets[0].id
            uses_ = [n_ for n_ in ast.walk(f) if isinstance(n_, ast.Name)
                     and n_.id == al_ and isinstance(n_.ctx, ast.Load)]
            if len(uses_) == 1:
                valnode = uses_[0]
        # the factor applied: the whole product the fitted value is part of
        top = valnode
        while isinstance(getattr(top, "_parent", None), ast.BinOp) and \
                isinstance(top._parent.op, (ast.Mult, ast.Div)):
            top = top._parent
        factor = 1.0
        extra = []

        def prod(e, inv):
            nonlocal factor
            if e is valnode:
                if inv:
                    extra.append("1/" + norm(e))
                return
            if isinstance(e, ast.BinOp) and isinstance(e.op, ast.Mult):
                prod(e.left, inv)
                prod(e.right, inv)
            elif isinstance(e, ast.BinOp) and isinstance(e.op, ast.Div):
                prod(e.left, inv)
                prod(e.right, not inv)
            else:
                e2 = Rf.resolve(e) if not isinstance(e, ast.Constant) else e
                try:
                    v = literal(e2)
                except Exception:
                    v = None
                if isinstance(v, (int, float)) and not isinstance(v, bool) \
                        and v != 0:
                    factor = factor / v if inv else factor * v
                else:
                    extra.append(norm(e2)[:40])
        prod(top, False)
        ctx.check(not extra, valnode,
                  f"{f.name}: fitted '{key}' scaled by a constant only",
                  f"{f.name} combines the fitted '{key}' with "
                  f"{', '.join(extra)}: the map no longer shows the fitted "
                  "value (fitted parameters are stored in measured units)")
        # model unit of that parameter
        units = set()
        for mod in facts.model_modules(ctx.repo):
            keys = facts.module_list(mod, "parameter_keys")
            us = facts.module_list(mod, "parameter_units")
            if key in keys:
                units.add(us[keys.index(key)])
        base, want = SI[unit]
        ctx.check(units == {base}, f, f"{f.name}: parameter '{key}' has "
                  f"model unit {sorted(units)}",
                  f"declared map unit '{unit}' does not match the model "
                  f"unit(s) {sorted(units)} of '{key}'")
        ok = isinstance(factor, (int, float)) and abs(
            factor / want - 1) < 1e-12
        ctx.check(ok, valnode, f"{f.name}: {key} x {factor} -> {unit}",
                  f"{f.name} declares unit '{unit}' but multiplies the "
                  f"fitted '{key}' (in {base}) by {factor} instead of "
                  f"{want}")
        # else branch: warn + NaN
        nan_assign = [s for s in ast.walk(f)
                      if isinstance(s, (ast.Assign, ast.Return))
                      and s.value is not None
                      and norm(s.value) in ("np.nan", "numpy.nan")]
        warns = [c for c in calls_in(f) if call_name(c) == "warnings.warn"]
        ok = False
        for s in nan_assign:
            conds = conditions_at(s)
            if any((not a.pol) and success_atom(a, Rf) for a in conds) or \
                    any((not a.pol) and "success" in a.text for a in conds):
                ok = True
        ctx.check(ok and bool(warns) and all(
            "DataMissingWarning" in norm(w) for w in warns), f,
            f"{f.name}: NaN with DataMissingWarning when not fitted",
            f"{f.name} does not yield NaN with a DataMissingWarning for an "
            "unfitted curve")
        rets = [r for r in walk_no_nested(f, False)
                if isinstance(r, ast.Return)]
        good = all(r.value is not None and (
            norm(r.value) in ("value", "np.nan", "numpy.nan")
            or any(x is valnode for x in ast.walk(r.value))) for r in rets)
        ctx.check(bool(rets) and good, f,
                  f"{f.name} returns the computed value or NaN",
                  "feature returns something else")


def r4_rating_freshness(ctx):
    """every reader of the cached rating value checks the cached hash"""
    readers = []
    for m, q, f in ctx.repo.all_funcs():
        for n in walk_no_nested(f, False):
            if isinstance(n, ast.Subscript) and isinstance(n.ctx, ast.Load) \
                    and norm(n.value).endswith("._rating") and \
                    literal(n.slice) in (-1, 5):
                readers.append((m, q, f, n))
    # the rating map shows the curve's rating: it must not rate again
    # (rate_quality() with default arguments replaces a rating that was
    # made with another regressor / training set / feature selection)
    qm_ = ctx.repo.mod("qmap")
    for q, f in qm_.funcs.items():
        if not q.startswith("QMap.feat_"):
            continue
        for c in calls_in(f):
            if isinstance(c.func, ast.Attribute) and c.func.attr == \
                    "rate_quality":
                ctx.fail(c, f"{q} calls rate_quality",
                         f"qmap.{q} computes a rating instead of showing "
                         f"the curve's stored one: `{norm(c)[:40]}` rates "
                         f"with the default regressor and training set, so "
                         f"a curve rated with other settings is shown with "
                         f"a different number and its stored rating is "
                         f"overwritten by reading the map")
    ctx.floor("readers of the cached rating value", len(readers), 1)
    # ... and what they read is a rating: an unrated curve has no entry
    from .c09 import placeholder_never_cached
    placeholder_never_cached(
        ctx, ctx.repo.mod("indent").func("Indentation.rate_quality"))
    for m, q, f, n in readers:
        recv = norm(n.value)
        Rr = Resolver(f)
        # a comparison of recv[0] with a hash must guard this read
        conds = conditions_at(n)
        ok = False
        for a in conds:
            for c in ast.walk(a.node):
                if isinstance(c, ast.Compare) and len(c.ops) == 1 and (
                        norm(c.left) == f"{recv}[0]" or (
                            hasattr(c.left, "_parent")
                            and Rr.text(c.left) == f"{recv}[0]")):
                    rhs = norm(c.comparators[0])
                    op = type(c.ops[0]).__name__
                    fresh = "hash" in rhs
                    # read is reached when the hashes are equal
                    if fresh and ((op == "NotEq" and not a.pol)
                                  or (op == "Eq" and a.pol)
                                  or isinstance(a.node, ast.BoolOp)):
                        ok = True
        ctx.check(ok, n, f"{m.name}.{q}: cached rating used only if the "
                  "cached hash is current",
                  f"{m.name}.{q} returns the cached rating without "
                  "comparing the cached fit hash with the current one (as "
                  "rate_quality does): after a refit the value of the "
                  "previous fit is shown")
    # get_rating_parameters shows the cache content itself (documented as
    # 'current rating parameters'): reads field 5 by index into the dict.


def r5_progress_and_enum(ctx):
    rd = ctx.repo.mod("read")
    ld = rd.func("load_data")
    ctx.analysed(ld)
    loops = [n for n in walk_no_nested(ld, False) if isinstance(n, ast.For)]
    ctx.floor("file loop in load_data", len(loops), 1)
    lp = loops[0]
    ok_enum = isinstance(lp.iter, ast.Call) and call_name(lp.iter) == \
        "enumerate" and isinstance(lp.target, ast.Tuple)
    if not ok_enum:
        ctx.fail(lp, "file loop enumerates the paths",
                 "the file loop no longer enumerates the paths (the progress "
                 "fraction has no file index)")
        return
    idx = norm(lp.target.elts[0])
    lst = norm(lp.iter.args[0])
    cb = None
    for c in calls_in(lp):
        if call_name(c) == "afmformats.load_data":
            cb = kwarg(c, "callback")
            ctx.check(norm(c.args[0]) == norm(lp.target.elts[1]) if c.args
                      else False, c, "each file loaded once",
                      "wrong path loaded")
            mo = kwarg(c, "meta_override")
            ctx.check(mo is not None and norm(mo) == "meta_override", c,
                      "meta_override forwarded", "metadata override dropped")
    if cb is not None and isinstance(cb, ast.Name):
        from ..symres import Resolver
        v = Resolver(ld).reaching_value(cb)
        if v is not None:
            cb = v
    if cb is None:
        ctx.fail(lp, "callback forwarded", "progress callback not forwarded")
    else:
        # `lambda x: (callback(..) if callback else None)` or
        # `(lambda x: callback(..)) if callback else None`
        if isinstance(cb, ast.IfExp):
            lam, cond = cb.body, cb
            inner = lam.body if isinstance(lam, ast.Lambda) else None
        elif isinstance(cb, ast.Lambda) and isinstance(cb.body, ast.IfExp):
            lam, cond = cb, cb.body
            inner = cb.body.body
        else:
            lam, cond, inner = cb, None, getattr(cb, "body", None)
        guard_ok = cond is not None and norm(cond.test) == "callback" \
            and norm(cond.orelse) == "None"
        ctx.check(guard_ok, cb, "callback only if given",
                  "callback is invoked although none was given")
        x = lam.args.args[0].arg if isinstance(lam, ast.Lambda) and \
            lam.args.args else "x"
        if inner is not None:
            # free names of the lambda that are bound once in load_data
            # (e.g. a hoisted len(paths)) are replaced by their value
            from ..symres import Resolver as _Res2
            from ..astutil import clone as _clone
            R_ = _Res2(ld)
            inner2 = _clone(inner)
            for nm_ in ast.walk(inner2):
                if isinstance(nm_, ast.Name) and nm_.id not in (
                        x, "callback", idx, lst):
                    d_ = R_.defs.get(nm_.id, [])
                    if len(d_) == 1 and d_[0] is not None and not isinstance(
                            d_[0], ast.Lambda):
                        nm_.id = f"({norm(d_[0])})"
            body = norm(ast.parse(ast.unparse(inner2), mode="eval").body)
        else:
            body = ""
        good = {f"callback(({idx} + {x}) / len({lst}))",
                f"callback(({x} + {idx}) / len({lst}))"}
        ctx.check(body in good, cb, f"progress = {body}",
                  f"the progress value is `{body}` instead of (file index + "
                  "x) / number of files: values can exceed 1 or decrease")
    # results accumulated in order
    acc = [s for s in lp.body if isinstance(s, ast.AugAssign)
           and isinstance(s.op, ast.Add)]
    ctx.check(len(acc) == 1, lp, "curves of each file appended in order",
              "loaded curves are not accumulated once per file")
    ge = rd.func("get_data_paths_enum")
    ctx.analysed(ge)
    app = [c for c in calls_in(ge) if (call_name(c) or "").endswith(".append")]
    ok = len(app) == 1 and isinstance(app[0].args[0], (ast.List, ast.Tuple)) \
        and [norm(e) for e in app[0].args[0].elts][1].endswith(".enum")
    # every file of the location is opened by itself: the loader inside
    # the per-file loop is handed the loop variable, and the entry pairs
    # that file with the enumeration of one of its curves
    for lp_ in walk_no_nested(ge, False):
        if not isinstance(lp_, ast.For) or not isinstance(
                lp_.target, ast.Name):
            continue
        lds = [c for c in ast.walk(lp_) if isinstance(c, ast.Call) and (
            call_name(c) or "").split(".")[-1] == "load_data"]
        for c in lds:
            a0 = c.args[0] if c.args else kwarg(c, "path")
            ctx.check(a0 is not None and norm(a0) == lp_.target.id, c,
                      "the per-file loop loads the file of this pass",
                      f"get_data_paths_enum loads `{norm(a0) if a0 is not None else '?'}` "
                      f"inside its loop over the files instead of the file "
                      f"of this pass (`{lp_.target.id}`): for a folder every "
                      "file is listed with the curves of the whole location")
    # load_group: the progress callback is handed to ONE loader call (a
    # call per file with the same callback restarts the progress at 0 for
    # every file)
    gm = ctx.repo.mod("group")
    lg = gm.funcs.get("load_group")
    if lg is None:
        raise AnchorError("group.load_group missing")
    ctx.analysed(lg)
    n_cb = 0
    for c in calls_in(lg):
        # any argument that is the caller's callback parameter (by keyword
        # or by position)
        cbk = None
        for a_ in list(c.args) + [k.value for k in c.keywords]:
            if isinstance(a_, ast.Name) and a_.id == "callback" and \
                    a_.id in func_params(lg):
                cbk = a_
        if cbk is None:
            continue
        n_cb += 1
        lp_ = getattr(c, "_parent", None)
        while lp_ is not None and not isinstance(
                lp_, (ast.For, ast.While, ast.ListComp, ast.GeneratorExp)):
            lp_ = getattr(lp_, "_parent", None)
        ctx.check(lp_ is None, c, "the caller's progress callback is handed "
                  "to one loader call",
                  "load_group hands the caller's progress callback unchanged "
                  "to a loader call inside a loop: the reported progress "
                  "restarts for every file (values decrease)")
    ctx.floor("loader calls of load_group that take the callback", n_cb, 1)
    ctx.check(ok, ge, "one [path, enum] entry per curve",
              "get_data_paths_enum does not list one [path, enum] per curve")


RULES = [
    ("C20-R1", "Indentation class and force-distance modality at every "
     "loader call", r1_indentation_everywhere),
    ("C20-R2", "spring-constant precondition precedes the base append",
     r2_spring_constant),
    ("C20-R3", "map features: uncached, success-guarded, unit factor, NaN "
     "with warning", r3_map_features),
    ("C20-R4", "cached rating used only for the current fit hash",
     r4_rating_freshness),
    ("C20-R5", "progress fraction and per-curve enumeration",
     r5_progress_and_enum),
]
