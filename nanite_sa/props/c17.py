"""C17 — rating features are well-defined, bounded and independent of force
units."""
from __future__ import annotations

import ast
import re

from .. import effects, facts, scale
from ..astutil import (call_name, calls_in, const_str, dotted, func_params,
                       literal, norm, walk_no_nested)
from ..guards import conditions_at
from ..keypresence import FITTED, Presence
from ..loader import AnchorError, Undecided
from ..scale import INV, LIN, Interp, Obj, first_top, is_inv
from ..symres import Resolver

EXPLANATION = (
    "(R1) Scale-type abstract interpretation of every feat_* body with "
    "force, fit and residuals typed LIN and abscissa/contact point INV: "
    "the returned feature is INV, i.e. unchanged when force and fit are "
    "multiplied by a common positive factor; (R2) NaN instead of error: "
    "every use of a fit-dependent accessor is dominated by "
    "has_contact_point, the guarded-out branch yields NaN, the validity "
    "predicates imply a successful stored fit (derived from their bodies), "
    "and no accessor reads a fit-properties key unguarded; (R3) the "
    "feature bodies reach the curve only through the *_apr accessors, "
    "contact_point and meta; each accessor masks with segment == 0 and "
    "returns a fresh array; nothing mutates dataset columns; (R4) order: "
    "every path through get_feature_names ends in sorted(), and "
    "compute_features iterates the very list it returns as names; (R5) "
    "ranges by sign analysis: binary features return bool or NaN, the "
    "logarithmic magnitude features are log(1 + v) of a non-negative v, "
    "every non-NaN value that leaves a magnitude feature is non-negative "
    "under the premise that the approach force reaches positive values "
    "(abs/std/counts, sums of those, and max(force) as the only admitted "
    "force-valued divisor), the two fraction features have the "
    "part-of-whole shapes a/(a+b) and 1 - count(mask over x)/size(x); "
    "cp_curvature is signed by design.")
NOT_DECIDED = [
    "finiteness (e.g. idt_monotony divides by a sum that can be 0)",
    "[0, 1] range of the two fraction features beyond their a/(a+b) and "
    "count/size shape",
]

ACCESSORS = {
    "self.datay_apr": LIN, "self.datafit_apr": LIN, "self.datares_apr": LIN,
    "self.datax_apr": INV, "self.contact_point": INV,
    "self.has_contact_point": INV, "self.is_fitted": INV,
    "self.is_valid": INV, "self.meta": Obj(),
}
FIT_DEPENDENT = {"contact_point", "datafit_apr", "datares_apr", "datax_apr"}


def _feats(ctx):
    m = ctx.repo.mod("rate.features")
    meths = m.methods("IndentationFeatures")
    feats = {n: f for n, f in meths.items() if n.startswith("feat_")}
    ctx.floor("feature methods", len(feats), 15)
    return m, meths, feats


def r1_scale_invariance(ctx):
    m, meths, feats = _feats(ctx)
    # the accessor table is re-derived: y-axis and fit are force-like
    for name, want in (("datay_apr", "y_axis"), ("datax_apr", "x_axis")):
        f = meths.get(name)
        if f is None:
            raise AnchorError(f"accessor {name} missing")
        ok = any(isinstance(n, ast.Constant) and n.value == want
                 for n in ast.walk(f))
        ctx.check(ok, f, f"{name} reads the '{want}' column",
                  f"accessor {name} no longer reads the '{want}' column")
    f = meths.get("datares_apr")
    R = Resolver(f)
    rets = [r for r in walk_no_nested(f, False) if isinstance(r, ast.Return)]
    ctx.check(len(rets) == 1 and R.text(rets[0].value) in (
        "self.datafit_apr - self.datay_apr",
        "self.datay_apr - self.datafit_apr"), f,
        "datares_apr = fit - data (both force-like)",
        "datares_apr is not the difference of fit and data")
    for name, f in sorted(feats.items()):
        ctx.analysed(f)
        it = Interp(f, {"self": Obj()}, accessors=ACCESSORS)
        rets = it.run()
        for e, node in it.errors:
            ctx.fail(node, f"{name}: {norm(node)[:70]}",
                     f"feature {name} depends on the unit of the force: "
                     f"{e.why}")
        if it.errors:
            continue
        res = None
        for v, st in rets:
            res = scale.join(res, v)
        t = first_top(res) if res is not None else None
        if t is not None:
            raise Undecided(f"{name}: cannot type the result ({t.why})")
        if it.tops:
            raise Undecided(f"{name}: cannot type a condition "
                            f"({it.tops[0][0].why})")
        ctx.check(res is not None and is_inv(res), f,
                  f"{name}: result is {res}",
                  f"feature {name} returns a {res} quantity: it changes "
                  "when force and fit are multiplied by a common factor")


def r2_nan_not_error(ctx):
    m, meths, feats = _feats(ctx)
    P = Presence(ctx.repo)
    ctx.check({"is_fitted", "has_contact_point"} <= P.pred_fitted,
              m.cls("IndentationFeatures"),
              f"predicates implying a successful fit: "
              f"{sorted(P.pred_fitted)}",
              "has_contact_point / is_fitted no longer imply a successful "
              "stored fit: after a failed (re)fit with left-over "
              "params_fitted the fit-dependent features are computed from "
              "stale parameters instead of being NaN")
    seen_reads = set()
    for name, f in sorted(feats.items()):
        uses = [n for n in walk_no_nested(f, False)
                if isinstance(n, ast.Attribute) and isinstance(
                    n.value, ast.Name) and n.value.id == "self"
                and n.attr in FIT_DEPENDENT]
        bad = None
        for u in uses:
            conds = conditions_at(u)
            if not any(a.pol and a.text == "self.has_contact_point"
                       for a in conds):
                bad = u
                break
        if bad is not None:
            ctx.fail(bad, f"{name}: self.{bad.attr} outside the "
                     "has_contact_point guard",
                     f"feature {name} uses self.{bad.attr} without checking "
                     "has_contact_point: without a successful fit it raises "
                     "instead of returning NaN")
        else:
            ctx.ok(f, f"{name}: {len(uses)} fit-dependent accesses guarded")
        # the unguarded branch yields NaN
        if uses:
            nan_else = False
            for n in walk_no_nested(f, False):
                if isinstance(n, (ast.Assign, ast.Return)) and \
                        n.value is not None and norm(n.value) in (
                            "np.nan", "numpy.nan"):
                    conds = conditions_at(n)
                    if any((not a.pol) and a.text ==
                           "self.has_contact_point" for a in conds):
                        nan_else = True
            ctx.check(nan_else, f, f"{name}: NaN when there is no contact "
                      "point",
                      f"feature {name} does not yield NaN when no "
                      "successful fit is stored")
        for (k, node, chain) in P.requires(name):
            if (norm(node), chain[-1]) in seen_reads:
                continue
            seen_reads.add((norm(node), chain[-1]))
            ctx.fail(node, f"{chain[-1]}: read {norm(node)}",
                     f"fit_properties['{k}'] read unguarded via "
                     f"{' -> '.join(chain)} (KeyError for unfitted curves)")
    # index reductions that raise instead of yielding NaN
    for name, f in sorted(feats.items()):
        Rf = Resolver(f)
        # data derived from the fit (all NaN when the fit covers the other
        # segment) and from the x axis
        fitlike = set()
        changed = True
        while changed:
            changed = False
            for st in walk_no_nested(f, False):
                if isinstance(st, ast.Assign) and isinstance(
                        st.targets[0], ast.Name) and \
                        st.targets[0].id not in fitlike:
                    t = norm(st.value)
                    if "datafit_apr" in t or "datares_apr" in t or any(
                            isinstance(x, ast.Name) and x.id in fitlike
                            for x in ast.walk(st.value)):
                        fitlike.add(st.targets[0].id)
                        changed = True
        for c in calls_in(f):
            short = (call_name(c) or "").split(".")[-1]
            if short not in ("argmin", "argmax", "nanargmin", "nanargmax") \
                    or not c.args:
                continue
            a0 = c.args[0]
            if short.startswith("nan"):
                dep = any((isinstance(x, ast.Name) and x.id in fitlike)
                          or (isinstance(x, ast.Attribute) and x.attr in (
                              "datafit_apr", "datares_apr"))
                          for x in ast.walk(a0))
                ctx.check(not dep, c,
                          f"{name}: {norm(c)[:40]} not on fit-derived data",
                          f"feature {name} calls {short} on data derived "
                          f"from the fit: the fit column is NaN over the "
                          f"whole approach part when the other segment was "
                          f"fitted, and {short} raises ValueError on an "
                          f"all-NaN slice instead of the feature being NaN")
            # slices that can be empty
            inner = a0
            while isinstance(inner, ast.Call) and inner.args:
                inner = inner.args[0]
            if isinstance(inner, ast.Subscript) and isinstance(
                    inner.slice, ast.Slice) and inner.slice.lower is not None \
                    and inner.slice.upper is not None:
                lo, hi = norm(inner.slice.lower), norm(inner.slice.upper)
                conds = conditions_at(c)
                facts_ = set()
                for a in conds:
                    nd = a.node
                    if a.pol and isinstance(nd, ast.Compare) and len(
                            nd.ops) > 1 and all(isinstance(o, ast.Lt)
                                                for o in nd.ops):
                        # a < b < c
                        seq = [nd.left] + list(nd.comparators)
                        for x_, y_ in zip(seq, seq[1:]):
                            facts_.add(f"{norm(x_)}<{norm(y_)}")
                    elif a.pol:
                        facts_.add(a.text.replace(" ", ""))
                    else:
                        facts_.add("not:" + a.text.replace(" ", ""))
                        # not (x < y)  ==  x >= y  (guard-clause form)
                        if isinstance(nd, ast.Compare) and len(nd.ops) == 1:
                            flip = {ast.Lt: ">=", ast.LtE: ">", ast.Gt: "<=",
                                    ast.GtE: "<"}.get(type(nd.ops[0]))
                            if flip:
                                facts_.add((norm(nd.left) + flip + norm(
                                    nd.comparators[0])).replace(" ", ""))
                want = {f"{hi}>{lo}", f"{lo}<{hi}", f"{hi}-{lo}>0",
                        f"{hi}-{lo}>=1"}
                # midpoint splits: m = a + (b - a) // 2
                def midpoint(nm):
                    v = Rf.resolve(ast.Name(id=nm, ctx=ast.Load())) \
                        if nm.isidentifier() else None
                    for st in walk_no_nested(f, False):
                        if isinstance(st, ast.Assign) and norm(
                                st.targets[0]) == nm:
                            m_ = re.fullmatch(
                                r"(\w+) \+ \((\w+) - (\w+)\) // 2",
                                norm(st.value))
                            if m_ and m_.group(1) == m_.group(3):
                                return m_.group(1), m_.group(2)
                    return None
                mp = midpoint(hi)
                if mp and mp[0] == lo:          # [a : a + (b-a)//2]
                    b_ = mp[1]
                    want |= {f"{b_}-{lo}>=2", f"{b_}-{lo}>1"}
                mp = midpoint(lo)
                if mp and mp[1] == hi:          # [a + (b-a)//2 : b], a <= b
                    a_ = mp[0]
                    want |= {f"{hi}>{a_}", f"{a_}<{hi}", f"{hi}-{a_}>=1",
                             f"{hi}-{a_}>=2", f"{hi}-{a_}>1",
                             f"not:{a_}=={hi}", f"not:{hi}=={a_}"}
                ok = bool(facts_ & want)
                ctx.check(ok, c,
                          f"{name}: slice [{lo}:{hi}] known to be non-empty",
                          f"feature {name} takes {short} of the slice "
                          f"[{lo}:{hi}] without a test that {hi} > {lo}: "
                          f"for an indentation part of one or two samples "
                          f"the slice is empty and {short} raises "
                          f"ValueError - the feature (and rate_quality) "
                          f"raise instead of yielding NaN")
    # np.gradient needs at least two samples
    PRESERVE = ("gaussian_filter1d", "median_filter", "uniform_filter1d",
                "abs", "copy", "array", "asarray")
    for name, f in sorted(feats.items()):
        Rg = None
        for c in calls_in(f):
            if (call_name(c) or "") not in ("np.gradient",
                                            "numpy.gradient") or not c.args \
                    or not isinstance(c.args[0], ast.Name):
                continue
            x = c.args[0].id
            same_size = {x}
            if Rg is None:
                Rg = Resolver(f)
            v = Rg.reaching_value(c.args[0]) if hasattr(
                c.args[0], "_parent") else None
            for _ in range(4):
                if isinstance(v, ast.Call) and (call_name(v) or "").split(
                        ".")[-1] in PRESERVE and v.args and isinstance(
                        v.args[0], ast.Name):
                    same_size.add(v.args[0].id)
                    nxt = Rg.reaching_value(v.args[0]) if hasattr(
                        v.args[0], "_parent") else None
                    v = nxt
                else:
                    break
            ok = False
            for a in conditions_at(c):
                nd = a.node
                if not (a.pol and isinstance(nd, ast.Compare)
                        and len(nd.ops) == 1 and isinstance(
                            nd.comparators[0], ast.Constant)):
                    continue
                lt = norm(nd.left)
                about = any(lt in (f"len({n_})", f"{n_}.size",
                                   f"{n_}.shape[0]") for n_ in same_size)
                k = nd.comparators[0].value
                if about and isinstance(k, int) and (
                        (isinstance(nd.ops[0], ast.Gt) and k >= 1)
                        or (isinstance(nd.ops[0], ast.GtE) and k >= 2)):
                    ok = True
            ctx.check(ok, c, f"{name}: np.gradient({x}) on at least two "
                      "samples",
                      f"feature {name} calls np.gradient({x}) without a "
                      f"test that `{x}` has at least two samples: for a "
                      "contact point that leaves a single sample in that "
                      "part np.gradient raises ValueError and the feature "
                      "(and rate_quality) raise instead of yielding NaN")
    # compute_features converts every feature to float (bool/NaN safe)
    cf = meths["compute_features"]
    ok = any(isinstance(c, ast.Call) and call_name(c) == "float"
             for c in calls_in(cf))
    ctx.check(ok, cf, "features converted with float()",
              "feature values are no longer converted to float")


def r3_approach_only_readonly(ctx):
    m, meths, feats = _feats(ctx)
    for name, f in sorted(feats.items()):
        direct = [n for n in walk_no_nested(f, False)
                  if isinstance(n, ast.Attribute) and dotted(n) ==
                  "self.dataset"]
        ctx.check(not direct, f, f"{name}: no direct dataset access",
                  f"feature {name} reads the curve directly instead of "
                  "through the approach-segment accessors (retract data or "
                  "state can leak into the feature)")
        # no mutation of self.* / accessor state
        for n in walk_no_nested(f, False):
            if isinstance(n, (ast.Assign, ast.AugAssign)):
                tg = n.targets if isinstance(n, ast.Assign) else [n.target]
                for t in tg:
                    b = t
                    while isinstance(b, (ast.Subscript, ast.Attribute)):
                        b = b.value
                    if isinstance(b, ast.Name) and b.id == "self":
                        ctx.fail(n, f"{name}: {norm(n)[:50]}",
                                 f"feature {name} writes to the object")
    for acc in ("datafit_apr", "datax_apr", "datay_apr"):
        f = meths.get(acc)
        if f is None:
            raise AnchorError(f"accessor {acc} missing")
        ctx.analysed(f)
        R = Resolver(f)
        rets = [r for r in walk_no_nested(f, False)
                if isinstance(r, ast.Return)]
        if len(rets) != 1:
            raise Undecided(f"{acc}: several returns")
        t = R.text(rets[0].value)
        masked = "[self.dataset['segment'] == 0]" in t
        ctx.check(masked, rets[0], f"{acc} = {t[:80]}",
                  f"accessor {acc} does not restrict the column to the "
                  "approach segment (segment == 0): features depend on "
                  "retract data")
        fresh = t.endswith(".copy()") or masked   # boolean indexing copies
        ctx.check(fresh, rets[0], f"{acc} returns a fresh array",
                  f"accessor {acc} returns a view of the curve's column")
        for c in calls_in(f):
            if isinstance(c.func, ast.Attribute) and c.func.attr in (
                    "__setitem__", "fill", "sort", "resize", "setflags"):
                ctx.fail(c, norm(c)[:50], f"{acc} mutates curve data")
        for st in walk_no_nested(f, False):
            if isinstance(st, ast.Assign) and isinstance(
                    st.targets[0], ast.Subscript) and "self.dataset" in norm(
                        st.targets[0]):
                ctx.fail(st, norm(st)[:50], f"{acc} writes a curve column")
    # nothing in the class edits the curve or its fit properties
    from ..effects import MUT_METHODS
    n_m = 0
    for name, f in sorted(meths.items()):
        if getattr(f, "_inlined_helper", False):
            continue
        Rm = Resolver(f)
        for c in calls_in(f):
            if isinstance(c.func, ast.Attribute) and c.func.attr in (
                    MUT_METHODS | {"__setitem__", "__delitem__"}):
                base = Rm.text(c.func.value) if hasattr(
                    c.func.value, "_parent") else norm(c.func.value)
                n_m += 1
                ctx.check(not base.startswith("self.dataset"), c,
                          f"{name}: {norm(c)[:50]} does not touch the curve",
                          f"IndentationFeatures.{name} calls "
                          f"`{norm(c)[:60]}` on the curve: computing "
                          f"features changes the curve (e.g. setdefault "
                          f"adds a fit-properties key behind "
                          f"FitProperties.__setitem__)")
        for st in walk_no_nested(f, False):
            tg = []
            if isinstance(st, ast.Assign):
                tg = st.targets
            elif isinstance(st, (ast.AugAssign, ast.AnnAssign)):
                tg = [st.target]
            elif isinstance(st, ast.Delete):
                tg = st.targets
            for t in tg:
                if isinstance(t, (ast.Subscript, ast.Attribute)):
                    base = Rm.text(t.value) if hasattr(
                        t.value, "_parent") else norm(t.value)
                    if base.startswith("self.dataset"):
                        ctx.fail(st, f"{name}: {norm(st)[:50]}",
                                 f"IndentationFeatures.{name} writes to the "
                                 "curve")
    cp = meths["contact_point"]
    R = Resolver(cp)
    rets = [r for r in walk_no_nested(cp, False) if isinstance(r, ast.Return)]
    ok = rets and R.text(rets[0].value) == \
        "self.dataset.fit_properties['params_fitted']['contact_point'].value"
    ctx.check(bool(ok), cp, "contact_point = fitted contact point",
              "the contact_point accessor is not the fitted contact point")


def names_sorted(ctx):
    """every return of get_feature_names is preceded by the unconditional
    final `sorted()` of the returned list (shared with C15)"""
    m, meths, feats = _feats(ctx)
    gn = meths["get_feature_names"]
    ctx.analysed(gn)
    rets = [r for r in walk_no_nested(gn, False) if isinstance(r, ast.Return)]
    names_var = None
    for r in rets:
        v = r.value
        first = v.elts[0] if isinstance(v, ast.Tuple) else v
        names_var = norm(first)
        # the last assignment to the returned name before the return is
        # sorted(<same name>)
        assigns = [s for s in walk_no_nested(gn, False)
                   if isinstance(s, ast.Assign)
                   and norm(s.targets[0]) == names_var]
        last_sorted = [s for s in assigns if isinstance(s.value, ast.Call)
                       and call_name(s.value) == "sorted"]
        ok = False
        if last_sorted:
            ls = last_sorted[-1]
            # it is unconditional at function level and later than every
            # other assignment
            top_level = any(ls is s for s in gn.body)
            later = [s for s in assigns if s.lineno > ls.lineno]
            ok = top_level and not later
        ctx.check(ok, r, f"{norm(r.value)[:40]}: names sorted before every "
                  "return",
                  "get_feature_names can return the names unsorted (e.g. "
                  "for a list-valued which_type): feature columns of "
                  "training set, rater and rating no longer line up")


def r4_order(ctx):
    names_sorted(ctx)
    m, meths, feats = _feats(ctx)
    # compute_features: iterates the list it returns
    cf = meths["compute_features"]
    ctx.analysed(cf)
    ok = False
    gcalls = [c for c in ast.walk(cf) if isinstance(c, ast.Call)
              and call_name(c) == "getattr"]
    for gc in gcalls:
        # the enclosing loop: a for statement or a comprehension
        it = var = None
        p_ = getattr(gc, "_parent", None)
        while p_ is not None and p_ is not cf:
            if isinstance(p_, ast.For):
                it, var = norm(p_.iter), norm(p_.target)
                break
            if isinstance(p_, (ast.ListComp, ast.GeneratorExp)) and \
                    len(p_.generators) == 1:
                it = norm(p_.generators[0].iter)
                var = norm(p_.generators[0].target)
                break
            p_ = getattr(p_, "_parent", None)
        if it is None:
            continue
        rr = [r for r in walk_no_nested(cf, False)
              if isinstance(r, ast.Return) and isinstance(
                  r.value, ast.Tuple)]
        ok = all(norm(r.value.elts[1]) == it for r in rr) and bool(rr)
        ctx.check(norm(gc.args[1]) == var and norm(gc.args[0]) == "inst", gc,
                  "feature looked up by its own name on the instance",
                  "features are looked up under a different name")
    ctx.check(ok, cf, "samples computed in the order of the returned names",
              "compute_features returns names in a different order than "
              "the samples were computed")
    # the sorted list that get_feature_names hands back is not put back
    # into the order of the caller's `names`
    assigns = [a for a in walk_no_nested(cf, False)
               if isinstance(a, ast.Assign) and len(a.targets) == 1
               and isinstance(a.targets[0], ast.Name)]
    iterated = {norm(p_.iter) for p_ in ast.walk(cf)
                if isinstance(p_, ast.For) and any(
                    call_name(c) == "getattr" for c in calls_in(p_))}
    flows = set(iterated)
    for _ in range(3):
        for a in assigns:
            if a.targets[0].id in flows and isinstance(a.value, ast.Name):
                flows.add(a.value.id)
    for a in assigns:
        v = a.value
        if isinstance(v, ast.Call) and call_name(v) in ("list", "tuple") \
                and v.args:
            v = v.args[0]
        if isinstance(v, (ast.ListComp, ast.GeneratorExp)) and \
                a.targets[0].id in flows and \
                norm(v.generators[0].iter) == "names" and \
                "names" in func_params(cf):
            ctx.fail(a, f"feature list rebuilt in caller order: "
                     f"{norm(a)[:60]}",
                     "compute_features rebuilds the list of features by "
                     "walking the caller's `names`: features and returned "
                     "names come in the order requested instead of the "
                     "sorted order of the names (the rater's columns and "
                     "the training sets use the sorted order)")
    # explicit names: the documented property wants sorted order
    keep = [n for n in walk_no_nested(cf, False) if isinstance(n, ast.If)
            and "names is None" in norm(n.test)]
    for k in keep:
        t = norm(k.test)
        ctx.check("which_type != 'all'" not in t, k,
                  f"explicit names are sorted too ({t})",
                  "compute_features(names=[...], which_type='all') keeps "
                  "the caller's order instead of the sorted order of the "
                  "names requested (documented as intentional in a code "
                  "comment)")


def r5_ranges(ctx):
    m, meths, feats = _feats(ctx)
    for name, f in sorted(feats.items()):
        rets = [r for r in walk_no_nested(f, False)
                if isinstance(r, ast.Return)]
        R = Resolver(f)
        if name.startswith("feat_bin_"):
            # every value assigned to the returned variable is a bool
            # constant, a comparison, or NaN
            vals = []
            for r in rets:
                v = r.value
                if isinstance(v, ast.Name):
                    vals.extend(d for d in R.defs.get(v.id, [])
                                if d is not None)
                else:
                    vals.append(v)
            def boolish(v):
                if isinstance(v, ast.Constant):
                    return isinstance(v.value, bool)
                if isinstance(v, ast.Compare):
                    return True
                if isinstance(v, ast.UnaryOp) and isinstance(v.op, ast.Not):
                    return True
                if isinstance(v, ast.BoolOp):
                    return all(boolish(x) for x in v.values)
                if isinstance(v, ast.Call) and call_name(v) == "bool":
                    return True
                if isinstance(v, ast.IfExp):
                    return boolish(v.body) and boolish(v.orelse)
                return norm(v) in ("np.nan", "numpy.nan")
            ok = bool(vals) and all(boolish(v) for v in vals)
            ctx.check(ok, f, f"{name}: returns bool or NaN",
                      f"binary feature {name} can return something other "
                      "than True/False/NaN: "
                      + ", ".join(norm(v)[:30] for v in vals))
            continue
        # continuous: the last non-NaN definition of the result
        logs = []
        for n in walk_no_nested(f, False):
            if isinstance(n, ast.Call) and call_name(n) in ("np.log",
                                                            "numpy.log"):
                logs.append(n)
        for lg in logs:
            a = lg.args[0]
            ok = isinstance(a, ast.BinOp) and isinstance(a.op, ast.Add) and (
                norm(a.left) == "1" or norm(a.right) == "1")
            ctx.check(ok, lg, f"{name}: {norm(lg)[:40]} is log(1 + v)",
                      f"{name}: logarithm of something other than 1 + v "
                      "(can be negative or undefined)")
            if ok:
                other = a.right if norm(a.left) == "1" else a.left
                nonneg = _nonneg(other, R, f)
                signed_ok = name == "feat_con_cp_curvature"
                ctx.check(nonneg or signed_ok, lg,
                          f"{name}: argument of log(1 + v) is non-negative",
                          f"{name}: v in log(1 + v) is not provably "
                          "non-negative: the magnitude feature can become "
                          "negative or NaN for valid curves")
        # the value that leaves the feature
        outs = []
        for r in rets:
            if isinstance(r.value, ast.Name):
                vs = R.reaching_values(r.value)
                if vs is None:
                    raise Undecided(f"{name}: returned value is not built "
                                    "by plain assignments")
                outs.extend(vs)
            elif r.value is not None:
                outs.append(r.value)
        outs = [v for v in outs if norm(v) not in ("np.nan", "numpy.nan")]
        ctx.floor(f"{name}: non-NaN results", len(outs), 1)
        if name in SIGNED:
            ctx.ok(f, f"{name}: signed by design ({SIGNED[name]})")
            continue
        for v in outs:
            if name in FRACTIONS:
                ok = _fraction_shape(v, R, f)
                ctx.check(ok, v, f"{name}: {norm(v)[:40]} is a/(a+b) or "
                          "1 - count/size",
                          f"fraction feature {name} is no longer a "
                          f"part-of-whole ratio ({norm(v)[:60]}): it can "
                          f"leave [0, 1]")
            else:
                ctx.check(_nonneg(v, R, f), v,
                          f"{name}: result {norm(v)[:40]} is non-negative",
                          f"magnitude feature {name} returns "
                          f"{norm(v)[:70]}, which is not provably "
                          f"non-negative when the approach force reaches "
                          f"positive values (e.g. normalised by a single "
                          f"sample instead of the maximum force)")


FORCE_ACCESSORS = ("self.datay_apr",)
SIGNED = {"feat_con_cp_curvature": "log magnitude times the sign of the "
          "curvature"}
FRACTIONS = ("feat_con_apr_flatness", "feat_con_apr_size")


def _fraction_shape(v, R, f):
    """a/(a+b) with a, b >= 0, or 1 - count(mask over x)/size(x)"""
    v = R.build(v) if hasattr(v, "_parent") else v
    if isinstance(v, ast.BinOp) and isinstance(v.op, ast.Div):
        den = v.right
        if isinstance(den, ast.BinOp) and isinstance(den.op, ast.Add):
            a = norm(v.left)
            sides = [den.left, den.right]
            if a in (norm(sides[0]), norm(sides[1])):
                return all(_nonneg_built(x) for x in sides)
        return False
    if isinstance(v, ast.BinOp) and isinstance(v.op, ast.Sub) and \
            norm(v.left) == "1" and isinstance(v.right, ast.BinOp) and \
            isinstance(v.right.op, ast.Div):
        cnt, size = v.right.left, v.right.right
        if not (isinstance(cnt, ast.Call) and (call_name(cnt) or "").split(
                ".")[-1] in ("sum", "count_nonzero") and cnt.args
                and isinstance(cnt.args[0], ast.Compare)):
            return False
        arr = norm(cnt.args[0].left)
        return norm(size) in (f"{arr}.shape[0]", f"{arr}.size",
                              f"len({arr})")
    return False


def _nonneg_built(x):
    """sign of a fully resolved expression: counts and sums of masks/abs"""
    if isinstance(x, ast.Call):
        short = (call_name(x) or "").split(".")[-1]
        if short in ("abs", "absolute", "count_nonzero", "len"):
            return True
        if short in ("sum", "nansum", "mean") and x.args:
            a = x.args[0]
            return isinstance(a, ast.Compare) or _nonneg_built(a)
    if isinstance(x, ast.Constant):
        return isinstance(x.value, (int, float)) and x.value >= 0
    if isinstance(x, ast.BinOp) and isinstance(x.op, (ast.Add, ast.Mult,
                                                     ast.Div)):
        return _nonneg_built(x.left) and _nonneg_built(x.right)
    return False


def _is_force(expr, R, depth=0):
    """expr is (a view of) the approach force"""
    if depth > 4:
        return False
    if isinstance(expr, ast.Attribute):
        return dotted(expr) in FORCE_ACCESSORS
    if isinstance(expr, ast.Name):
        ds = [d for d in R.defs.get(expr.id, []) if d is not None]
        return bool(ds) and all(_is_force(d, R, depth + 1) for d in ds)
    return False


def _is_mask_or_count(expr, R, depth=0):
    if depth > 4:
        return False
    if isinstance(expr, ast.Compare):
        return True
    if isinstance(expr, ast.Name):
        ds = [d for d in R.defs.get(expr.id, []) if d is not None]
        return bool(ds) and all(_is_mask_or_count(d, R, depth + 1)
                                for d in ds)
    return False


def _nonneg(expr, R, f, depth=0):
    """syntactic sign analysis: is expr >= 0, given the stated premise that
    the approach force reaches positive values (max(force) > 0)?"""
    if depth > 20:
        return False
    if isinstance(expr, ast.Constant):
        return isinstance(expr.value, (int, float)) and expr.value >= 0
    if isinstance(expr, ast.Name):
        ds = [d for d in R.defs.get(expr.id, []) if d is not None]
        return bool(ds) and all(_nonneg(d, R, f, depth + 1) for d in ds)
    if isinstance(expr, ast.Call):
        cn = call_name(expr) or ""
        short = cn.split(".")[-1] if cn else (
            expr.func.attr if isinstance(expr.func, ast.Attribute) else "")
        recv = expr.func.value if isinstance(expr.func, ast.Attribute) and \
            not cn.startswith(("np.", "numpy.")) else None
        arg0 = recv if recv is not None else (expr.args[0] if expr.args
                                              else None)
        if short in ("abs", "absolute", "std", "nanstd", "var", "sqrt",
                     "count_nonzero"):
            return True
        if short in ("max", "nanmax", "amax") and arg0 is not None and \
                _is_force(arg0, R):
            return True          # premise: the force reaches positive values
        if short in ("sum", "nansum", "max", "nanmax", "mean", "average",
                     "min"):
            if arg0 is not None and _is_mask_or_count(arg0, R):
                return True
            return arg0 is not None and _nonneg(arg0, R, f, depth + 1)
        if short in ("log",):
            a = expr.args[0]
            return isinstance(a, ast.BinOp) and isinstance(a.op, ast.Add) \
                and (norm(a.left) == "1" or norm(a.right) == "1")
        if short in ("int", "float", "len"):
            return short == "len" or (bool(expr.args) and _nonneg(
                expr.args[0], R, f, depth + 1))
        return False
    if isinstance(expr, ast.BinOp):
        if isinstance(expr.op, (ast.Mult, ast.Div, ast.Add)):
            return _nonneg(expr.left, R, f, depth + 1) and \
                _nonneg(expr.right, R, f, depth + 1)
        return False
    if isinstance(expr, ast.Subscript):
        if isinstance(expr.value, ast.Attribute) and expr.value.attr == \
                "shape":
            return True
        # element i of a local bound to tuples (None alternatives cannot
        # be indexed: that path does not get here)
        if isinstance(expr.slice, ast.Constant) and isinstance(
                expr.slice.value, int) and isinstance(expr.value, ast.Name):
            ds = [d for d in R.defs.get(expr.value.id, []) if d is not None
                  and not (isinstance(d, ast.Constant) and d.value is None)]
            if ds and all(isinstance(d, ast.Tuple) and len(d.elts) >
                          expr.slice.value for d in ds):
                return all(_nonneg(d.elts[expr.slice.value], R, f,
                                   depth + 1) for d in ds)
        return _nonneg(expr.value, R, f, depth + 1)
    if isinstance(expr, ast.Attribute):
        if dotted(expr) in ("np.nan", "numpy.nan"):
            return True      # NaN is an allowed outcome
        return expr.attr in ("size", "ndim")
    if isinstance(expr, (ast.List, ast.Tuple)):
        return all(_nonneg(e, R, f, depth + 1) for e in expr.elts)
    if isinstance(expr, (ast.ListComp, ast.GeneratorExp)):
        return _nonneg(expr.elt, R, f, depth + 1)
    return False



def r6_divisions_cannot_raise(ctx):
    """Each feature is NaN or finite - never an exception: a quotient whose
    denominator can be zero for a fitted curve (a count of samples, a sum of
    counts) is computed on numpy numbers, where 0/0 is NaN; on Python
    integers (`len(...)`, `int(...)`) the same quotient raises
    ZeroDivisionError.  Accepted: a denominator that is not purely built
    from len()/int() values, or a guard that excludes zero."""
    from ..symres import Resolver
    m, meths, feats = _feats(ctx)
    n = 0

    def pyint(e):
        if isinstance(e, ast.Call) and (call_name(e) or "") in (
                "len", "int"):
            return True
        if isinstance(e, ast.BinOp) and isinstance(
                e.op, (ast.Add, ast.Sub, ast.Mult)):
            return pyint(e.left) and pyint(e.right)
        return False
    for name, f in sorted(feats.items()):
        R = Resolver(f)
        for d in walk_no_nested(f, False):
            if not (isinstance(d, ast.BinOp) and isinstance(
                    d.op, (ast.Div, ast.FloorDiv, ast.Mod))):
                continue
            n += 1
            den = R.resolve(d.right)
            if not pyint(den):
                continue
            dt = R.text(d.right)
            conds = conditions_at(d)
            guarded = any(a.pol and (R.text(a.node) in (
                dt, f"{dt} > 0", f"{dt} != 0", f"{dt} >= 1")
                or a.text in (norm(d.right), f"{norm(d.right)} > 0",
                              f"{norm(d.right)} != 0")) for a in conds)
            ctx.check(guarded, d, f"{name}: integer denominator excluded "
                      "from being zero",
                      f"feature {name} divides by `{dt[:50]}`, a Python "
                      "integer that is zero for some fitted curve (no "
                      "sample on either side): ZeroDivisionError instead of "
                      "a NaN feature")
    ctx.floor("quotients in feature methods", n, 5)


RULES = [
    ("C17-R1", "every feature is invariant under a common scaling of force "
     "and fit (scale types)", r1_scale_invariance),
    ("C17-R2", "NaN instead of error without a successful fit",
     r2_nan_not_error),
    ("C17-R3", "approach segment only; accessors fresh; nothing mutated",
     r3_approach_only_readonly),
    ("C17-R4", "names sorted on every path; samples follow the returned "
     "names", r4_order),
    ("C17-R5", "binary features bool/NaN; magnitude results non-negative; "
     "fraction shapes", r5_ranges),
    ("C17-R6", "no feature quotient can raise ZeroDivisionError (counts are "
     "numpy numbers or the zero case is excluded)",
     r6_divisions_cannot_raise),
]
