"""C14 — preprocessing order rules are enforced and auto-sorting always
satisfies them."""
from __future__ import annotations

import ast
import re

from .. import facts, fitrules
from ..astutil import (Opaque, call_name, calls_in, const_str, dotted,
                       func_params,
                       literal, norm, walk_no_nested)
from ..cfg import CFG
from ..guards import conditions_at
from ..loader import AnchorError, Undecided
from ..symres import Resolver

EXPLANATION = (
    "Decided from the step declarations and the shape of autosort / "
    "check_order / apply: (R1) the requirement graph built from the "
    "@preprocessing_step decorators is well formed: identifiers unique, "
    "every required/optional identifier declared, required+optional "
    "precedence graph acyclic; (R2) autosort returns a permutation of its "
    "input: it works on a copy, the only mutations of the copy are "
    "remove(s) followed by insert(i, s) of the same s after a successful "
    "index(s), the insertion index is a position in the list being sorted "
    "and a precursor is moved only when it is behind its step; (R3) every "
    "value autosort "
    "returns has passed check_order, and available() is autosort of all "
    "declared identifiers; (R4) preproc.apply runs a step only if it is "
    "available (else KeyError) and its required steps are a subset of the "
    "identifiers *before* it in the list (else ValueError); (R5) "
    "check_order raises when a required, or a present optional, step comes "
    "later, and the two tests are independent of each other; (R6) the "
    "declared graph contains precursor chains of three edges, for which a "
    "single insertion pass provably fails (the counterexample selection is "
    "constructed from the chain); autosort must therefore repeat its pass "
    "with a move flag that is reset per pass, set on every move and ends "
    "the repetition when a pass moved nothing - the returned list is then a "
    "fixed point of the pass, i.e. no examined precursor is behind its "
    "step.")
NOT_DECIDED = [
    "that the bounded repetition of the insertion pass reaches its fixed "
    "point within len(identifiers) passes for every admissible ordered "
    "selection (if it did not, the final check_order raises instead of "
    "returning an invalid order); idempotence follows from the fixed point "
    "only together with that bound - enumerating the 1957 selections is "
    "execution, a different technique family (findings/"
    "repro_F23_autosort_single_pass.py is the hand-run enumeration)",
]


def _declared_attributes_verbatim(ctx):
    """the decorator stores what was declared: `func.steps_required`,
    `func.steps_optional` (and the other attributes) are the decorator's
    arguments themselves, unconditionally - a filtered or conditional
    store makes the order rules the library follows differ from the
    declared ones"""
    pre = ctx.repo.mod("preproc")
    f = pre.func("preprocessing_step.attribute_setter")
    outer = pre.func("preprocessing_step")
    oparams = func_params(outer)
    n = 0
    for st in walk_no_nested(f, False):
        if not isinstance(st, ast.Assign):
            continue
        for t in st.targets:
            if isinstance(t, ast.Attribute) and isinstance(
                    t.value, ast.Name) and t.attr in oparams:
                n += 1
                conds_ = [a for a in conditions_at(st)
                          if not isinstance(a.origin, ast.Assert)]
                ok = isinstance(st.value, ast.Name) and \
                    st.value.id == t.attr and not conds_
                ctx.check(ok, st, f"func.{t.attr} = the declared {t.attr}",
                          f"the step decorator stores `{norm(st.value)[:50]}`"
                          + (" (conditionally)" if conds_ else "")
                          + f" as `{t.attr}` instead of the declared value: "
                          "autosort and check_order then follow other order "
                          "rules than the ones the steps declare (e.g. an "
                          "optional predecessor registered later is dropped)")
    ctx.floor("attributes stored by the step decorator", n, 4)


def r1_graph(ctx):
    _declared_attributes_verbatim(ctx)
    _r1_graph(ctx)


def _r1_graph(ctx):
    steps = facts.preprocessing_steps(ctx.repo)
    ctx.floor("declared preprocessing steps", len(steps), 6)
    ids = [k.get("identifier") for f, k, d in steps]
    ctx.check(len(ids) == len(set(ids)) and all(isinstance(i, str)
                                                for i in ids),
              steps[0][2], f"identifiers unique: {ids}",
              "preprocessing identifiers are not unique strings")
    edges = {i: set() for i in ids}
    for f, k, d in steps:
        me = k.get("identifier")
        for kind in ("steps_required", "steps_optional"):
            v = k.get(kind)
            if v is None:
                continue
            if not isinstance(v, list):
                raise Undecided(f"{kind} of {me} is not a literal list")
            for x in v:
                ctx.check(x in ids, d, f"{me}: {kind} '{x}' is declared",
                          f"step '{me}' names unknown {kind} '{x}': "
                          "autosort/check_order raise KeyError for every "
                          "selection containing it")
                if x in ids:
                    edges[me].add(x)
            if kind == "steps_required":
                ctx.check(me not in v, d, f"{me} does not require itself",
                          f"step '{me}' requires itself")
    # acyclic
    state = {}
    cyc = []

    def dfs(n, path):
        state[n] = 1
        for m in sorted(edges[n]):
            if state.get(m) == 1:
                cyc.append(path + [n, m])
            elif m not in state:
                dfs(m, path + [n])
        state[n] = 2
    for i in ids:
        if i not in state:
            dfs(i, [])
    ctx.check(not cyc, steps[0][2], "precedence graph acyclic",
              f"required/optional precedence has a cycle {cyc[:1]}: no "
              "order can satisfy check_order")
    # the decorator stores what the checkers read
    pre = ctx.repo.mod("preproc")
    setter = pre.func("preprocessing_step.attribute_setter")
    got = {}
    for st in walk_no_nested(setter, False):
        if isinstance(st, ast.Assign) and isinstance(
                st.targets[0], ast.Attribute) and norm(
                    st.targets[0].value) == "func":
            got[st.targets[0].attr] = norm(st.value)
    for a in ("identifier", "steps_required", "steps_optional"):
        ctx.check(got.get(a) == a, setter, f"func.{a} = {got.get(a)}",
                  f"the decorator stores {got.get(a)} as func.{a}")
    ok = any(call_name(c) == "PREPROCESSORS.append" and norm(c.args[0]) ==
             "func" for c in calls_in(setter))
    ctx.check(ok, setter, "decorated function registered",
              "the decorator does not register the step")


def r7_producer_before_consumer(ctx):
    """rule table derived from the steps' own data flow instead of from
    their declarations: a step that *creates* a column (assigns
    `apret[<name>]` without reading it) must be a declared predecessor -
    required (directly or through required steps) or optional - of every
    other step that addresses that column by name; otherwise an order in
    which the consumer runs first is accepted and the consumer silently
    skips the column that does not exist yet"""
    steps = facts.preprocessing_steps(ctx.repo)
    ids = {k.get("identifier"): (f, k, d) for f, k, d in steps}

    def strings(f):
        doc = None
        if f.body and isinstance(f.body[0], ast.Expr) and isinstance(
                f.body[0].value, ast.Constant):
            doc = f.body[0].value
        return {n.value for n in ast.walk(f) if isinstance(n, ast.Constant)
                and isinstance(n.value, str) and n is not doc}

    creates = {}
    for me, (f, k, d) in ids.items():
        ps = func_params(f)
        if not ps:
            continue
        ap = ps[0]
        stored, loaded = set(), set()
        for n in ast.walk(f):
            if isinstance(n, ast.Subscript) and isinstance(
                    n.value, ast.Name) and n.value.id == ap and isinstance(
                    n.slice, ast.Constant) and isinstance(n.slice.value, str):
                (stored if isinstance(n.ctx, ast.Store)
                 else loaded).add(n.slice.value)
        for n in ast.walk(f):
            if isinstance(n, ast.AugAssign) and isinstance(
                    n.target, ast.Subscript) and isinstance(
                    n.target.slice, ast.Constant):
                loaded.add(n.target.slice.value)
        for c in stored - loaded:
            creates.setdefault(c, set()).add(me)
    ctx.floor("columns created by a preprocessing step", len(creates), 1)

    def req_closure(me):
        out, todo = set(), [me]
        while todo:
            x = todo.pop()
            for r in (ids[x][1].get("steps_required") or []) if x in ids \
                    else []:
                if r not in out:
                    out.add(r)
                    todo.append(r)
        return out
    n = 0
    for col, producers in sorted(creates.items()):
        for me, (f, k, d) in sorted(ids.items()):
            if me in producers or col not in strings(f):
                continue
            for p_ in sorted(producers):
                n += 1
                declared = req_closure(me) | set(k.get("steps_optional")
                                                 or [])
                ctx.check(p_ in declared, d,
                          f"'{me}' addresses '{col}' created by '{p_}': "
                          "declared predecessor",
                          f"step '{me}' works on the column '{col}', which "
                          f"step '{p_}' creates, but does not declare "
                          f"'{p_}' as a required or optional predecessor: "
                          f"check_order accepts, and autosort keeps, "
                          f"['{me}', '{p_}'] - the column is then created "
                          f"after '{me}' ran and is left untreated")
    ctx.floor("consumer/producer pairs", n, 3)


LIST_MUT = {"remove", "insert", "append", "extend", "pop", "sort", "reverse",
            "clear", "__setitem__", "__delitem__"}


def r2_autosort_permutation(ctx):
    pre = ctx.repo.mod("preproc")
    fn = pre.func("autosort")
    ctx.analysed(fn)
    arg = fn.args.args[0].arg
    rets = [r for r in walk_no_nested(fn, False) if isinstance(r, ast.Return)]
    if len(rets) != 1 or not isinstance(rets[0].value, ast.Name):
        raise Undecided("autosort does not return a single local list")
    lv = rets[0].value.id
    defs = [st for st in walk_no_nested(fn, False) if isinstance(st, ast.Assign)
            and norm(st.targets[0]) == lv]
    ok = len(defs) == 1 and norm(defs[0].value) in (
        f"copy.copy({arg})", f"list({arg})", f"{arg}.copy()", f"{arg}[:]",
        f"copy.deepcopy({arg})")
    ctx.check(ok, defs[0] if defs else fn, f"{lv} = copy of the input",
              "autosort does not start from a copy of its input (the "
              "caller's list is reordered, or items are lost)")
    # no mutation of the argument
    for c in calls_in(fn):
        if isinstance(c.func, ast.Attribute) and c.func.attr in LIST_MUT and \
                norm(c.func.value) == arg:
            ctx.fail(c, norm(c), "autosort mutates its argument")
    cfg = CFG(fn)
    muts = [(n, c) for n in cfg.nodes for c in fitrules.node_calls(n)
            if isinstance(c.func, ast.Attribute) and c.func.attr in LIST_MUT
            and norm(c.func.value) == lv]
    stores = [n for n in cfg.nodes if n.kind == "stmt"
              and isinstance(n.ast, (ast.Assign, ast.AugAssign, ast.Delete))
              and any(isinstance(t, ast.Subscript) and norm(t.value) == lv
                      for t in (getattr(n.ast, "targets", None)
                                or [getattr(n.ast, "target", None)]) if t)]
    for n in stores:
        ctx.fail(n.ast, norm(n.ast)[:50], "autosort overwrites list items")
    removes = [(n, c) for n, c in muts if c.func.attr == "remove"]
    inserts = [(n, c) for n, c in muts if c.func.attr == "insert"]
    others = [(n, c) for n, c in muts if c.func.attr not in ("remove",
                                                             "insert")]
    for n, c in others:
        ctx.fail(c, norm(c), f"autosort applies {c.func.attr} to the list: "
                 "the result is not a permutation of the input")
    ctx.check(len(removes) == len(inserts) and len(removes) >= 1, fn,
              f"{len(removes)} remove / {len(inserts)} insert",
              "removals and insertions are not paired: items are lost or "
              "duplicated")
    for (rn, rc), (inn, ic) in zip(removes, inserts):
        same = len(rc.args) == 1 and len(ic.args) == 2 and \
            norm(rc.args[0]) == norm(ic.args[1])
        ctx.check(same, ic, f"remove({norm(rc.args[0])}) / "
                  f"insert(.., {norm(ic.args[1]) if len(ic.args) > 1 else '?'})",
                  "the item inserted is not the item removed")
        # insert follows remove immediately (same block, adjacent)
        succ = [t for (t, lab) in cfg.succ[rn.id] if lab != "exc"]
        ctx.check(succ == [inn.id], ic, "insert directly follows remove",
                  "a statement between remove and insert can observe or "
                  "change the list while the item is missing")
        # remove is safe: index(item) succeeded before
        item = norm(rc.args[0])
        idx_ok = any(cfg.dominates(n.id, rn.id) for n in cfg.nodes
                     if any(isinstance(c.func, ast.Attribute)
                            and c.func.attr == "index"
                            and norm(c.func.value) == lv and c.args
                            and norm(c.args[0]) == item
                            for c in fitrules.node_calls(n)))
        ctx.check(idx_ok, rc, f"index({item}) succeeded before remove",
                  "remove() of an item whose presence was not established")
        # the insertion index is fresh: between two executions of the insert
        # the index variable is recomputed
        iv = ic.args[0]
        if isinstance(iv, ast.Name):
            idefs = [n for n in cfg.nodes if n.kind == "stmt"
                     and isinstance(n.ast, ast.Assign)
                     and norm(n.ast.targets[0]) == iv.id]
            ok = all(isinstance(d.ast.value, ast.Call) and isinstance(
                d.ast.value.func, ast.Attribute)
                and d.ast.value.func.attr == "index"
                and norm(d.ast.value.func.value) == lv for d in idefs)
            ctx.check(ok and idefs, ic, f"insertion index {iv.id} = "
                      f"{lv}.index(..)",
                      "the insertion index is not a position in the list "
                      "being sorted")
            # the guard compares the precursor's position with it
            conds = conditions_at(ic)
            def behind(a):
                # the precursor's position is greater than the step's
                nd = a.node
                if not (isinstance(nd, ast.Compare) and len(nd.ops) == 1):
                    return False
                l, r_ = norm(nd.left), norm(nd.comparators[0])
                op = type(nd.ops[0])
                if iv.id not in (l, r_):
                    return False
                if a.pol:
                    return (r_ == iv.id and op in (ast.Gt, ast.GtE)) or \
                        (l == iv.id and op in (ast.Lt, ast.LtE))
                return (r_ == iv.id and op in (ast.Lt, ast.LtE)) or \
                    (l == iv.id and op in (ast.Gt, ast.GtE))
            gt = [a for a in conds if behind(a)]
            ctx.check(bool(gt), ic, "move only when the precursor is behind",
                      "precursors are moved unconditionally")
    # the outer loop visits every identifier, the inner every precursor
    loops = [n for n in walk_no_nested(fn, False) if isinstance(n, ast.For)]
    ok = any(norm(lp.iter) in (arg, lv, f"list({arg})") for lp in loops)
    ctx.check(ok, fn, "every identifier is visited",
              "autosort does not visit every identifier")
    R = Resolver(fn)
    prec = [lp for lp in loops if "precursor" in R.text(lp.iter)
            or "required" in R.text(lp.iter)]
    ctx.check(bool(prec), fn, "precursors of each step are visited",
              "autosort does not iterate over the precursors of a step")
    # precursors = required + optional-if-present
    txt = " ".join(norm(s) for s in fn.body)
    ctx.check("meth.steps_required" in txt and "meth.steps_optional" in txt,
              fn, "required and optional precursors considered",
              "autosort ignores required or optional precursors")
    for n in walk_no_nested(fn, False):
        if isinstance(n, ast.Call) and isinstance(n.func, ast.Attribute) and \
                n.func.attr == "append" and "precursor" in norm(n.func.value):
            conds = conditions_at(n)
            ctx.check(any(a.pol and a.text.endswith(f" in {arg}")
                          for a in conds), n,
                      "optional precursor only if selected",
                      "an optional step that is not selected is treated as "
                      "precursor (index() raises ValueError)")


def r3_postcheck(ctx):
    pre = ctx.repo.mod("preproc")
    fn = pre.func("autosort")
    cfg = CFG(fn)
    rets = [n for n in cfg.nodes if n.kind == "stmt"
            and isinstance(n.ast, ast.Return)]
    for r in rets:
        v = norm(r.ast.value) if r.ast.value is not None else None
        chk = [n for n in cfg.nodes if any(
            call_name(c) == "check_order" and c.args and norm(c.args[0]) == v
            for c in fitrules.node_calls(n))]
        ok = any(cfg.dominates(c.id, r.id) for c in chk)
        # no mutation between check and return
        if ok:
            after = cfg.reach([chk[0].id], skip_labels=("exc",))
            for n in cfg.nodes:
                if n.id in after and any(
                        isinstance(c.func, ast.Attribute)
                        and c.func.attr in LIST_MUT
                        and norm(c.func.value) == v
                        for c in fitrules.node_calls(n)):
                    ok = False
        ctx.check(ok, r.ast, f"return {v} after check_order({v})",
                  "autosort can return a list that has not passed "
                  "check_order: an invalid order is silently handed to "
                  "apply()")
    av = pre.func("available")
    ctx.analysed(av)
    R = Resolver(av)
    rets = [r for r in walk_no_nested(av, False) if isinstance(r, ast.Return)]
    t = R.text(rets[0].value) if rets else ""
    ctx.check(t == "autosort([pp.identifier for pp in PREPROCESSORS])", av,
              f"available() = {t}",
              "available() is not autosort of all declared identifiers")


SUBSET_FORMS = (
    "set({req}) & set({act}) != set({req})",
    "set({act}) & set({req}) != set({req})",
    "not set({req}) <= set({act})",
    "not set({req}).issubset({act})",
    "not set({req}).issubset(set({act}))",
    "set({req}) - set({act})",
    "not set({act}) >= set({req})",
)


def r4_apply_enforces(ctx):
    pre = ctx.repo.mod("preproc")
    fn = pre.func("apply")
    ctx.analysed(fn)
    cfg = CFG(fn)
    loops = [n for n in walk_no_nested(fn, False) if isinstance(n, ast.For)
             and "identifiers" in norm(n.iter)]
    if not loops:
        raise AnchorError("apply has no loop over identifiers")
    lp = loops[0]
    ok = isinstance(lp.iter, ast.Call) and call_name(lp.iter) == "enumerate" \
        and norm(lp.iter.args[0]) == "identifiers" and isinstance(
            lp.target, ast.Tuple)
    if not ok:
        raise Undecided("apply does not enumerate identifiers")
    ii, pid = [norm(e) for e in lp.target.elts]
    # the list that is judged and run is the list the caller gave (under
    # either keyword), element for element: not sorted, filtered or
    # completed first
    params = func_params(fn)
    for st in walk_no_nested(fn, False):
        tgs = st.targets if isinstance(st, ast.Assign) else (
            [st.target] if isinstance(st, (ast.AugAssign, ast.AnnAssign))
            else [])
        for t in tgs:
            if norm(t) != "identifiers":
                continue
            v = getattr(st, "value", None)
            while isinstance(v, ast.Call) and call_name(v) in (
                    "list", "tuple", "copy.copy", "copy.deepcopy") and len(
                    v.args) == 1 and not v.keywords:
                v = v.args[0]
            plain = isinstance(st, ast.Assign) and (
                (isinstance(v, ast.Name) and v.id in params) or
                (isinstance(v, (ast.List, ast.Tuple)) and not v.elts))
            ctx.check(plain, st, f"apply: {norm(st)[:50]} keeps the given "
                      "list",
                      f"preproc.apply replaces the list it was given by "
                      f"`{norm(getattr(st, 'value', st))[:50]}` before "
                      "judging it: a list whose required steps come too "
                      "late (or that lacks them) is then accepted, or other "
                      "steps run than the ones listed")
    R = Resolver(fn, keep={ii, pid})
    # step call
    calls = [c for c in calls_in(lp) if isinstance(c.func, ast.Name) and
             R.text(c.func) == f"get_func({pid})"]
    ctx.floor("step invocation in apply", len(calls), 1)
    call = calls[0]
    cn = cfg.node_containing(call)
    conds = conditions_at(call, stop=lp)
    ctx.check(any(a.pol and a.text == f"{pid} in available()" for a in conds),
              call, "step runs only if available",
              "apply() runs identifiers that are not available steps")
    # every entry of the list is either run or rejected: none is skipped
    def own_(node):
        for ch in ast.iter_child_nodes(node):
            if isinstance(ch, (ast.For, ast.While, ast.FunctionDef,
                               ast.Lambda)):
                continue
            yield ch
            yield from own_(ch)
    skips = [x for st_ in lp.body for x in [st_] + list(own_(st_))
             if isinstance(x, (ast.Continue, ast.Break))]
    for sk in skips:
        cs = [repr(a) for a in conditions_at(sk, stop=lp)]
        ctx.fail(sk, f"apply: entry skipped when {' and '.join(cs)[:60]}",
                 f"apply() skips list entries ({' and '.join(cs)[:80]}) "
                 "instead of running or rejecting them: an identifier "
                 "that is not an available step (e.g. '' or None) is "
                 "accepted silently")
    # unknown identifiers raise KeyError
    rk = [n for n in cfg.nodes if n.kind == "stmt"
          and isinstance(n.ast, ast.Raise) and "KeyError" in norm(n.ast)]
    ok = any(any((not a.pol) and a.text == f"{pid} in available()"
                 for a in conditions_at(r.ast, stop=lp)) for r in rk)
    ctx.check(ok, lp, "unknown identifier raises KeyError",
              "unknown identifiers are not rejected with KeyError")
    # requirement check
    rv = [n for n in cfg.nodes if n.kind == "stmt"
          and isinstance(n.ast, ast.Raise) and "ValueError" in norm(n.ast)
          and any(n.ast is x for x in ast.walk(lp))]
    ctx.check(len(rv) >= 1, lp, "requirement violation raises ValueError",
              "apply() no longer rejects a step whose required steps are "
              "missing")
    req = f"get_func({pid}).steps_required"
    act = f"identifiers[:{ii}]"
    forms = {f.format(req=req, act=act).replace(" ", "") for f in
             SUBSET_FORMS}
    for r in rv:
        ok = False
        seen = []
        for a in conditions_at(r.ast, stop=lp):
            txt = R.text(a.node)
            if not a.pol:
                if isinstance(a.node, ast.Compare) and isinstance(
                        a.node.ops[0], ast.Eq):
                    txt = txt.replace(" == ", " != ")
                else:
                    txt = "not " + txt
            seen.append(txt)
            t2 = txt.replace(" ", "").replace("(", "").replace(")", "")
            for f in forms:
                if f.replace("(", "").replace(")", "") == t2:
                    ok = True
        ctx.check(ok, r.ast, "raise iff required steps are not all among "
                  f"the identifiers before position {ii}",
                  "the requirement test of apply() is not 'required steps "
                  f"are a subset of identifiers[:{ii}]' (found: "
                  + " and ".join(seen) + "): a list is accepted although a "
                  "required step is absent or comes later, or rejected "
                  "although it is valid")
        head = cfg.node_of_stmt(lp)
        after = cfg.reach([cn.id], avoid={head.id} if head is not None
                          else ()) if cn is not None else set()
        ctx.check(cn is not None and head is not None and r.id not in after,
                  call,
            "requirement test precedes the step",
            "the step runs before its requirements are checked")


def r5_check_order(ctx):
    pre = ctx.repo.mod("preproc")
    fn = pre.func("check_order")
    ctx.analysed(fn)
    loops = [n for n in walk_no_nested(fn, False) if isinstance(n, ast.For)]
    lp = loops[0] if loops else None
    ok = lp is not None and isinstance(lp.iter, ast.Call) and call_name(
        lp.iter) == "enumerate" and isinstance(lp.target, ast.Tuple)
    if not ok:
        raise Undecided("check_order does not enumerate its argument")
    cix, pid = [norm(e) for e in lp.target.elts]
    lst = norm(lp.iter.args[0])
    raises = [r for r in walk_no_nested(fn, False) if isinstance(r, ast.Raise)]
    ctx.check(len(raises) == 2, fn, f"{len(raises)} raises in check_order",
              "check_order no longer has one raise for required and one for "
              "optional precursors")
    R = Resolver(fn, keep={cix, pid})
    kinds = set()
    for r in raises:
        conds = conditions_at(r, stop=lp)
        txt = [R.text(a.node) for a in conds if a.pol]
        kind = "required" if any("steps_required" in t for t in txt) else (
            "optional" if any("steps_optional" in t for t in txt) else None)
        kinds.add(kind)
        def from_index(t):
            if "index(" in t:
                return True
            # a list local filled with `.index(...)` values
            for nm in re.findall(r"[A-Za-z_][A-Za-z_0-9]*", t):
                for n_ in walk_no_nested(fn, False):
                    if isinstance(n_, ast.Call) and isinstance(
                            n_.func, ast.Attribute) and n_.func.attr == \
                            "append" and norm(n_.func.value) == nm and \
                            n_.args and "index(" in norm(n_.args[0]):
                        return True
                    if isinstance(n_, ast.Assign) and norm(
                            n_.targets[0]) == nm and "index(" in norm(
                                n_.value):
                        return True
            return False
        cmp_ok = any((f"> {cix}" in t) and from_index(t) for t in txt)
        # "some precursor comes later", not "all of them"
        quant = None
        for a in conds:
            if not a.pol or f"> {cix}" not in R.text(a.node):
                continue
            nd = R.resolve(a.node)
            if isinstance(nd, ast.Call) and (call_name(nd) or "") in (
                    "any", "np.any", "numpy.any"):
                quant = "some"
            elif isinstance(nd, ast.Call) and (call_name(nd) or "") in (
                    "all", "np.all", "numpy.all"):
                quant = "all"
            elif isinstance(nd, ast.Compare) and isinstance(
                    nd.left, ast.Call):
                cnm = (call_name(nd.left) or "").split(".")[-1]
                if cnm in ("max", "amax", "nanmax"):
                    quant = "some"
                elif cnm in ("min", "amin", "nanmin"):
                    quant = "all"
        if cmp_ok and quant is None:
            raise Undecided(f"check_order: cannot tell whether the {kind} "
                            f"test asks for some or for all precursors: {txt}")
        if quant == "all":
            ctx.fail(r, f"{kind}: some precursor behind the step",
                     f"check_order's {kind} test raises only when *all* "
                     f"present precursors come after the step ({txt}): a "
                     "list in which one precursor precedes the step and "
                     "another follows it is accepted although it is out of "
                     "order")
        ctx.check(cmp_ok, r, f"{kind}: raise when a precursor's index > "
                  f"{cix}",
                  f"check_order's {kind} test is not 'position of the "
                  f"precursor > position of the step' ({txt})")
        ctx.check("ValueError" in norm(r), r, "raises ValueError",
                  "wrong exception type")
        # the two tests are independent of each other
        other = {"required": "steps_optional",
                 "optional": "steps_required"}.get(kind)
        dep = [a for a in conds if other and other in R.text(a.node)]
        ctx.check(not dep, r, f"{kind} test independent of {other}",
                  f"check_order tests the {kind} precursors only when "
                  f"{' and '.join(repr(a) for a in dep)}: a step that has "
                  f"both kinds of precursors is no longer checked for its "
                  f"{kind} ones")
    ctx.check(kinds == {"required", "optional"}, fn,
              "required and optional order both checked",
              f"check_order checks only {sorted(str(k) for k in kinds)}")
    # every declared precursor is looked at: the loops over the declared
    # steps are never left early
    for inner in walk_no_nested(fn, False):
        if isinstance(inner, ast.For) and inner is not lp and any(
                k in norm(inner.iter) for k in ("steps_optional",
                                                "steps_required")):
            early = [x for x in ast.walk(inner)
                     if isinstance(x, (ast.Break, ast.Return))]
            ctx.check(not early, early[0] if early else inner,
                      f"loop over {norm(inner.iter)[-30:]} visits every "
                      "declared step",
                      f"check_order leaves the loop over "
                      f"`{norm(inner.iter)}` early: the precursors declared "
                      f"after that point are never compared with the "
                      f"position of the step (e.g. an absent optional step "
                      f"hides a misplaced one behind it)")
    # optional: only those present
    for n in walk_no_nested(fn, False):
        if isinstance(n, ast.Call) and isinstance(n.func, ast.Attribute) and \
                n.func.attr == "append" and n.args and "index(" in norm(
                    n.args[0]):
            inner = getattr(n, "_parent", None)
            while inner is not None and not isinstance(inner, ast.For):
                inner = getattr(inner, "_parent", None)
            if inner is not None and inner is not lp and \
                    "steps_required" in norm(inner.iter):
                continue      # required steps are always present
            conds = conditions_at(n, stop=lp)
            ctx.check(any(a.pol and a.text.endswith(f" in {lst}")
                          for a in conds), n,
                      "optional precursor checked only if present",
                      "index() of an absent optional step raises ValueError "
                      "for valid lists")


def _edges(ctx):
    steps = facts.preprocessing_steps(ctx.repo)
    ids = [k.get("identifier") for f, k, d in steps]
    req = {i: [] for i in ids}
    opt = {i: [] for i in ids}
    for f, k, d in steps:
        me = k.get("identifier")
        for kind, tab in (("steps_required", req), ("steps_optional", opt)):
            v = k.get(kind)
            if isinstance(v, list):
                tab[me] = [x for x in v if x in ids]
    return ids, req, opt


def r6_fixpoint(ctx):
    """A single insertion pass cannot sort every selection once the
    precedence graph has a chain of three edges; the pass must be repeated
    until nothing moves."""
    pre = ctx.repo.mod("preproc")
    fn = pre.func("autosort")
    ctx.analysed(fn)
    arg = fn.args.args[0].arg
    rets = [r for r in walk_no_nested(fn, False) if isinstance(r, ast.Return)]
    if len(rets) != 1 or not isinstance(rets[0].value, ast.Name):
        raise Undecided("autosort does not return a single local list")
    lv = rets[0].value.id
    inserts = [c for c in calls_in(fn) if isinstance(c.func, ast.Attribute)
               and c.func.attr == "insert" and norm(c.func.value) == lv]
    if len(inserts) != 1:
        raise Undecided("autosort is not an insertion sort with one move")
    ins = inserts[0]
    # the pass: the outermost loop over the input that contains the move
    chain = []
    p_ = getattr(ins, "_parent", None)
    while p_ is not None and p_ is not fn:
        if isinstance(p_, (ast.For, ast.While)):
            chain.append(p_)
        p_ = getattr(p_, "_parent", None)
    chain.reverse()          # outermost first
    passes = [l for l in chain if isinstance(l, ast.For)
              and norm(l.iter) in (arg, lv, f"list({arg})")]
    if not passes:
        raise Undecided("autosort has no pass over its identifiers")
    the_pass = passes[0]
    outer = chain[:chain.index(the_pass)]
    ids, req, opt = _edges(ctx)
    # longest chain of precursor edges
    memo = {}

    def longest(n):
        if n not in memo:
            memo[n] = [n]
            for m in req[n] + opt[n]:
                cand = [n] + longest(m)
                if len(cand) > len(memo[n]):
                    memo[n] = cand
        return memo[n]
    best = max((longest(i) for i in ids), key=len)
    ctx.note("longest precursor chain: " + " -> ".join(best))
    if not outer:
        if len(best) < 4:
            raise Undecided("single-pass autosort with precursor chains of "
                            "fewer than three edges")
        found = None
        nxt = {i: req[i] + opt[i] for i in ids}
        for P in ids:
            for Q in nxt[P]:
                for R_ in nxt[Q]:
                    for S in nxt[R_]:
                        sel = [P, S, R_, Q]
                        inner = {(a, b) for a in sel for b in nxt[a]
                                 if b in sel}
                        if len(set(sel)) == 4 and inner == {
                                (P, Q), (Q, R_), (R_, S)} and all(
                                set(req[a]) <= set(sel) for a in sel):
                            found = found or (P, Q, R_, S)
        if found is None:
            raise Undecided("cannot construct the counterexample for the "
                            f"chain {best}")
        P, Q, R_, S = found
        sel = [P, S, R_, Q]
        best = list(found)
        ctx.fail(the_pass, "the insertion pass is repeated until nothing "
                 "moves",
                 f"autosort makes a single insertion pass, but the declared "
                 f"steps contain the precursor chain {' -> '.join(best[:4])}"
                 f": for the admissible selection {sel} the pass moves "
                 f"'{Q}' in front of '{P}', later moves '{R_}' in front of "
                 f"'{Q}' - and thereby in front of its own precursor '{S}', "
                 f"which was processed already; the result fails check_order "
                 f"and autosort raises ValueError instead of returning a "
                 f"valid order")
        return
    # the repetition: flag reset per iteration, set on every move, break
    # (or loop exit) when it stayed false
    rep = outer[-1]
    moved = None
    blk = getattr(ins, "_parent", None)
    while blk is not None and not isinstance(blk, ast.stmt):
        blk = getattr(blk, "_parent", None)
    par = getattr(blk, "_parent", None)
    sibs = []
    for fld in ("body", "orelse"):
        b_ = getattr(par, fld, None)
        if isinstance(b_, list) and any(x is blk for x in b_):
            sibs = b_
    for st in sibs:
        if isinstance(st, ast.Assign) and isinstance(
                st.targets[0], ast.Name) and isinstance(
                st.value, ast.Constant) and st.value.value is True:
            moved = st.targets[0].id
        # the moves are collected / counted instead
        if isinstance(st, ast.Expr) and isinstance(
                st.value, ast.Call) and isinstance(
                st.value.func, ast.Attribute) and st.value.func.attr in (
                "append", "add") and isinstance(
                st.value.func.value, ast.Name) and len(st.value.args) == 1:
            moved = st.value.func.value.id
        if isinstance(st, ast.AugAssign) and isinstance(
                st.op, ast.Add) and isinstance(
                st.target, ast.Name) and isinstance(
                st.value, ast.Constant) and isinstance(
                st.value.value, int) and st.value.value > 0:
            moved = st.target.id
    if moved is None:
        # `flag |= <the move condition>` next to the conditional move
        ifs_ = blk
        while ifs_ is not None and not isinstance(ifs_, ast.If):
            ifs_ = getattr(ifs_, "_parent", None)
        outer_ = getattr(ifs_, "_parent", None) if ifs_ is not None else None
        for fld in ("body", "orelse"):
            for st in getattr(outer_, fld, []) or []:
                if isinstance(st, ast.AugAssign) and isinstance(
                        st.op, ast.BitOr) and isinstance(
                        st.target, ast.Name) and ifs_ is not None and norm(
                        st.value) == norm(ifs_.test):
                    moved = st.target.id
                if isinstance(st, ast.Assign) and isinstance(
                        st.targets[0], ast.Name) and ifs_ is not None and \
                        norm(st.value) in (
                            f"{norm(st.targets[0])} or {norm(ifs_.test)}",
                            f"{norm(ifs_.test)} or {norm(st.targets[0])}"):
                    moved = st.targets[0].id
    ctx.check(moved is not None, ins, "every move is recorded in a flag",
              "the repetition of the pass cannot notice that something "
              "moved")
    if moved is None:
        return
    resets = [st for st in rep.body if isinstance(st, ast.Assign)
              and norm(st.targets[0]) == moved and ((isinstance(
                  st.value, ast.Constant) and (st.value.value is False
                                               or st.value.value == 0))
                  or norm(st.value) in ("[]", "list()", "set()"))]
    pos_pass = [i for i, st in enumerate(rep.body)
                if any(x is the_pass for x in ast.walk(st))]
    ok = bool(resets) and bool(pos_pass) and rep.body.index(resets[0]) < \
        pos_pass[0]
    ctx.check(ok, rep, f"`{moved}` reset before each pass",
              f"the flag `{moved}` is not reset before each pass: the "
              "repetition stops too early or never")
    stop = False
    if isinstance(rep, ast.While) and norm(rep.test) == moved:
        stop = True
    Rq = Resolver(fn, keep={moved})
    for st in rep.body[pos_pass[0] + 1 if pos_pass else 0:]:
        if isinstance(st, ast.If) and Rq.text(st.test) in (
                f"not {moved}", f"len({moved}) == 0", f"not len({moved})",
                f"{moved} == 0", f"len({moved}) < 1", f"{moved} < 1") \
                and any(isinstance(x, ast.Break)
                                         for x in st.body):
            stop = True
    ctx.check(stop, rep, "repetition ends when a whole pass moved nothing",
              "the repetition does not end on a pass without moves: the "
              "returned order is not a fixed point of the pass")
    bounded = isinstance(rep, ast.For)
    ctx.note("repetition is " + ("bounded (exhaustion is caught by the final "
                                 "check_order)" if bounded else "unbounded"))


RULES = [
    ("C14-R1", "requirement graph well formed and acyclic", r1_graph),
    ("C14-R2", "autosort returns a permutation; moves only misplaced "
     "precursors",
     r2_autosort_permutation),
    ("C14-R3", "autosort result passed check_order; available() = "
     "autosort(all)", r3_postcheck),
    ("C14-R4", "apply: available, and required steps subset of the prefix",
     r4_apply_enforces),
    ("C14-R5", "check_order raises for late required / present optional "
     "precursors", r5_check_order),
    ("C14-R6", "autosort repeats its insertion pass until nothing moves "
     "(precursor chains of three edges exist)", r6_fixpoint),
    ("C14-R7", "a step that creates a column is a declared predecessor of "
     "every step that addresses that column (table derived from the steps' "
     "data flow, not from their declarations)", r7_producer_before_consumer),
]
