"""C07 — each preprocessing step does what its description says."""
from __future__ import annotations

import ast

from .. import effects, facts
from ..astutil import (call_name, calls_in, const_str, dotted, kwarg, literal,
                       norm, walk_no_nested)
from ..guards import conditions_at
from ..loader import AnchorError, Undecided
from ..symres import Resolver, canon_text

EXPLANATION = (
    "Shape of the six step implementations, for every well-formed curve and "
    "option value: (R1) column ownership: each step assigns only the "
    "columns it owns (frozen table confirmed by reading; point counts are "
    "preserved by afmformats' length check on assignment); (R2) defining "
    "relations: tip position = measured height + force / spring constant; "
    "force- and tip-offset corrections assign (old column - scalar) with "
    "the scalar taken from the pre-contact mean / the value at the "
    "estimated contact index; slope correction edits a copy, subtracts "
    "inside exactly one slice per region a term B - B[j] with B the linear "
    "baseline model evaluated on that slice's abscissa and j the slice "
    "boundary (contact index for the whole-curve region), so no jump is "
    "introduced and data outside are untouched; segment discovery writes "
    "zeros plus one suffix of ones; height smoothing replaces each segment "
    "of each height-like column by the monotone smoothing of that same "
    "segment; (R3) the smoothing loop accepts a window only on the exact "
    "monotonicity test |sum(g)| == sum(|g|) and enforces uniqueness before "
    "returning.")
NOT_DECIDED = [
    "strict monotonicity actually reached for every input (window doubling "
    "and tie breaking are numerical)",
    "that the farthest point is the right turning point; quality of the "
    "linear baseline fit",
]

OWNERSHIP = {
    "compute_tip_position": {"tip position"},
    "correct_force_offset": {"force"},
    "correct_tip_offset": {"tip position"},
    "correct_force_slope": {"force"},
    "correct_split_approach_retract": {"segment"},
    "smooth_height": {"height (measured)", "height (piezo)", "tip position"},
}


def _steps(ctx):
    out = {}
    for f, kws, d in facts.preprocessing_steps(ctx.repo):
        out[kws.get("identifier")] = f
    ctx.floor("preprocessing steps", len(out), 6)
    return out


def _poc_arg(ctx, call, name):
    """argument of a poc.compute_poc call by parameter name (positional
    arguments bound through compute_poc's signature)"""
    from ..astutil import bound_args
    b = bound_args(call, ctx.repo.mod("poc").func("compute_poc"))
    return b.get(name, ast.Constant(value=None))


def _writes(f):
    """[(column or None, node)] columns assigned by a step"""
    ap = f.args.args[0].arg
    out = []
    loops = {}
    for n in walk_no_nested(f, False):
        if isinstance(n, ast.For) and isinstance(n.target, ast.Name):
            lst = n.iter
            if isinstance(lst, ast.Name):
                nm = lst.id
                for st in walk_no_nested(f, False):
                    if isinstance(st, ast.Assign) and norm(
                            st.targets[0]) == nm:
                        lst = st.value
            v = literal(lst)
            if isinstance(v, (list, tuple)):
                loops[n.target.id] = list(v)
    for n in walk_no_nested(f, False):
        if isinstance(n, (ast.Assign, ast.AugAssign)):
            tg = n.targets if isinstance(n, ast.Assign) else [n.target]
            for t in tg:
                if isinstance(t, ast.Subscript) and norm(t.value) in (
                        ap, f"{ap}.appr", f"{ap}.retr"):
                    k = const_str(t.slice)
                    if k is not None:
                        out.append((k, n))
                    elif isinstance(t.slice, ast.Name) and \
                            t.slice.id in loops:
                        for c in loops[t.slice.id]:
                            out.append((c, n))
                    else:
                        out.append((None, n))
    return out


def r1_ownership(ctx):
    steps = _steps(ctx)
    for ident, f in sorted(steps.items()):
        ctx.analysed(f)
        own = OWNERSHIP.get(ident)
        if own is None:
            ctx.note(f"new step {ident}: no ownership entry (not judged)")
            continue
        ws = _writes(f)
        for col, node in ws:
            ctx.check(col in own, node, f"{ident} writes column '{col}'",
                      f"step '{ident}' writes column '{col}', which it does "
                      f"not own ({sorted(own)}): other columns change behind "
                      "the user's back")
        ctx.check(bool(ws), f, f"{ident} writes {sorted({c for c, _ in ws})}",
                  f"step '{ident}' writes no column at all")
        # no in-place edit of an array obtained from the curve: for columns
        # edited by an earlier step afmformats hands out the stored array
        # itself (assumption A1), so `x = apret[col]; x -= ...` silently
        # rewrites a column the step does not assign
        ap = f.args.args[0].arg
        roots = {}
        for st in walk_no_nested(f, False):
            if isinstance(st, ast.Assign) and len(st.targets) == 1 and \
                    isinstance(st.targets[0], ast.Name):
                v = st.value
                if isinstance(v, ast.Subscript) and norm(v.value) in (
                        ap, f"{ap}.appr", f"{ap}.retr"):
                    roots[st.targets[0].id] = \
                        f"column:{const_str(v.slice) or norm(v.slice)}"
        amap = effects.alias_map(f, roots)
        muts = effects.mutations(f, amap)
        for node, root, how in muts:
            ctx.fail(node, how[:80],
                     f"step '{ident}' edits in place an array it got from "
                     f"the curve (column {root}): the stored column changes "
                     "although the step does not assign it")
        if not muts:
            ctx.ok(f, f"{ident}: no in-place edit of arrays read from the "
                   "curve")
        # no column is deleted / no reset inside a step
        for c in calls_in(f):
            if (call_name(c) or "").endswith((".reset_data", ".pop",
                                              ".__delitem__")):
                ctx.fail(c, norm(c)[:50], f"step '{ident}' removes data")


def _idp_text(f, R):
    """resolved text of the local holding the contact index"""
    for st in walk_no_nested(f, False):
        if isinstance(st, ast.Assign) and isinstance(st.value, ast.Call) and \
                call_name(st.value) == "poc.compute_poc" and isinstance(
                    st.targets[0], ast.Name):
            return R.text(st.value)
    return "idp"


def r2_relations(ctx):
    steps = _steps(ctx)
    # ---- tip position
    f = steps["compute_tip_position"]
    R = Resolver(f)
    ws = [n for c, n in _writes(f) if c == "tip position"]
    ctx.floor("tip position assignment", len(ws), 1)
    for n in ws:
        t = R.text(n.value)
        want = canon_text(ast.parse(
            "apret['height (measured)'] + apret['force'] / "
            "apret.metadata['spring constant']", mode="eval").body)
        ctx.check(t == want, n, f"tip position = {t}",
                  "tip-sample separation is not measured height + force / "
                  "spring constant")
        conds = conditions_at(n)
        ctx.check(any((not a.pol) and "columns_innate" in a.text
                      for a in conds), n,
                  "recorded tip position is kept", "a recorded tip position "
                  "column is overwritten")
    # ---- force offset
    f = steps["correct_force_offset"]
    R = Resolver(f)
    ws = [n for c, n in _writes(f) if c == "force"]
    ctx.floor("force offset assignments", len(ws), 1)
    poc_ok = any(call_name(c) == "poc.compute_poc" and R.text(
        _poc_arg(ctx, c, "force")) == "apret['force']" for c in calls_in(f))
    ctx.check(poc_ok, f, "contact index estimated from the force",
              "the baseline region is not determined from the force column")
    for n in ws:
        v = n.value
        ok = isinstance(v, ast.BinOp) and isinstance(v.op, ast.Sub) and \
            R.text(v.left) == "apret['force']"
        alts = []
        if ok:
            r_ = v.right
            if isinstance(r_, ast.Name) and R.reaching_value(r_) is None:
                alts = [R.text(d) for d in R.defs.get(r_.id, [])
                        if d is not None]
            else:
                alts = [R.text(r_)]
        sc = " | ".join(alts)
        good = ("np.average(apret['force'][:idp])",
                "np.mean(apret['force'][:idp])", "apret['force'][0]")
        idp_ok = True
        scalar = bool(alts) and all(
            a.replace(_idp_text(f, R), "idp") in good for a in alts)
        ctx.check(ok and scalar, n, f"force = force - {sc}",
                  "the force offset correction does not subtract a single "
                  "number (mean of the pre-contact force) from the whole "
                  "column")
    # ---- tip offset
    f = steps["correct_tip_offset"]
    R = Resolver(f)
    ws = [n for c, n in _writes(f) if c == "tip position"]
    ctx.floor("tip offset assignment", len(ws), 1)
    for n in ws:
        v = n.value
        if isinstance(v, ast.Name):
            v = R.reaching_value(v) or v
        rgt = v.right if isinstance(v, ast.BinOp) else None
        if isinstance(rgt, ast.Name):
            # the offset held in a local
            rgt = R.reaching_value(rgt) or rgt
        ok = isinstance(v, ast.BinOp) and isinstance(v.op, ast.Sub) and \
            R.text(v.left) == "apret['tip position']" and isinstance(
                rgt, ast.Subscript) and R.text(rgt.value) == \
            "apret['tip position']"
        ctx.check(ok, n, f"tip position = {norm(v)[:70]}",
                  "the tip offset correction does not subtract the tip "
                  "position at one index from the whole column")
        if ok:
            idx = rgt.slice
            src = None
            for st in walk_no_nested(f, False):
                if isinstance(st, ast.Assign) and any(
                        norm(idx) in [norm(e) for e in (
                            t.elts if isinstance(t, ast.Tuple) else [t])]
                        for t in st.targets):
                    src = st.value
            srcs = {norm(x) for x in ast.walk(src)} if src is not None \
                else set()
            pc = [c for c in calls_in(f) if call_name(c) == "poc.compute_poc"]
            good = bool(pc) and norm(_poc_arg(ctx, pc[0], "force")) == \
                "apret['force']" and norm(_poc_arg(ctx, pc[0], "method")) \
                == "method"
            ctx.check(good and ("data" in srcs or src is not None), n,
                      "index = contact point estimated with the chosen "
                      "method", "the offset index is not the contact point "
                      "estimated from the force with the requested method")
    # ---- slope
    f = steps["correct_force_slope"]
    ctx.analysed(f)
    R = Resolver(f, keep={"abscissa", "mod", "out", "idp", "idturn",
                          "force", "tip_position", "time_position"})
    copies = [st for st in walk_no_nested(f, False)
              if isinstance(st, ast.Assign) and isinstance(st.value, ast.Call)
              and call_name(st.value) in ("np.copy", "np.array", "copy.copy")
              and R.text(st.value.args[0]) in ("apret['force']", "force")]
    ctx.check(len(copies) == 1, f, "slope correction edits a copy of the "
              "force", "the slope correction edits the force column in "
              "place")
    ev = norm(copies[0].targets[0]) if copies else "force_edit"
    subs = [st for st in walk_no_nested(f, False)
            if isinstance(st, ast.AugAssign) and isinstance(st.op, ast.Sub)
            and (norm(st.target) == ev or (
                isinstance(st.target, ast.Subscript)
                and norm(st.target.value) == ev))]
    ctx.floor("slope subtractions", len(subs), 3)
    regions = set()
    for st in subs:
        conds = conditions_at(st)
        reg = [a.text.split("==")[-1].strip().strip("'\"") for a in conds
               if a.pol and a.text.startswith("region ==")]
        region = reg[0] if reg else "?"
        regions.add(region)
        v = st.value
        ok = isinstance(v, ast.BinOp) and isinstance(v.op, ast.Sub) and \
            isinstance(v.right, ast.Subscript) and \
            norm(v.right.value) == norm(v.left)
        ctx.check(ok, st, f"region {region}: subtracts {norm(v)[:50]}",
                  f"region '{region}': the subtracted term is not of the "
                  "form B - B[j] (baseline model minus its value at the "
                  "region boundary): a force jump is introduced at the "
                  "boundary of the corrected region")
        if not ok:
            continue
        B = R.text(v.left)
        j = norm(v.right.slice)
        if isinstance(st.target, ast.Subscript):
            sl = st.target.slice
            up = norm(sl.upper) if isinstance(sl, ast.Slice) and \
                sl.upper is not None and sl.lower is None else None
            ctx.check(up is not None, st, f"region {region}: slice "
                      f"{norm(st.target)}",
                      "the corrected region is not a prefix slice")
            ctx.check(j in ("-1", f"{up} - 1"), st,
                      f"region {region}: anchored at the last point of the "
                      "slice",
                      f"region '{region}': the subtracted baseline is "
                      f"anchored at index {j}, not at the end of the "
                      "corrected slice (jump at the boundary)")
            good_b = (norm(v.left) == "out.best_fit" and up == "idp") or (
                f"x=abscissa[:{up}]" in B.replace(" ", "").replace(
                    "x=", "x=") or f"abscissa[:{up}]" in B)
            ctx.check(good_b, st, f"region {region}: baseline model on the "
                      "same slice",
                      f"region '{region}': the baseline model `{B[:60]}` is "
                      "not evaluated on the abscissa of the corrected slice")
        else:
            ctx.check(j == "idp", st,
                      f"region {region}: anchored at the contact index",
                      f"region '{region}': the whole-curve correction is "
                      f"anchored at index {j} instead of the contact index")
            ctx.check("x=abscissa)" in B.replace(" ", "") or
                      B.endswith("abscissa)"), st,
                      f"region {region}: baseline model on the whole "
                      "abscissa", "baseline model not evaluated on the "
                      "whole abscissa")
    ctx.check(regions >= {"baseline", "approach", "all"}, f,
              f"regions handled: {sorted(regions)}",
              "a documented region is no longer handled")
    ws = [n for c, n in _writes(f) if c == "force"]
    ctx.check(len(ws) == 1 and norm(ws[0].value) == ev, f,
              "the edited copy becomes the force column",
              "the corrected copy is not assigned to the force column")
    # baseline fit: linear model on [:idp] of the chosen abscissa
    Rs_ = Resolver(f, keep={"abscissa", "idp"})
    fits = [c for c in calls_in(f) if isinstance(c.func, ast.Attribute)
            and c.func.attr == "fit" and Rs_.text(c.func.value) in (
                "lmfit.models.LinearModel()", "mod")]
    ok = bool(fits) and Rs_.text(fits[0].args[0]) in (
        "force[:idp]", "apret['force'][:idp]") and \
        norm(kwarg(fits[0], "x")) == "abscissa[:idp]"
    ctx.check(ok, f, "linear model fitted to the baseline part",
              "the slope is not fitted to the data before the contact "
              "point")
    for strat, col, column in (("shift", "tip_position", "tip position"),
                               ("drift", "time_position", "time")):
        ok = False
        for st in walk_no_nested(f, False):
            if isinstance(st, ast.Assign) and norm(st.targets[0]) == \
                    "abscissa" and Rs_.text(st.value) in (
                        col, f"apret['{column}']"):
                conds = conditions_at(st)
                if any(a.pol and a.text == f"strategy == '{strat}'"
                       for a in conds):
                    ok = True
        ctx.check(ok, f, f"strategy '{strat}' uses {col}",
                  f"strategy '{strat}' does not use {col} as abscissa")
    # ---- segment
    f = steps["correct_split_approach_retract"]
    R = Resolver(f)
    ws = [n for c, n in _writes(f) if c == "segment"]
    ctx.floor("segment assignment", len(ws), 1)
    segv = norm(ws[0].value)
    zeros = [st for st in walk_no_nested(f, False)
             if isinstance(st, ast.Assign) and norm(st.targets[0]) == segv
             and isinstance(st.value, ast.Call)
             and call_name(st.value) in ("np.zeros", "np.zeros_like")]
    stores = [st for st in walk_no_nested(f, False)
              if isinstance(st, ast.Assign) and isinstance(
                  st.targets[0], ast.Subscript)
              and norm(st.targets[0].value) == segv]
    if not zeros and not stores:
        # segment = (np.arange(len(apret)) >= idturn).astype(np.uint8)
        v = ws[0].value
        if isinstance(v, ast.Name):
            v = R.reaching_value(v) or v
        cmp_ = None
        if isinstance(v, ast.Call) and isinstance(
                v.func, ast.Attribute) and v.func.attr == "astype":
            cmp_ = v.func.value
            if isinstance(cmp_, ast.Name):
                cmp_ = R.reaching_value(cmp_) or cmp_
        ar = thr = None
        if isinstance(cmp_, ast.Compare) and len(cmp_.ops) == 1:
            if isinstance(cmp_.ops[0], ast.GtE):
                ar, thr = cmp_.left, cmp_.comparators[0]
            elif isinstance(cmp_.ops[0], ast.LtE):
                thr, ar = cmp_.left, cmp_.comparators[0]
        if not (isinstance(ar, ast.Call) and call_name(ar) == "np.arange"
                and len(ar.args) == 1 and not ar.keywords):
            raise Undecided("correct_split_approach_retract: the "
                            "construction of the segment column is not "
                            "understood")
        tp = [c for c in calls_in(f) if call_name(c) == "find_turning_point"]
        ctx.check(bool(tp) and norm(thr) == "idturn", f,
                  "switch at the turning point",
                  "the switch is not at the computed turning point")
        ctx.check(norm(ar.args[0]) in ("len(apret)", "len(apret['force'])",
                                       "len(force)", "force.size",
                                       "apret['force'].size"), f,
                  "segment has the length of the curve",
                  "segment column has a different length")
        ok = None
    else:
        ok = len(zeros) == 1 and len(stores) == 1 and isinstance(
            stores[0].targets[0].slice, ast.Slice) and \
            stores[0].targets[0].slice.upper is None and \
            stores[0].targets[0].slice.lower is not None and \
            literal(stores[0].value) == 1
    if ok is not None:
        ctx.check(
            ok, f, "segment = zeros, then ones from the turning point on",
              "the segment column is not zeros with a single suffix of "
              "ones (more than one approach/retract switch, or reversed)")
    if ok:
        lo = norm(stores[0].targets[0].slice.lower)
        tp = [c for c in calls_in(f) if call_name(c) == "find_turning_point"]
        ctx.check(bool(tp) and lo == "idturn", f,
                  "switch at the turning point",
                  "the switch is not at the computed turning point")
        ctx.check(norm(zeros[0].value.args[0]) in ("len(apret)",
                                                   "apret['force']",
                                                   "force"), zeros[0],
                  "segment has the length of the curve",
                  "segment column has a different length")
    # ---- smoothing
    f = steps["smooth_height"]
    Rs = Resolver(f)
    for seg in ("appr", "retr"):
        stores_ = [st for st in walk_no_nested(f, False)
                   if isinstance(st, ast.Assign) and isinstance(
                       st.targets[0], ast.Subscript)
                   and norm(st.targets[0].value) == f"apret.{seg}"]
        ok = bool(stores_)
        cols_ = set()
        for st in stores_:
            key = norm(st.targets[0].slice)
            cols_.add(key)
            v = st.value
            if isinstance(v, ast.Name):
                rv = Rs.reaching_value(v)
                if rv is not None:
                    v = rv
            ok = ok and norm(v) == f"smooth_axis_monotone(apret.{seg}[{key}])"
        ctx.check(ok, f, f"{seg} segment smoothed from itself",
                  f"the {seg} segment of a height column is not replaced by "
                  "the monotone smoothing of that same segment")
    # every present column is smoothed: the only admissible skip is the
    # absence of the column (strictly monotonic data may be skipped too)
    for st in walk_no_nested(f, False):
        if isinstance(st, ast.Assign) and isinstance(
                st.targets[0], ast.Subscript) and norm(
                st.targets[0].value) in ("apret.appr", "apret.retr"):
            for a in conditions_at(st):
                if a.text.endswith(" in apret"):
                    continue
                ops = [type(c.ops[0]) for c in ast.walk(a.node)
                       if isinstance(c, ast.Compare)]
                nonstrict = any(o in (ast.GtE, ast.LtE) for o in ops)
                ctx.check(not nonstrict, st,
                          f"column skipped only if absent: {a!r}"[:80],
                          f"smooth_height leaves a present column alone "
                          f"when `{a!r}`: a non-strict monotonicity test "
                          f"accepts plateaus (repeated values of a digitised "
                          f"piezo ramp), the column is then not strictly "
                          f"monotonic within each segment")
                if not nonstrict and ops:
                    raise Undecided(f"smooth_height skips columns under "
                                    f"{a!r}")


    # ... and a missing column ends nothing: the loop over the height-like
    # columns is never left early
    for lp_ in walk_no_nested(f, False):
        if not isinstance(lp_, ast.For) or not any(
                isinstance(x, ast.Assign) and isinstance(
                    x.targets[0], ast.Subscript) and norm(
                    x.targets[0].value) in ("apret.appr", "apret.retr")
                for x in ast.walk(lp_)):
            continue
        inner = {id(y) for z in ast.walk(lp_) if z is not lp_ and isinstance(
            z, (ast.For, ast.While)) for y in ast.walk(z)}
        for x in ast.walk(lp_):
            if isinstance(x, (ast.Break, ast.Return)) and id(x) not in inner:
                ctx.fail(x, "the column loop of smooth_height runs to its "
                         "end",
                         "smooth_height leaves its loop over the height-like "
                         "columns early (" + " and ".join(
                             repr(a) for a in conditions_at(x, stop=lp_))[:80]
                         + "): the columns that follow in the list - "
                         "'tip position' after a missing 'height (piezo)' - "
                         "are not smoothed")


def r3_monotone_test(ctx):
    sm = ctx.repo.mod("smooth")
    f = sm.func("smooth_axis_monotone")
    ctx.analysed(f)
    loops = [n for n in f.body if isinstance(n, ast.For)]
    ctx.floor("loops in smooth_axis_monotone", len(loops), 2)
    lp = loops[0]
    brk = [n for n in lp.body if isinstance(n, ast.If) and any(
        isinstance(s, ast.Break) for s in n.body)]
    ctx.floor("break test in the window-doubling loop", len(brk), 1)
    t = brk[0].test
    tt = norm(t)
    # the names used for window, smoothed data and gradient
    every = [s_ for s_ in ast.walk(lp) if isinstance(s_, ast.Assign)
             and len(s_.targets) == 1 and isinstance(s_.targets[0],
                                                     ast.Name)]
    W = S = G = None
    for s_ in every:
        nm = s_.targets[0].id
        if norm(s_.value) in (f"{nm} * 2 + 1", f"2 * {nm} + 1"):
            W = nm
    for s_ in every:
        v_ = s_.value
        if W and isinstance(v_, ast.Call) and call_name(v_) == "smooth_axis" \
                and norm(v_) in (f"smooth_axis(data, window={W})",
                                 f"smooth_axis(data, {W})"):
            S = s_.targets[0].id
    for s_ in every:
        if S and norm(s_.value) == f"np.gradient({S})":
            G = s_.targets[0].id
    g = G or "gradient"
    exact = isinstance(t, ast.Compare) and len(t.ops) == 1 and isinstance(
        t.ops[0], ast.Eq) and {norm(t.left), norm(t.comparators[0])} == {
            f"np.abs(np.sum({g}))", f"np.sum(np.abs({g}))"}
    alt = tt in (f"np.all({g} > 0) or np.all({g} < 0)",
                 f"np.all({g} >= 0) or np.all({g} <= 0)")
    ctx.check(exact or alt, brk[0], f"monotonicity test: {tt[:70]}",
              "the window is accepted on a tolerance-based test instead of "
              "the exact |sum(g)| == sum(|g|): heights are of the order of "
              "1e-6 m, so any absolute tolerance (np.isclose default 1e-8) "
              "accepts non-monotonic data")
    # gradient and smooth recomputed after doubling
    # (recomputed at the start of every pass, or - with a first
    # computation in front of the loop - right after the doubling)
    def pos(pred):
        for k_, s_ in enumerate(lp.body):
            if any(pred(x) for x in ast.walk(s_)):
                return k_
        return None
    is_asg = lambda x, nm: isinstance(x, ast.Assign) and len(
        x.targets) == 1 and norm(x.targets[0]) == nm
    p_w = pos(lambda x: W is not None and is_asg(x, W))
    p_s = pos(lambda x: S is not None and is_asg(x, S))
    p_g = pos(lambda x: G is not None and is_asg(x, G))
    p_t = [k_ for k_, s_ in enumerate(lp.body) if s_ is brk[0]][0]
    before = [s_ for s_ in f.body[:f.body.index(lp)]
              if isinstance(s_, ast.Assign)]
    primed = any(is_asg(s_, S) for s_ in before) and any(
        is_asg(s_, G) for s_ in before) if S and G else False
    fresh = None not in (p_w, p_s, p_g) and p_s < p_g and (
        (p_g <= p_t and p_w >= p_t) or (primed and p_t <= p_w < p_s))
    if not fresh and (any(call_name(c) in ("next", "__next__") or (
            isinstance(c.func, ast.Attribute) and c.func.attr in (
                "__next__", "send")) for c in calls_in(f)) or any(
            isinstance(s_, ast.Assign) and isinstance(
                s_.targets[0], ast.Tuple) and isinstance(s_.value, ast.Call)
            for s_ in ast.walk(f))):
        raise Undecided("smooth_axis_monotone: the candidates come from an "
                        "iterator/helper whose window progression is not "
                        "understood")
    ctx.check(fresh, lp,
              "window doubled and smoothing/gradient recomputed",
              "after rejecting a window the smoothing is not recomputed "
              "with a larger window")
    ctx.check(bool(lp.orelse) and any(isinstance(s, ast.Raise)
                                      for s in lp.orelse), lp,
              "gives up with an error, never silently",
              "when no window works the function no longer raises")
    lp2 = loops[1]
    brk2 = [n for n in lp2.body if isinstance(n, ast.If) and any(
        isinstance(s, (ast.Break, ast.Return)) for s in n.body)]
    Rsm = Resolver(f)
    import re as _re
    ok = False
    if brk2:
        arrs = {norm(c.args[0]) for c in ast.walk(brk2[0].test)
                if isinstance(c, ast.Call) and call_name(c) == "np.unique"
                and c.args and isinstance(c.args[0], ast.Name)}
        for t2_ in (norm(brk2[0].test),
                    Resolver(f, keep=arrs).text(brk2[0].test)):
            t2_ = _re.sub(r"len\((\w+)\)", r"\1.size", t2_)
            ok = ok or any(_re.fullmatch(pat, t2_) for pat in (
                r"np\.unique\((\w+)\)\.size == \1\.size",
                r"(\w+)\.size == np\.unique\(\1\)\.size",
                r"len\(np\.unique\((\w+)\)\) == \1\.size"))
    ctx.check(ok, lp2, "strictness loop ends only when all values differ",
              "ties are no longer removed before returning (monotone but "
              "not strictly)")
    # tie breaking moves values in the direction of the data: every bump
    # added to an element is a positive multiple of (later - earlier)
    Rf = Resolver(f)
    BIG = 10 ** 9

    def pos_(e):
        """position of an index expression: (kind, value) or None"""
        if isinstance(e, ast.UnaryOp) and isinstance(e.op, ast.USub) and \
                isinstance(e.operand, ast.Constant):
            return ("lit", BIG - e.operand.value)
        if isinstance(e, ast.Constant) and isinstance(e.value, int):
            return ("lit", e.value)
        # equal[0], equal[-1] + c: positions inside a sorted index list
        off = 0
        if isinstance(e, ast.BinOp) and isinstance(e.op, ast.Add) and \
                isinstance(e.right, ast.Constant):
            off, e = e.right.value, e.left
        if isinstance(e, ast.Subscript) and isinstance(e.value, ast.Name):
            k = pos_(e.slice)
            if k and k[0] == "lit":
                return ("in:" + e.value.id, k[1] * 1000 + off)
        return None

    def direction(e, depth=0):
        """+1: positive multiple of (later - earlier); -1: of (earlier -
        later); None: not understood"""
        if depth > 8:
            return None
        if isinstance(e, ast.BinOp) and isinstance(e.op, (ast.Mult,
                                                          ast.Div)):
            l, r = direction(e.left, depth + 1), positive(e.right)
            if l is not None and r:
                return l
            if isinstance(e.op, ast.Mult):
                l2, r2 = positive(e.left), direction(e.right, depth + 1)
                if l2 and r2 is not None:
                    return r2
            return None
        if isinstance(e, ast.BinOp) and isinstance(e.op, ast.Sub) and \
                isinstance(e.left, ast.Subscript) and isinstance(
                    e.right, ast.Subscript) and norm(e.left.value) == norm(
                    e.right.value) == "smooth":
            a, b = pos_(e.left.slice), pos_(e.right.slice)
            if a and b and a[0] == b[0] and a[1] != b[1]:
                return 1 if a[1] > b[1] else -1
        return None

    # loop counters that start at 1 or later: enumerate(..., start=k>=1)
    counters = set()
    for lp_ in ast.walk(f):
        if isinstance(lp_, ast.For) and isinstance(lp_.iter, ast.Call) and \
                norm(lp_.iter.func) == "enumerate" and isinstance(
                    lp_.target, ast.Tuple) and isinstance(
                    lp_.target.elts[0], ast.Name):
            st_ = [k.value for k in lp_.iter.keywords if k.arg == "start"]
            st_ += lp_.iter.args[1:2]
            if st_ and isinstance(st_[0], ast.Constant) and isinstance(
                    st_[0].value, int) and st_[0].value >= 1:
                counters.add(lp_.target.elts[0].id)

    def positive(e):
        if isinstance(e, ast.Name) and e.id in counters:
            return True
        if isinstance(e, ast.Constant) and isinstance(e.value, (int, float)):
            return e.value > 0
        if isinstance(e, ast.BinOp) and isinstance(e.op, ast.Add):
            return all(positive(x) or nonneg(x) for x in (e.left, e.right)) \
                and any(positive(x) for x in (e.left, e.right))
        if isinstance(e, ast.BinOp) and isinstance(e.op, (ast.Mult,
                                                          ast.Div)):
            return positive(e.left) and positive(e.right)
        if norm(e) in ("smooth.size", "len(smooth)", "data.size"):
            return True
        return False

    def nonneg(e):
        return (isinstance(e, ast.Call) and norm(e.func) == "len") or (
            isinstance(e, ast.Name) and e.id in ("count", "ii", "idx"))
    bumps = [n for n in ast.walk(lp2) if isinstance(n, ast.AugAssign)
             and isinstance(n.op, ast.Add) and isinstance(
                 n.target, ast.Subscript)
             and norm(n.target.value) == "smooth"]
    ctx.floor("tie-breaking bumps", len(bumps), 2)
    for b in bumps:
        d = direction(b.value)
        if d is None:
            d = direction(Rf.resolve(b.value))
        if d is None:
            raise Undecided("smooth_axis_monotone: tie-breaking bump "
                            f"{norm(b)[:60]} not understood")
        ctx.check(d > 0, b, f"bump {norm(b.target)} follows the data",
                  f"the tie-breaking step `{norm(b)[:70]}` moves the value "
                  "against the direction of the data (earlier minus later): "
                  "the result is not strictly monotonic at that element")
    rets = [r for r in walk_no_nested(f, False) if isinstance(r, ast.Return)]
    ctx.check(len(rets) == 1 and norm(rets[0].value) == "smooth", f,
              "returns the smoothed array", "returns something else")
    sa = sm.func("smooth_axis")
    ok = any(call_name(c) in ("im.median_filter", "ndimage.median_filter")
             for c in calls_in(sa))
    ctx.check(ok, sa, "median filter of the given window",
              "smooth_axis is no longer a median filter")
    # turning point works on copies and returns the farthest point
    pre = ctx.repo.mod("preproc")
    ft = pre.func("find_turning_point")
    ctx.analysed(ft)
    cpa = [st for st in walk_no_nested(ft, False)
           if isinstance(st, ast.Assign) and isinstance(st.value, ast.Call)
           and call_name(st.value) in ("np.copy", "np.array")]
    cps = [norm(st.value) for st in cpa]
    ctx.check(len(cps) == 2, ft, f"works on copies: {cps}",
              "find_turning_point normalises its inputs in place")
    cnames = sorted(norm(st.targets[0]) for st in cpa)
    # "farthest from the contact point in the direction of indentation":
    # both normalised coordinates are clamped on one side only (what lies
    # on the other side of the contact point / below the noise level is 0)
    clamps = 0
    for st in walk_no_nested(ft, False):
        if isinstance(st, ast.Assign) and len(st.targets) == 1 and \
                isinstance(st.targets[0], ast.Subscript) and norm(
                    st.targets[0].value) in cnames and isinstance(
                    st.value, ast.Constant) and st.value.value == 0:
            v_ = norm(st.targets[0].value)
            mk = st.targets[0].slice
            clamps += 1
            one_sided = isinstance(mk, ast.Compare) and len(mk.ops) == 1 \
                and isinstance(mk.ops[0], (ast.Lt, ast.LtE)) and norm(
                    mk.left) == v_
            ctx.check(one_sided, st, f"{v_} clamped on one side: "
                      f"{norm(mk)[:40]}",
                      f"find_turning_point zeroes `{v_}` where "
                      f"`{norm(mk)[:50]}` - not a one-sided `{v_} < "
                      "threshold`: values on the far side of the contact "
                      "point (negative forces of an adhesion dip or a "
                      "drifting retract part) keep their magnitude and can "
                      "become 'the farthest point', so the turning point is "
                      "no longer the point of maximum indentation")
    ctx.floor("one-sided clamps in find_turning_point", clamps, 2)
    rets = [r for r in walk_no_nested(ft, False) if isinstance(r, ast.Return)]
    R = Resolver(ft, keep=set(cnames))
    ok = False
    if rets and len(cnames) == 2:
        a_, b_ = cnames
        ok = R.text(rets[0].value) in (
            f"np.argmax({a_} ** 2 + {b_} ** 2)",
            f"np.argmax({b_} ** 2 + {a_} ** 2)")
    ctx.check(ok, ft, "turning point = farthest point in normalised "
              "coordinates", "turning point is not the argmax of x^2 + y^2")
    # "normalised": the index does not depend on unit or offset of either
    # force axis (scale types)
    from ..scale import INV, S, Interp, first_top, is_inv
    ps = [a.arg for a in ft.args.args]
    if len(ps) < 3:
        raise Undecided("find_turning_point signature changed")
    # (the tip-position axis keeps its unit in the degenerate case
    # x.min() == 0 by design of the guard; only the force axis is decided)
    for axis, other in ((ps[1], ps[0]),):
        it = Interp(ft, {axis: S(1, 1), other: INV, ps[2]: INV}, shift=True)
        rets_ = it.run()
        for e, node in it.errors:
            ctx.fail(node, f"turning point vs. {axis}: {norm(node)[:50]}",
                     f"the turning point depends on the unit or a constant "
                     f"offset of `{axis}`: {e.why} (the segment switch moves "
                     f"when e.g. the force offset has not been removed yet)")
        if it.errors:
            continue
        res = None
        from .. import scale as _sc
        for v, _ in rets_:
            res = _sc.join(res, v)
        if res is None or first_top(res) is not None or it.tops:
            raise Undecided(f"find_turning_point: cannot type the result "
                            f"for `{axis}`")
        ctx.check(is_inv(res), ft, f"turning point invariant under scaling "
                  f"and offset of `{axis}`",
                  f"the turning point is a {res} quantity of `{axis}`")


def r4_pipeline_restarts_from_raw(ctx):
    """a step owns its columns only if every pipeline starts from the
    recorded data: columns edited by a step of an earlier pipeline must
    not survive into a pipeline that does not contain that step"""
    from .c06 import r1_restart_from_raw
    r1_restart_from_raw(ctx)


def r5_estimation_leaves_force_alone(ctx):
    """correct_force_offset and correct_tip_offset hand the curve's own
    force column to compute_poc: an estimator that edits its input (or a
    view of it) rewrites a column the step does not own"""
    steps = _steps(ctx)
    n = 0
    for ident, f in sorted(steps.items()):
        ap = f.args.args[0].arg
        for c in calls_in(f):
            if (call_name(c) or "").endswith("compute_poc"):
                a = _poc_arg(ctx, c, "force")
                if a is not None and (base_of(Resolver(f).resolve(a)) == ap):
                    n += 1
    ctx.floor("steps that hand a column of the curve to compute_poc", n, 2)
    from .c10 import r6_poc_leaves_force_alone
    r6_poc_leaves_force_alone(ctx)


def base_of(node):
    while isinstance(node, (ast.Attribute, ast.Subscript)):
        node = node.value
    return node.id if isinstance(node, ast.Name) else None


RULES = [
    ("C07-R1", "each step writes only the columns it owns", r1_ownership),
    ("C07-R2", "defining relation of every step", r2_relations),
    ("C07-R3", "exact monotonicity test, uniqueness loop, turning point",
     r3_monotone_test),
    ("C07-R4", "every pipeline restarts from the recorded data (columns of "
     "an earlier pipeline's steps do not survive)",
     r4_pipeline_restarts_from_raw),
    ("C07-R5", "contact point estimation does not edit the force column it "
     "is handed", r5_estimation_leaves_force_alone),
]
