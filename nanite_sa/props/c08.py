"""C08 — contact-point estimators return a usable, scale-independent
index."""
from __future__ import annotations

import ast

from .. import facts, fitrules, scale
from ..astutil import (call_name, calls_in, const_str, dotted, func_params,
                       literal,
                       norm, walk_no_nested)
from ..cfg import CFG
from ..guards import conditions_at, from_early_exit
from ..loader import AnchorError, Undecided
from ..symres import Resolver
from ..scale import INV, LIN, S, Interp, first_err, first_top, flat, is_inv

EXPLANATION = (
    "Abstract interpretation with scale types (value -> a*value + b): (R1) "
    "for each of the registered estimators, with the force typed AFF(1), "
    "the returned index is INV, i.e. unchanged by multiplying the force "
    "with a positive factor or adding a constant (up to rounding) - "
    "thresholds are LIN vs LIN, normalised curves LIN/LIN, arg-reductions "
    "of AFF are INV, filters must be offset-preserving (zero-padding "
    "convolutions are not), inner fits receive only INV data; the "
    "clip-approach helper is argmax based; (R2) in compute_poc every path "
    "to a return passes the NaN -> size//2 replacement after the estimator "
    "call and an unknown method raises ValueError; (R3) sibling "
    "cross-check: every estimator guards its reductions over the "
    "(possibly empty) input with a size test that routes to NaN; (R4) the "
    "baseline-deviation test is a strict comparison against a threshold "
    "that can be zero (otherwise an exactly flat baseline is 'exceeded' by "
    "its first sample).")
NOT_DECIDED = [
    "index within [0, size) for the three fit-based estimators (x0 is an "
    "unbounded fit parameter)",
    "accuracy on clean model curves (fraction of the curve length)",
    "exact equality for power-of-two factors vs within one sample otherwise "
    "(floating-point rounding)",
]

AFF1 = S(1, 1)


def _estimators(ctx):
    ms = facts.poc_methods(ctx.repo)
    ctx.floor("registered contact-point estimators", len(ms), 6)
    return ms


def _summary_factory(ctx, mod, cache):
    """callee summaries for poc functions: analyse the callee with the
    actual argument types"""
    def make(name):
        def summary(args, kws, node):
            f = mod.funcs[name]
            key = (name, repr(args[:1]))
            if key in cache:
                return cache[key]
            cache[key] = scale.Top(f"recursive {name}")
            ps = func_params(f)
            env = {p: INV for p in ps}
            if args:
                env[ps[0]] = args[0]
            it = Interp(f, env, callees=callees, shift=True)
            rets = it.run()
            out = None
            for v, st in rets:
                x = v
                if isinstance(v, scale.Tup) and v.es:
                    x = v.es[0]
                out = scale.join(out, x)
            if it.errors:
                out = it.errors[0][0]
            cache[key] = out if out is not None else INV
            return cache[key]
        return summary
    callees = {}
    for q in mod.funcs:
        if "." not in q:
            callees[q] = make(q)
    return callees


def r1_affine_invariance(ctx):
    pm = ctx.repo.mod("poc")
    cache = {}
    callees = _summary_factory(ctx, pm, cache)
    for f, kws, d in _estimators(ctx):
        ctx.analysed(f)
        ps = func_params(f)
        env = {p: INV for p in ps}
        env[ps[0]] = AFF1
        it = Interp(f, env, callees=callees, shift=True)
        rets = it.run()
        ident = kws.get("identifier")
        for e, node in it.errors:
            ctx.fail(node, f"{ident}: {norm(node)[:70]}",
                     f"estimator '{ident}' is not invariant under scaling/"
                     f"offset of the force: {e.why}")
        bad_top = None
        res = None
        for v, st in rets:
            x = v.es[0] if isinstance(v, scale.Tup) and v.es else v
            res = scale.join(res, x)
        if not it.errors:
            t = first_top(res) if res is not None else None
            if t is not None:
                raise Undecided(f"{ident}: cannot type the returned index "
                                f"({t.why})")
            if it.tops:
                raise Undecided(f"{ident}: cannot type a branch condition "
                                f"({it.tops[0][0].why})")
            ctx.check(res is not None and is_inv(res), f,
                      f"{ident}: returned index is {res}",
                      f"estimator '{ident}' returns a {res} quantity: the "
                      "index changes when the force is rescaled or shifted")
    # clip-approach helper
    ca = pm.func("compute_preproc_clip_approach")
    ctx.analysed(ca)
    it = Interp(ca, {func_params(ca)[0]: AFF1}, callees=callees, shift=True)
    rets = it.run()
    for e, node in it.errors:
        ctx.fail(node, f"clip_approach: {norm(node)[:60]}", e.why)
    ok = rets and all(isinstance(v, S) and v == AFF1 for v, _ in rets)
    ctx.check(bool(ok), ca, "clip_approach returns a slice of the force "
              "selected by an invariant index",
              "compute_preproc_clip_approach does not return a part of the "
              "force selected independently of its scale")
    # ... on every path: only the part *before* the force maximum
    from ..symres import Resolver
    Rca = Resolver(ca)
    for r_ in [r for r in walk_no_nested(ca, False)
               if isinstance(r, ast.Return)]:
        v_ = Rca.resolve(r_.value) if r_.value is not None else None
        sliced = isinstance(v_, ast.Subscript) and isinstance(
            v_.slice, ast.Slice) and v_.slice.lower is None and \
            v_.slice.upper is not None and "argmax(" in norm(v_.slice.upper)
        ctx.check(sliced, r_, f"returns {norm(v_)[:50] if v_ is not None else None}",
                  "compute_preproc_clip_approach can return more than the "
                  "part before the force maximum (e.g. the whole array when "
                  "the maximum is the first sample): estimators then see "
                  "retract-only / constant data instead of an empty array "
                  "and raise or return an index instead of the centre "
                  "fallback")
    uses_argmax = any(call_name(c) in ("np.argmax", "numpy.argmax")
                      for c in calls_in(ca))
    ctx.check(uses_argmax, ca, "only the part before the force maximum",
              "the retract part is no longer clipped at the force maximum")
    cp_ = [c for c in calls_in(ca) if call_name(c) in ("np.array", "np.copy")]
    ctx.check(bool(cp_), ca, "works on a copy of the force",
              "clip_approach returns a view of the caller's array")


_SIZE = 10
_CASES = [float("nan"), -1, 0, 5, _SIZE - 1, _SIZE, _SIZE + 1]
_WANT_NAN_ONLY = [True] + [False] * 6
_WANT_RANGE = [True, True, False, False, False, True, True]


def _fallback_table(stmt):
    """for the statement that installs the centre fallback: the atoms of its
    path condition that mention the index, the unrelated ones, and the
    truth table of "the fallback runs" over the abstract index values
    NaN, -1, 0, 5, size-1, size, size+1 (the condition only compares the
    index with 0 and the size, so these orderings are exhaustive)"""
    var = norm(stmt.targets[0])
    conds = conditions_at(stmt)
    SIZE = _SIZE
    CASES = _CASES

    def ev(e, x):
        """value of a test over the index `var` = x (None: not understood)"""
        if isinstance(e, ast.BoolOp):
            vals = [ev(v, x) for v in e.values]
            if any(v is None for v in vals):
                return None
            return all(vals) if isinstance(e.op, ast.And) else any(vals)
        if isinstance(e, ast.UnaryOp) and isinstance(e.op, ast.Not):
            v = ev(e.operand, x)
            return None if v is None else (not v)
        if isinstance(e, ast.Call) and call_name(e) in (
                "np.isnan", "numpy.isnan", "math.isnan") and len(
                e.args) == 1 and norm(e.args[0]) == var:
            return x != x
        if isinstance(e, ast.Compare):
            def num(t):
                tx = norm(t)
                if tx == var:
                    return x
                if tx in ("force.size", "len(force)", "force.shape[0]"):
                    return SIZE
                if tx in ("force.size - 1", "len(force) - 1"):
                    return SIZE - 1
                if isinstance(t, ast.Constant) and isinstance(
                        t.value, (int, float)) and not isinstance(
                        t.value, bool):
                    return t.value
                if isinstance(t, ast.UnaryOp) and isinstance(
                        t.op, ast.USub) and isinstance(
                        t.operand, ast.Constant):
                    return -t.operand.value
                return None
            vals = [num(e.left)] + [num(c) for c in e.comparators]
            if any(v is None for v in vals):
                return None
            res = True
            for op, l, r_ in zip(e.ops, vals, vals[1:]):
                f = {ast.Lt: l < r_, ast.LtE: l <= r_, ast.Gt: l > r_,
                     ast.GtE: l >= r_, ast.Eq: l == r_,
                     ast.NotEq: l != r_}.get(type(op))
                if f is None:
                    return None
                res = res and f
            return res
        return None

    related = [a for a in conds if var in {
        n.id for n in ast.walk(a.node) if isinstance(n, ast.Name)}]
    others = [a for a in conds if a not in related and not a.expanded
              and not from_early_exit(a, stmt)]
    table = []
    for x in CASES:
        vals = [ev(a.node, x) for a in related]
        if any(v is None for v in vals):
            raise Undecided("compute_poc: fallback condition not understood: "
                            + "; ".join(repr(a) for a in related))
        table.append(all(v == a.pol for v, a in zip(vals, related)))
    return var, related, others, table


def _range_fallback(fn, stmt):
    return _fallback_table(stmt)[3] == _WANT_RANGE


def r2_nan_fallback(ctx):
    pm = ctx.repo.mod("poc")
    fn = pm.func("compute_poc")
    ctx.analysed(fn)
    cfg = CFG(fn)
    rets = [n for n in cfg.nodes if n.kind == "stmt"
            and isinstance(n.ast, ast.Return)]
    # the replacement
    repl = [n for n in cfg.nodes if n.kind == "stmt"
            and isinstance(n.ast, ast.Assign)
            and "size // 2" in norm(n.ast.value)]
    ctx.floor("NaN replacement in compute_poc", len(repl), 1)
    r = repl[0]
    var = norm(r.ast.targets[0])
    conds = conditions_at(r.ast)
    var, related, others, table = _fallback_table(r.ast)
    CASES = _CASES
    want_nan_only = [True] + [False] * 6
    want_range = [True, True, False, False, False, True, True]
    nan_atoms = related if table in (want_nan_only, want_range) else []
    ctx.check(bool(related) and table in (want_nan_only, want_range)
              and not others, r.ast,
              f"{var} replaced by the centre iff NaN",
              "the centre fallback is not applied exactly when the "
              "estimator returned NaN"
              + (f" (replacement for index in {[c for c, t in zip(CASES, table) if t]} of a 10-sample curve)" if related else ""))
    range_checked = table == want_range
    ctx.check(norm(r.ast.value) == "force.size // 2", r.ast,
              f"fallback value {norm(r.ast.value)}",
              "the fallback is not the middle of the (clipped) data")
    enclosing = [p.test for p in _parents_if(r.ast)]
    tests = [n for n in cfg.nodes if n.kind == "test"
             and (f"isnan({var})" in norm(n.ast)
                  or any(n.ast is t for t in enclosing))]
    for rt in rets:
        ok = tests and any(cfg.dominates(t.id, rt.id) for t in tests)
        ctx.check(bool(ok), rt.ast, f"{norm(rt.ast)} after the NaN test",
                  "compute_poc can return the estimator's result without "
                  "the NaN -> centre replacement")
        v = rt.ast.value
        first = v.elts[0] if isinstance(v, ast.Tuple) else v
        ctx.check(norm(first) == var, rt.ast, f"returns {norm(first)}",
                  "compute_poc returns something other than the (replaced) "
                  "index")
    # no assignment to var after the test
    for n in cfg.nodes:
        if n.kind == "stmt" and isinstance(n.ast, ast.Assign) and any(
                var in [norm(x) for x in ast.walk(t) if isinstance(
                    x, ast.Name)] for t in n.ast.targets) and n is not r:
            if tests and n.id in cfg.reach([tests[0].id],
                                           skip_labels=("exc",)):
                ctx.fail(n.ast, norm(n.ast)[:50],
                         "the index is overwritten after the NaN fallback")
    # unknown method -> ValueError (for-else)
    loops = [n for n in walk_no_nested(fn, False) if isinstance(n, ast.For)]
    ok = any(lp.orelse and any(isinstance(s, ast.Raise) and "ValueError"
                               in norm(s) for s in lp.orelse)
             and any(isinstance(s, ast.Break) for s in ast.walk(lp))
             for lp in loops)
    if not ok:
        ok = _lookup_by_next(fn)
    ctx.check(ok, fn, "unknown method raises ValueError",
              "an unknown estimator name is not rejected with ValueError")
    # the estimator is called with the (clipped) force
    calls = [c for c in calls_in(fn) if isinstance(c.func, ast.Name)
             and c.func.id not in ("compute_preproc_clip_approach",)]
    ok = any(c.args and norm(c.args[0]) == "force" for c in calls)
    ctx.check(ok, fn, "estimator receives the force data",
              "estimator not called with the force")
    clip = [c for c in calls_in(fn)
            if call_name(c) == "compute_preproc_clip_approach"]
    for c in clip:
        conds = conditions_at(c)
        ctx.check(any(a.pol and "clip_approach" in a.text for a in conds), c,
                  "clipping only for estimators that declare it",
                  "clip_approach applied regardless of the declaration")


def _lookup_by_next(fn):
    """m = next((f for f in POC_METHODS if f.identifier == method), None);
    if m is None: raise ValueError  -- before m is called"""
    for st in fn.body:
        if not (isinstance(st, ast.Assign) and isinstance(
                st.targets[0], ast.Name) and isinstance(st.value, ast.Call)
                and call_name(st.value) == "next"
                and len(st.value.args) == 2
                and literal(st.value.args[1]) is None
                and isinstance(st.value.args[0], ast.GeneratorExp)):
            continue
        ge = st.value.args[0]
        if len(ge.generators) != 1:
            continue
        g = ge.generators[0]
        sel = [norm(i) for i in g.ifs]
        tv = norm(g.target)
        if norm(ge.elt) != tv or norm(g.iter) != "POC_METHODS" or \
                len(sel) != 1 or sel[0] not in (
                    f"{tv}.identifier == method",
                    f"method == {tv}.identifier"):
            continue
        var = st.targets[0].id
        uses = [c for c in calls_in(fn) if isinstance(c.func, ast.Name)
                and c.func.id == var]
        if not uses:
            continue
        good = True
        for c in uses:
            conds = conditions_at(c)
            hit = [a for a in conds if not a.pol and a.text == f"{var} is None"
                   and isinstance(a.origin, ast.If)
                   and any(isinstance(s, ast.Raise) and "ValueError" in
                           norm(s) for s in a.origin.body)]
            good = good and bool(hit)
        if good:
            return True
    return False


REDUCTIONS = {"min", "max", "mean", "average", "argmax", "argmin", "ptp",
              "median", "nanmax", "nanmin"}


def r3_degenerate_guards(ctx):
    for f, kws, d in _estimators(ctx):
        ident = kws.get("identifier")
        arg = func_params(f)[0]
        # names derived from the input without reduction (slices, filters)
        derived = {arg}
        changed = True
        while changed:
            changed = False
            for st in walk_no_nested(f, False):
                if isinstance(st, ast.Assign) and isinstance(
                        st.targets[0], ast.Name) and \
                        st.targets[0].id not in derived:
                    v = st.value
                    base = v
                    while isinstance(base, ast.Subscript):
                        base = base.value
                    if isinstance(base, ast.Name) and base.id in derived \
                            and isinstance(v, ast.Subscript) and isinstance(
                                v.slice, ast.Slice):
                        derived.add(st.targets[0].id)
                        changed = True
                    if isinstance(v, ast.Call) and (call_name(v) or "").split(
                            ".")[-1] in ("uniform_filter1d", "gradient",
                                         "gaussian_filter1d") and v.args \
                            and isinstance(v.args[0], ast.Name) \
                            and v.args[0].id in derived:
                        derived.add(st.targets[0].id)
                        changed = True
        unguarded = None
        n_red = 0
        for c in calls_in(f):
            tgt = None
            cn = call_name(c) or ""
            short = cn.split(".")[-1]
            if short not in REDUCTIONS:
                continue
            if isinstance(c.func, ast.Attribute) and isinstance(
                    c.func.value, ast.Name) and c.func.value.id in derived:
                tgt = c.func.value.id
            elif c.args:
                b = c.args[0]
                while isinstance(b, (ast.Subscript,)):
                    b = b.value
                if isinstance(b, ast.Name) and b.id in derived:
                    tgt = b.id
            if tgt is None:
                continue
            n_red += 1
            conds = conditions_at(c)

            def rt_(a):
                # (`size = y.size` ... `if size > 1`)
                try:
                    return Resolver(f, keep=set(derived)).text(a.node)
                except Exception:
                    return a.text
            ok = any(".size" in t_ or "len(" in t_
                     for t_ in (rt_(a) for a in conds)
                     if any(dn in t_ for dn in derived))
            if not ok and unguarded is None:
                unguarded = c
        # np.gradient needs two samples of exactly the array it is given
        for c in calls_in(f):
            if (call_name(c) or "").split(".")[-1] != "gradient" or \
                    not c.args:
                continue
            a0 = c.args[0]
            n_red += 1
            if isinstance(a0, ast.Name) and a0.id in derived:
                conds = conditions_at(c)
                ok = any((f"{a0.id}.size" in t_ or f"len({a0.id})" in t_)
                         for t_ in [a.text for a in conds] + [
                             Resolver(f, keep=set(derived)).text(a.node)
                             for a in conds])
            elif isinstance(a0, ast.Subscript) and isinstance(
                    a0.slice, ast.Slice):
                ok = False     # a fresh, shorter array nobody tested
            else:
                continue
            if not ok and unguarded is None:
                unguarded = c
        # "first True" of a mask (np.argmax(mask) / np.where(mask)[0][0])
        # needs a test that the mask has a True entry at all
        Rm = Resolver(f)
        for c in calls_in(f):
            short = (call_name(c) or "").split(".")[-1]
            if short not in ("argmax", "where", "flatnonzero", "nonzero") \
                    or not c.args:
                continue
            a0 = c.args[0]
            base = a0
            while isinstance(base, ast.Subscript):
                base = base.value
            if not isinstance(base, ast.Name):
                continue
            bv = Rm.resolve(base)
            if not isinstance(bv, ast.Compare):
                continue            # not a boolean mask
            if short != "argmax":
                # where(mask)[0][0]: only when the first element is taken
                par = getattr(c, "_parent", None)
                gp = getattr(par, "_parent", None)
                if not (isinstance(par, ast.Subscript) and isinstance(
                        gp, ast.Subscript)):
                    continue
            n_red += 1
            conds = conditions_at(c)
            ok = any(a.pol and base.id in a.text and any(
                k in a.text for k in ("np.sum(", "np.any(", ".any()",
                                      ".sum()", "count_nonzero("))
                for a in conds)
            if not ok and short == "argmax":
                # post-check idiom: i = np.argmax(mask); if mask[i]: use i
                par = getattr(c, "_parent", None)
                if isinstance(par, ast.Assign) and isinstance(
                        par.targets[0], ast.Name) and isinstance(
                        a0, ast.Name):
                    iv = par.targets[0].id
                    probe = f"{a0.id}[{iv}]"
                    uses = [u for u in walk_no_nested(f, False)
                            if isinstance(u, ast.Name) and u.id == iv
                            and isinstance(u.ctx, ast.Load)
                            and norm(getattr(u, "_parent", u)) != probe]
                    ok = bool(uses) and all(any(
                        a.pol and a.text == probe
                        for a in conditions_at(u)) for u in uses)
            ctx.check(ok, c, f"{ident}: first True of `{base.id}` only if "
                      "there is one",
                      f"estimator '{ident}' takes the first True of the mask "
                      f"`{base.id}` without testing that the mask has any "
                      f"True entry: for an all-False mask np.argmax returns "
                      f"0 (an index next to the force maximum is returned "
                      f"instead of NaN -> centre) or np.where(...)[0][0] "
                      f"raises IndexError")
        if unguarded is not None:
            ctx.fail(unguarded, f"{ident}: {norm(unguarded)[:50]} without a "
                     "size guard",
                     f"estimator '{ident}' reduces its input "
                     f"(`{norm(unguarded)[:50]}`) without first testing its "
                     "size, unlike its siblings: for an empty/degenerate "
                     "array (force maximum at the first point, constant or "
                     "decreasing force) it raises instead of returning NaN, "
                     "so compute_poc raises instead of falling back to the "
                     "centre")
        else:
            ctx.ok(f, f"{ident}: {n_red} reduction(s) of the input are "
                   "size-guarded")


def r4_strict_threshold(ctx):
    pm = ctx.repo.mod("poc")
    fn = pm.func("poc_deviation_from_baseline")
    cmps = [n for n in walk_no_nested(fn, False) if isinstance(n, ast.Compare)
            and len(n.ops) == 1 and isinstance(n.ops[0], (ast.Gt, ast.GtE,
                                                          ast.Lt, ast.LtE))
            and any(isinstance(x, ast.Name) and x.id == func_params(fn)[0]
                    for x in ast.walk(n))]
    ctx.floor("deviation comparison", len(cmps), 1)
    for c in cmps:
        ctx.check(isinstance(c.ops[0], (ast.Gt, ast.Lt)), c,
                  f"deviation test {norm(c)} is strict",
                  "the baseline-deviation test is not strict: the threshold "
                  "(twice the maximum baseline scatter) is 0 for an exactly "
                  "flat baseline, so the very first sample 'exceeds' it and "
                  "index 0 is returned for every noise-free curve")


def r5_index_range(ctx):
    """An index taken from an unbounded fit parameter can be negative or
    beyond the data.  Either the parameter is bounded to [0, size), or
    compute_poc treats an out-of-range result like NaN (centre fallback)."""
    pm = ctx.repo.mod("poc")
    cp_fn = pm.func("compute_poc")
    # (a) does compute_poc reject out-of-range indices?
    repl = [st for st in walk_no_nested(cp_fn, False)
            if isinstance(st, ast.Assign) and "size // 2" in norm(st.value)]
    global_ok = False
    if repl:
        try:
            global_ok = _range_fallback(cp_fn, repl[0])
        except Undecided:
            global_ok = False
    if repl and not global_ok:
        var = norm(repl[0].targets[0])
        tests = [p.test for p in _parents_if(repl[0])]
        low = high = False
        for t in tests:
            for c in ast.walk(t):
                if not isinstance(c, ast.Compare):
                    continue
                txt = norm(c)
                if var not in txt:
                    continue
                if "0" in [norm(x) for x in [c.left] + c.comparators]:
                    low = True
                if any(("size" in norm(x) or "len(" in norm(x))
                       for x in [c.left] + c.comparators):
                    high = True
        global_ok = low and high
    n = 0
    for f, kws, d in _estimators(ctx):
        ident = kws.get("identifier")
        for st in walk_no_nested(f, False):
            if not (isinstance(st, ast.Assign) and isinstance(
                    st.value, ast.Call) and call_name(st.value) == "int"
                    and st.value.args):
                continue
            a = st.value.args[0]
            # int(<fit result>.params["name"][.value])
            while isinstance(a, ast.Attribute) and a.attr == "value":
                a = a.value
            if not (isinstance(a, ast.Subscript) and const_str(a.slice)
                    and norm(a.value).endswith(".params")):
                continue
            pname = const_str(a.slice)
            n += 1
            bounded = False
            for c in calls_in(f, nested=True):
                if isinstance(c.func, ast.Attribute) and c.func.attr == \
                        "add" and c.args and const_str(c.args[0]) == pname:
                    kw = {k.arg: k.value for k in c.keywords}
                    lo = kw.get("min")
                    hi = kw.get("max")
                    bounded = lo is not None and norm(lo) in ("0", "0.0") \
                        and hi is not None and ("size" in norm(hi)
                                                or "len(" in norm(hi))
            ctx.check(bounded or global_ok, st,
                      f"{ident}: index from parameter '{pname}' stays inside "
                      "the data",
                      f"estimator '{ident}' returns int(params['{pname}']) "
                      f"of an unbounded fit parameter and compute_poc only "
                      f"replaces NaN: for curves without a baseline the "
                      f"fitted '{pname}' can be negative (or beyond the "
                      f"end), and compute_poc returns an index outside "
                      f"the data instead of the documented centre fallback")
    ctx.floor("indices taken from fit parameters", n, 3)


def _parents_if(node):
    out = []
    p_ = getattr(node, "_parent", None)
    while p_ is not None:
        if isinstance(p_, ast.If):
            out.append(p_)
        p_ = getattr(p_, "_parent", None)
    return out


def r6_nan_free_fit_inputs(ctx):
    """lmfit.minimize raises ValueError as soon as a NaN reaches it.  In an
    estimator that fits, a division whose denominator vanishes for a
    documented degenerate input - the peak-to-peak range of the force
    (constant data, e.g. a flat approach part after clipping) or an index
    estimate that can be 0 (no baseline) - must be excluded by a guard,
    otherwise the estimator raises instead of returning NaN (= centre
    fallback in compute_poc)."""
    from ..symres import Resolver
    n = 0
    for f, kws, d in _estimators(ctx):
        if not any((call_name(c) or "").endswith("minimize")
                   for c in calls_in(f, nested=False)):
            continue
        R = Resolver(f)
        params = func_params(f)
        data = params[0] if params else "force"
        # names holding an index estimate in [0, size)
        idx_names = set()
        for st in walk_no_nested(f, False):
            if isinstance(st, ast.Assign) and isinstance(
                    st.targets[0], ast.Name) and isinstance(
                    st.value, ast.Call) and (call_name(st.value) or ""
                                             ).startswith("poc_"):
                idx_names.add(st.targets[0].id)

        def classify(den):
            t = R.text(den).replace(" ", "")
            if isinstance(den, ast.Name) and den.id in idx_names:
                return "index"
            mx = [f"np.max({data})", f"{data}.max()", f"max({data})"]
            mn = [f"np.min({data})", f"{data}.min()", f"min({data})"]
            if any(t == f"{a}-{b}" for a in mx for b in mn) or t in (
                    f"np.ptp({data})", f"{data}.ptp()"):
                return "range"
            return None

        for node in walk_no_nested(f, False):
            if not (isinstance(node, ast.BinOp) and isinstance(
                    node.op, ast.Div)):
                continue
            kind = classify(node.right)
            if kind is None:
                continue
            n += 1
            dtxt = norm(node.right)
            rtxt = R.text(node.right).replace(" ", "")
            ok = False
            for a in conditions_at(node):
                if not a.pol:
                    continue
                c = a.node
                at = R.text(c).replace(" ", "")
                if isinstance(c, ast.Name) and c.id == dtxt:
                    ok = True
                if isinstance(c, ast.Compare) and len(c.ops) == 1:
                    l = R.text(c.left).replace(" ", "")
                    r_ = R.text(c.comparators[0]).replace(" ", "")
                    op = c.ops[0]
                    zero = ("0", "0.0")
                    if l in (dtxt, rtxt) and r_ in zero and isinstance(
                            op, (ast.Gt, ast.NotEq)):
                        ok = True
                    if r_ in (dtxt, rtxt) and l in zero and isinstance(
                            op, (ast.Lt, ast.NotEq)):
                        ok = True
                    if kind == "range" and isinstance(
                            op, (ast.Gt, ast.NotEq)) and "max" in l and \
                            "min" in r_ and data in l and data in r_:
                        ok = True
                    if kind == "range" and isinstance(
                            op, (ast.Lt, ast.NotEq)) and "min" in l and \
                            "max" in r_ and data in l and data in r_:
                        ok = True
                del at
            what = {"range": "the peak-to-peak range of the force, which "
                    "is 0 for constant data (a flat approach part)",
                    "index": "an index estimate that is 0 for a curve "
                    "without a baseline"}[kind]
            ctx.check(ok, node, f"{f.name}: `{norm(node)[:40]}` guarded "
                      f"against a zero {kind}",
                      f"{f.name} divides by `{dtxt}` - {what} - without a "
                      "guard: the NaN reaches lmfit.minimize, which raises "
                      "ValueError, so compute_poc raises for this "
                      "degenerate input instead of falling back to the "
                      "middle of the data")
        # a reduction over the part of the data before an index estimate is
        # NaN (mean/std) when that index is 0 (no baseline)
        for node in walk_no_nested(f, False):
            if not (isinstance(node, ast.Call) and (call_name(node) or "")
                    in ("np.mean", "np.average", "np.median", "np.std",
                        "np.nanmean", "np.var") and node.args
                    and isinstance(node.args[0], ast.Subscript)
                    and isinstance(node.args[0].slice, ast.Slice)):
                continue
            sl = node.args[0].slice
            up = sl.upper
            if sl.lower is None and isinstance(up, ast.Name) and \
                    up.id in idx_names:
                n += 1
                guarded = any(
                    a.pol and isinstance(a.node, (ast.Compare, ast.Name))
                    and up.id in {x.id for x in ast.walk(a.node)
                                  if isinstance(x, ast.Name)}
                    and ("> 0" in a.text or ">= 1" in a.text
                         or a.text == up.id or "!= 0" in a.text)
                    for a in conditions_at(node))
                ctx.check(guarded, node,
                          f"{f.name}: `{norm(node)[:40]}` over a non-empty "
                          "part",
                          f"{f.name} averages `{norm(node.args[0])[:40]}`, "
                          f"which is empty when the index estimate "
                          f"`{up.id}` is 0 (curve without baseline): the "
                          "NaN reaches lmfit.minimize, which raises "
                          "ValueError instead of the documented fallback")
    ctx.floor("zero-prone divisions in fitting estimators", n, 3)


def r7_documented_baseline_window(ctx):
    """deviation_from_baseline documents its baseline as the initial 10 %
    of the curve: the window is that fraction of the array it is given -
    a number of samples fixed in the code (a floor of 50 points, say) ties
    the estimate to the sampling: for a short curve the window then covers
    part of the indentation and the threshold is computed from contact
    data."""
    import re as _re
    pm = ctx.repo.mod("poc")
    f = pm.func("poc_deviation_from_baseline")
    ctx.analysed(f)
    doc = ast.get_docstring(f) or ""
    m = _re.search(r"initial\s+(\d+)\s*%", doc)
    if not m:
        raise Undecided("poc_deviation_from_baseline no longer documents "
                        "the baseline fraction")
    pct = int(m.group(1))
    R = Resolver(f, keep={f.args.args[0].arg})
    arr = f.args.args[0].arg
    n = 0
    for st in walk_no_nested(f, False):
        if not (isinstance(st, ast.Assign) and isinstance(
                st.value, ast.Subscript) and norm(st.value.value) == arr
                and isinstance(st.value.slice, ast.Slice)
                and st.value.slice.lower is None
                and st.value.slice.upper is not None
                and st.value.slice.step is None):
            continue
        up = R.text(st.value.slice.upper).replace(" ", "")
        n += 1
        frac = pct / 100
        size = (f"{arr}.size", f"len({arr})", f"{arr}.shape[0]")
        forms = set()
        for sz in size:
            forms |= {f"int({sz}*{frac})", f"int({frac}*{sz})",
                      f"int({sz}/{100 // pct})", f"{sz}//{100 // pct}",
                      f"int({sz}*{pct}/100)", f"int({pct}*{sz}/100)",
                      f"{sz}*{pct}//100", f"{pct}*{sz}//100"}
        ctx.check(up in forms, st,
                  f"baseline window = first {pct} % of the curve ({up})",
                  f"the baseline of deviation_from_baseline is "
                  f"`{arr}[:{R.text(st.value.slice.upper)}]`, not the "
                  f"documented initial {pct} % of the curve: the window no "
                  "longer scales with the array (for a short curve it "
                  "reaches into the indentation, the deviation threshold "
                  "explodes and the contact point is found far too late)")
    ctx.floor("baseline windows in deviation_from_baseline", n, 1)


RULES = [
    ("C08-R1", "returned index invariant under a*force + b (scale types)",
     r1_affine_invariance),
    ("C08-R2", "NaN -> centre fallback on every path of compute_poc",
     r2_nan_fallback),
    ("C08-R3", "every estimator size-guards reductions of its input",
     r3_degenerate_guards),
    ("C08-R4", "baseline-deviation test is strict", r4_strict_threshold),
    ("C08-R5", "an index taken from a fit parameter cannot leave the data",
     r5_index_range),
    ("C08-R6", "no NaN reaches the optimiser of a fitting estimator for "
     "constant data or a curve without baseline", r6_nan_free_fit_inputs),
    ("C08-R7", "the baseline window of deviation_from_baseline is the "
     "documented fraction of the curve", r7_documented_baseline_window),
]
